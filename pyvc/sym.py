"""pyvc.sym - symbolic values, path context and obligation bookkeeping.

Execution model: a function (interpreted real source + native contract lambdas) is run repeatedly; every run
follows one path.  `Ctx.branch()` is the only place where a path forks: it follows the recorded decision prefix and,
past it, asks the solver which sides are feasible and schedules the other side.  Because every run rebuilds its state
from scratch there is no state cloning; fresh symbol names are counter based and therefore stable across runs.

Values:
  Python ints/bools/None/str/tuples are used as themselves (concrete);
  SInt / SBool wrap z3 Int / Bool terms and overload the Python operators, so contract lambdas written in plain Python
  run natively on them (`__bool__` forks the path).
"""
from __future__ import annotations

import itertools
import time
import z3

SOLVER_TIMEOUT_MS = 20000


class PathAbort(Exception):
    """Current path is infeasible or was cut (assume(False), loop body end, ...)."""


class Unsupported(Exception):
    """Construct outside the supported subset -> UNDECIDED (exit 2), never a violation."""


class CheckerError(Exception):
    """Internal failure of the checker -> exit 3."""


_CUR: list['Ctx'] = []


def cur() -> 'Ctx':
    if not _CUR:
        raise CheckerError('no active path context')
    return _CUR[-1]


class Stats:
    def __init__(self):
        self.solver_s = 0.0
        self.checks = 0
        self.paths = 0
        self.by_backend = {'z3': 0, 'cvc5': 0, 'structural': 0, 'finite': 0}


STATS = Stats()


class Obligation:
    __slots__ = ('name', 'status', 'model', 'info', 'path', 'reason', 'backend', 'ms')

    def __init__(self, name, status, model=None, info=None, path=None, reason='', backend='z3', ms=0.0):
        self.name = name
        self.status = status  # 'discharged' | 'refuted' | 'unknown'
        self.model = model
        self.info = info
        self.path = path
        self.reason = reason
        self.backend = backend
        self.ms = ms

    def as_dict(self):
        return {'name': self.name, 'status': self.status, 'model': self.model, 'info': self.info,
                'reason': self.reason, 'backend': self.backend}


class Ctx:
    def __init__(self, decisions=()):
        self.decisions = list(decisions)
        self.taken: list[bool] = []
        self.new_pending: list[list[bool]] = []
        self.solver = z3.Solver()
        self.solver.set('timeout', SOLVER_TIMEOUT_MS)
        self.counter = itertools.count()
        self.inputs: dict[str, object] = {}  # name -> z3 const, for model extraction
        self.obligations: list[Obligation] = []
        self.notes: dict = {}
        self.pc_len = 0

    def __enter__(self):
        _CUR.append(self)
        return self

    def __exit__(self, *exc):
        _CUR.pop()
        return False

    # -- fresh symbols -------------------------------------------------------------------------------------------
    def fresh_name(self, hint):
        return f'{hint}!{next(self.counter)}'

    def int(self, name, register=True):
        c = z3.Int(name)
        if register:
            self.inputs[name] = c
        return SInt(c)

    def bool(self, name, register=True):
        c = z3.Bool(name)
        if register:
            self.inputs[name] = c
        return SBool(c)

    def fresh_int(self, hint='t'):
        return self.int(self.fresh_name(hint))

    def fresh_bool(self, hint='b'):
        return self.bool(self.fresh_name(hint))

    # -- solver -----------------------------------------------------------------------------------------------------
    def _check(self, *extra):
        t = time.time()
        r = self.solver.check(*extra)
        STATS.solver_s += time.time() - t
        STATS.checks += 1
        return r

    def add(self, cond):
        self.solver.add(cond)
        self.pc_len += 1

    def branch(self, cond) -> bool:
        """Fork on z3 Bool `cond`; returns the side taken by this run."""
        cond = z3.simplify(cond)
        if z3.is_true(cond):
            return True
        if z3.is_false(cond):
            return False
        idx = len(self.taken)
        if idx < len(self.decisions):
            choice = self.decisions[idx]
        else:
            can_t = self._check(cond) != z3.unsat
            can_f = self._check(z3.Not(cond)) != z3.unsat
            if can_t and can_f:
                choice = True
                self.new_pending.append(self.taken + [False])
            elif can_t:
                choice = True
            elif can_f:
                choice = False
            else:
                raise PathAbort()
        self.taken.append(choice)
        self.add(cond if choice else z3.Not(cond))
        return choice

    def assume(self, cond):
        if isinstance(cond, SBool):
            cond = cond.e  # a `pos` claim assumed is weaker than the real equality: sound, only incomplete
        elif isinstance(cond, bool):
            if not cond:
                raise PathAbort()
            return
        else:
            raise Unsupported(f'assume of non-boolean {cond!r}')
        self.add(cond)
        if self._check() == z3.unsat:
            raise PathAbort()

    def feasible(self):
        return self._check() != z3.unsat

    def model_of_inputs(self, model):
        out = {}
        for name, c in self.inputs.items():
            v = model.eval(c, model_completion=True)
            if z3.is_int_value(v):
                out[name] = v.as_long()
            elif z3.is_true(v):
                out[name] = True
            elif z3.is_false(v):
                out[name] = False
            else:
                out[name] = str(v)
        return out

    def prove(self, name, claim, info=None):
        """Obligation: `claim` holds on the current path. Never forks, never aborts."""
        t = time.time()
        if isinstance(claim, SBool):
            e = z3.simplify(claim.e)
            if z3.is_true(e):   # decided by simplification: no solver query
                ob = Obligation(name, 'discharged', info=info, path=list(self.taken), backend='simplify')
                self.obligations.append(ob)
                STATS.by_backend['simplify'] = STATS.by_backend.get('simplify', 0) + 1
                return ob
            r = self._check(z3.Not(e))
        elif isinstance(claim, bool) or claim is None:
            if claim:   # the claim evaluated to a concrete True on this path (the path condition is still symbolic)
                ob = Obligation(name, 'discharged', info=info, path=list(self.taken), backend='eval')
                self.obligations.append(ob)
                STATS.by_backend['eval'] = STATS.by_backend.get('eval', 0) + 1
                return ob
            r = self._check()
        else:
            raise Unsupported(f'obligation {name}: claim is not boolean: {claim!r}')
        ms = (time.time() - t) * 1000
        if r == z3.unsat:
            ob = Obligation(name, 'discharged', info=info, path=list(self.taken), ms=ms)
            STATS.by_backend['z3'] += 1
        elif r == z3.sat:
            ob = Obligation(name, 'refuted', model=self.model_of_inputs(self.solver.model()), info=info,
                            path=list(self.taken), ms=ms)
        else:
            ob = self._second_opinion(name, claim, info, ms)
        self.obligations.append(ob)
        return ob

    def _second_opinion(self, name, claim, info, ms):
        from . import smt
        extra = [z3.Not(claim.e)] if isinstance(claim, SBool) else []
        r = smt.cvc5_check(self.solver.assertions(), extra)
        if r == 'unsat':
            STATS.by_backend['cvc5'] += 1
            return Obligation(name, 'discharged', info=info, path=list(self.taken), backend='cvc5', ms=ms)
        return Obligation(name, 'unknown', info=info, path=list(self.taken),
                          reason=f'z3: {self.solver.reason_unknown()}; cvc5: {r}', ms=ms)


def explore(fn, max_paths=200000):
    """Run `fn(ctx)` along every feasible path. Returns list of finished Ctx objects (one per path)."""
    pending = [[]]
    done = []
    while pending:
        dec = pending.pop()
        ctx = Ctx(dec)
        with ctx:
            try:
                fn(ctx)
                ctx.notes.setdefault('end', 'normal')
            except PathAbort:
                ctx.notes['end'] = 'abort'
        pending.extend(ctx.new_pending)
        done.append(ctx)
        STATS.paths += 1
        if len(done) > max_paths:
            raise Unsupported('path explosion')
    return done


# --------------------------------------------------------------------------------------------------------------------
# symbolic scalars

def _z(v):
    """Python/sym value -> z3 arithmetic term."""
    if isinstance(v, SInt):
        return v.e
    if isinstance(v, SBool):
        return z3.If(v.e, z3.IntVal(1), z3.IntVal(0))
    if isinstance(v, bool):
        return z3.IntVal(int(v))
    if isinstance(v, int):
        return z3.IntVal(v)
    raise Unsupported(f'not an integer value: {v!r}')


def _zb(v):
    if isinstance(v, SBool):
        return v.e
    if isinstance(v, bool):
        return z3.BoolVal(v)
    if isinstance(v, SInt):
        return v.e != 0
    if isinstance(v, int):
        return z3.BoolVal(v != 0)
    if v is None:
        return z3.BoolVal(False)
    raise Unsupported(f'not a boolean value: {v!r}')


def is_intlike(v):
    return isinstance(v, (int, SInt, SBool))


def is_sym(v):
    return isinstance(v, (SInt, SBool))


def _wrap_int(e):
    e = z3.simplify(e)
    if z3.is_int_value(e):
        return e.as_long()
    return SInt(e)


def _wrap_bool(e):
    e = z3.simplify(e)
    if z3.is_true(e):
        return True
    if z3.is_false(e):
        return False
    return SBool(e)


class SInt:
    __slots__ = ('e',)

    def __init__(self, e):
        self.e = e

    def __repr__(self):
        return f'SInt({self.e})'

    def __hash__(self):
        raise Unsupported('hash of symbolic int')

    def _bin(self, o, f):
        if not is_intlike(o):
            return NotImplemented
        return _wrap_int(f(self.e, _z(o)))

    def _rbin(self, o, f):
        if not is_intlike(o):
            return NotImplemented
        return _wrap_int(f(_z(o), self.e))

    def __add__(self, o): return self._bin(o, lambda a, b: a + b)
    def __radd__(self, o): return self._rbin(o, lambda a, b: a + b)
    def __sub__(self, o): return self._bin(o, lambda a, b: a - b)
    def __rsub__(self, o): return self._rbin(o, lambda a, b: a - b)

    def __mul__(self, o):
        if not is_intlike(o):
            return NotImplemented
        if is_sym(o):
            raise Unsupported('non-linear multiplication')
        return _wrap_int(self.e * _z(o))

    __rmul__ = __mul__

    def __floordiv__(self, o):
        if isinstance(o, int) and not isinstance(o, bool) and o > 0:
            return _wrap_int(self.e / z3.IntVal(o))  # z3 int div with positive divisor == floor division
        raise Unsupported('floor division by non-constant or non-positive divisor')

    def __mod__(self, o):
        if isinstance(o, int) and not isinstance(o, bool) and o > 0:
            return _wrap_int(self.e % z3.IntVal(o))
        raise Unsupported('modulo by non-constant or non-positive divisor')

    def __neg__(self): return _wrap_int(-self.e)
    def __pos__(self): return self
    def __abs__(self): return _wrap_int(z3.If(self.e >= 0, self.e, -self.e))

    def _cmp(self, o, f):
        if not is_intlike(o):
            return NotImplemented
        return _wrap_bool(f(self.e, _z(o)))

    def __lt__(self, o): return self._cmp(o, lambda a, b: a < b)
    def __le__(self, o): return self._cmp(o, lambda a, b: a <= b)
    def __gt__(self, o): return self._cmp(o, lambda a, b: a > b)
    def __ge__(self, o): return self._cmp(o, lambda a, b: a >= b)

    def __eq__(self, o):
        if not is_intlike(o):
            return False  # int == str/None/tuple is False in Python
        return _wrap_bool(self.e == _z(o))

    def __ne__(self, o):
        if not is_intlike(o):
            return True
        return _wrap_bool(self.e != _z(o))

    def __bool__(self):
        return cur().branch(self.e != 0)

    def __index__(self):
        raise Unsupported('symbolic int used as concrete index')


class SBool:
    """`pos` marks a claim containing skolem constants (pointwise equality of ropes/lists): it may only be used in
    positive position of a proof obligation - never branched on, negated or assumed as a full equality."""
    __slots__ = ('e', 'pos')

    def __init__(self, e, pos=False):
        self.e = e
        self.pos = pos

    def __repr__(self):
        return f'SBool({self.e})'

    def __hash__(self):
        raise Unsupported('hash of symbolic bool')

    def __bool__(self):
        if self.pos:
            raise Unsupported('branch on a pointwise (skolemised) equality claim')
        return cur().branch(self.e)

    def __and__(self, o): return and_(self, o)
    __rand__ = __and__
    def __or__(self, o): return or_(self, o)
    __ror__ = __or__

    def __invert__(self):
        if self.pos:
            raise Unsupported('negation of a pointwise (skolemised) equality claim')
        return _wrap_bool(z3.Not(self.e))

    def __eq__(self, o):
        if isinstance(o, (SBool, bool)):
            return _wrap_bool(self.e == _zb(o))
        if is_intlike(o):
            return _wrap_bool(_z(self) == _z(o))
        return False

    def __ne__(self, o):
        r = self.__eq__(o)
        return not_(r)

    # arithmetic on bools (bool is an int in Python)
    def __add__(self, o): return SInt(_z(self)).__add__(o)
    __radd__ = __add__
    def __sub__(self, o): return SInt(_z(self)).__sub__(o)
    def __rsub__(self, o): return SInt(_z(self)).__rsub__(o)
    def __neg__(self): return SInt(_z(self)).__neg__()
    def __lt__(self, o): return SInt(_z(self)).__lt__(o)
    def __le__(self, o): return SInt(_z(self)).__le__(o)
    def __gt__(self, o): return SInt(_z(self)).__gt__(o)
    def __ge__(self, o): return SInt(_z(self)).__ge__(o)


# --------------------------------------------------------------------------------------------------------------------
# non-forking logical helpers usable from contracts natively AND symbolically

def not_(a):
    if isinstance(a, SBool):
        return ~a
    if isinstance(a, SInt):
        return _wrap_bool(a.e == 0)
    return not a


def _pos(xs):
    return any(isinstance(x, SBool) and x.pos for x in xs)


def and_(*xs):
    xs = [x for x in xs]
    if any(isinstance(x, (SBool, SInt)) for x in xs):
        r = _wrap_bool(z3.And(*[_zb(x) for x in xs]))
        if isinstance(r, SBool) and _pos(xs):
            r.pos = True
        return r
    return all(bool(x) for x in xs)


def or_(*xs):
    if any(isinstance(x, (SBool, SInt)) for x in xs):
        r = _wrap_bool(z3.Or(*[_zb(x) for x in xs]))
        if isinstance(r, SBool) and _pos(xs):
            r.pos = True
        return r
    return any(bool(x) for x in xs)


def implies(a, b):
    return or_(not_(a), b)


def iff(a, b):
    return and_(implies(a, b), implies(b, a))


def ite(c, a, b):
    if isinstance(c, SBool) and c.pos:
        raise Unsupported('ite on a pointwise equality claim')
    if isinstance(c, (SBool, SInt)):
        ce = _zb(c)
        if is_intlike(a) and is_intlike(b) and not (isinstance(a, (bool, SBool)) and isinstance(b, (bool, SBool))):
            return _wrap_int(z3.If(ce, _z(a), _z(b)))
        if isinstance(a, (bool, SBool)) and isinstance(b, (bool, SBool)):
            return _wrap_bool(z3.If(ce, _zb(a), _zb(b)))
        return a if bool(c) else b  # fork
    return a if c else b


def smin(*xs):
    if len(xs) == 1:
        xs = tuple(xs[0])
    r = xs[0]
    for x in xs[1:]:
        r = ite(x < r, x, r)
    return r


def smax(*xs):
    if len(xs) == 1:
        xs = tuple(xs[0])
    r = xs[0]
    for x in xs[1:]:
        r = ite(x > r, x, r)
    return r


def truth(v) -> bool:
    """Python truthiness; forks on symbolic values."""
    if isinstance(v, (SBool, SInt)):
        return bool(v)
    t = getattr(v, '_sym_truth', None)
    if t is not None:
        return t()
    return bool(v)


def eq(a, b):
    """Deep equality returning bool/SBool without forking (tuples compared pointwise)."""
    if isinstance(a, tuple) and isinstance(b, tuple):
        if len(a) != len(b):
            return False
        return and_(*[eq(x, y) for x, y in zip(a, b)]) if a else True
    f = getattr(a, '_sym_eq', None)
    if f is not None:
        return f(b)
    f = getattr(b, '_sym_eq', None)
    if f is not None:
        return f(a)
    r = (a == b)
    return r


def lex_lt(a, b):
    """Lexicographic a < b for equal-length tuples of ints, non-forking."""
    assert len(a) == len(b)
    if not a:
        return False
    return or_(a[0] < b[0], and_(eq(a[0], b[0]), lex_lt(a[1:], b[1:])))


def lex_le(a, b):
    return or_(lex_lt(a, b), eq(a, b))
