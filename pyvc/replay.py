"""./check Cxx --replay FILE : re-run a recorded counterexample against the real code of the current tree."""
import json
import sys

from . import native


def main(prop, path):
    with open(path) as f:
        rep = json.load(f)
    print(json.dumps({k: rep.get(k) for k in ('property', 'obligation', 'function', 'model', 'info', 'key', 'what')},
                     indent=1, default=str))
    nat = rep.get('native_entry')
    if nat:
        res = native.run(nat[0], nat[1], rep.get('native_payload', {'model': rep.get('model'), 'info': rep.get('info')}),
                         timeout=600)
        print(json.dumps(res, indent=1, default=str))
        if res.get('reproduced'):
            print(f'VIOLATION property={prop} replay={path}')
            return 1
        print('not reproduced on the current tree')
        return 0
    print('replay file carries the verifier output only (no native entry); re-run ./check', prop)
    return 2
