"""Entry point under /venv/bin/python: native_main.py <contracts module> <function>; JSON payload on stdin."""
import importlib
import json
import sys


def main():
    module, fn = sys.argv[1], sys.argv[2]
    payload = json.loads(sys.stdin.read() or '{}')
    m = importlib.import_module('contracts.' + module)
    res = getattr(m, fn)(payload)
    sys.stdout.write('\n@@RESULT@@' + json.dumps(res, default=str))


if __name__ == '__main__':
    main()
