"""pyvc.values - strings (ropes), lists (piecewise, symbolic length), ranges and dicts for the symbolic executor.

Strings are ropes over opaque base strings.  A base string family `StrBase` is three uninterpreted functions
LEN(i), CH(i, k), BP(i, k) (length, code point at k, UTF-8 byte length of the prefix of length k) indexed by an integer
`i` (the index in the list the string lives in; 0 for a stand-alone string).  Equality of ropes is decided pointwise:
equal length and equal character at a fresh (skolem) index.  The byte measure is additive over concatenation with the
axioms  BP(i,0)=0,  k1<=k2 -> k2-k1 <= BP(i,k2)-BP(i,k1) <= 4*(k2-k1)  instantiated for every pair of applications.

Lists are piecewise: a sequence of segments, each either a window of an opaque base list or explicit elements.
Indexing with a symbolic index forks on the segment the index falls into; equality is decided at a skolem index.
"""
from __future__ import annotations

import z3

from . import sym
from .sym import SInt, SBool, Unsupported, truth, and_, or_, not_, eq, ite, cur, _z, _wrap_int, _wrap_bool


def _pyraise(e):
    from .interp import PyRaise
    return PyRaise(e)


# --------------------------------------------------------------------------------------------------------------------
# strings

class StrBase:
    _reg: dict = {}

    def __init__(self, name):
        self.name = name
        self.LEN = z3.Function(f'len_{name}', z3.IntSort(), z3.IntSort())
        self.CH = z3.Function(f'ch_{name}', z3.IntSort(), z3.IntSort(), z3.IntSort())
        self.BP = z3.Function(f'bp_{name}', z3.IntSort(), z3.IntSort(), z3.IntSort())

    def length(self, i):
        ctx = cur()
        key = ('len', self.name, str(_z(i)))
        e = self.LEN(_z(i))
        if key not in ctx.notes.setdefault('axioms', set()):
            ctx.notes['axioms'].add(key)
            ctx.add(e >= 0)
        return _wrap_int(e)

    def bp(self, i, k):
        """UTF-8 byte length of the first k characters of string i (0 <= k <= len assumed by callers)."""
        ctx = cur()
        iz, kz = _z(i), z3.simplify(_z(k))
        if z3.is_int_value(kz) and kz.as_long() == 0:
            return 0
        apps = ctx.notes.setdefault(('bp', self.name), [])
        e = self.BP(iz, kz)
        key = (str(iz), str(kz))
        if key not in [a[0] for a in apps]:
            ctx.add(z3.And(e >= kz, e <= 4 * kz))
            for (_, i2, k2, e2) in apps:
                same = (iz == i2)
                ctx.add(z3.Implies(z3.And(same, kz <= k2), z3.And(e2 - e >= k2 - kz, e2 - e <= 4 * (k2 - kz))))
                ctx.add(z3.Implies(z3.And(same, k2 <= kz), z3.And(e - e2 >= kz - k2, e - e2 <= 4 * (kz - k2))))
            apps.append((key, iz, kz, e))
        return _wrap_int(e)

    def whole(self, i=0):
        return SStr([Sub(self, i, 0, self.length(i))])


class Sub:
    __slots__ = ('base', 'i', 'lo', 'hi')

    def __init__(self, base, i, lo, hi):
        self.base, self.i, self.lo, self.hi = base, i, lo, hi

    def length(self):
        return self.hi - self.lo

    def blen(self):
        return self.base.bp(self.i, self.hi) - self.base.bp(self.i, self.lo)

    def ch(self, k):  # z3 term, k relative to atom
        return self.base.CH(_z(self.i), _z(self.lo) + k)

    def slice(self, a, b):  # relative, 0<=a<=b<=len
        return Sub(self.base, self.i, self.lo + a, self.lo + b)

    def __repr__(self):
        return f'{self.base.name}[{self.i}][{self.lo}:{self.hi}]'


class Lit:
    __slots__ = ('s',)

    def __init__(self, s):
        self.s = s

    def length(self):
        return len(self.s)

    def blen(self):
        return len(self.s.encode())

    def ch(self, k):
        e = z3.IntVal(-1)
        for j in range(len(self.s) - 1, -1, -1):
            e = z3.If(k == j, z3.IntVal(ord(self.s[j])), e)
        return e

    def slice(self, a, b):
        if isinstance(a, (SInt, SBool)) or isinstance(b, (SInt, SBool)):
            for x in range(len(self.s) + 1):
                if truth(eq(a, x)):
                    a = x
                    break
            for x in range(len(self.s) + 1):
                if truth(eq(b, x)):
                    b = x
                    break
        return Lit(self.s[a:b])

    def __repr__(self):
        return repr(self.s)


class SStr:
    """Rope. Immutable."""

    def __init__(self, atoms):
        out = []
        for a in atoms:
            if isinstance(a, Lit):
                if not a.s:
                    continue
                if out and isinstance(out[-1], Lit):
                    out[-1] = Lit(out[-1].s + a.s)
                    continue
            elif isinstance(a, Sub):
                ln = a.length()
                if isinstance(ln, int) and ln == 0:
                    continue
            out.append(a)
        self.atoms = out

    def __repr__(self):
        return 'SStr(' + ' + '.join(map(repr, self.atoms)) + ')'

    def _sym_len(self):
        n = 0
        for a in self.atoms:
            n = n + a.length()
        return n

    def blen(self):
        n = 0
        for a in self.atoms:
            n = n + a.blen()
        return n

    def _sym_truth(self):
        return truth(self._sym_len() != 0)

    def char_at(self, k):
        """z3 term: code point at absolute index k (a z3 Int term), -1 outside."""
        e = z3.IntVal(-1)
        offs = []
        c = 0
        for a in self.atoms:
            offs.append(c)
            c = c + a.length()
        for a, o in reversed(list(zip(self.atoms, offs))):
            oz = _z(o)
            e = z3.If(z3.And(k >= oz, k < oz + _z(a.length())), a.ch(k - oz), e)
        return e

    def _sym_eq(self, other):
        if isinstance(other, str):
            other = SStr([Lit(other)])
        if not isinstance(other, SStr):
            return False
        l1, l2 = self._sym_len(), other._sym_len()
        k = z3.Int(cur().fresh_name('sk_ch'))
        n = _z(l1)
        # equal iff same length and no index below the length where the characters differ (k is a skolem constant:
        # the returned formula is used only in positive position of a proof obligation, i.e. negated in the query)
        body = z3.And(_z(l1) == _z(l2), z3.Implies(z3.And(k >= 0, k < n), self.char_at(k) == other.char_at(k)))
        r = _wrap_bool(body)
        if isinstance(r, SBool):
            r.pos = True
        return r

    def __add__(self, o):
        if isinstance(o, str):
            o = SStr([Lit(o)])
        if not isinstance(o, SStr):
            return NotImplemented
        return SStr(self.atoms + o.atoms)

    def __radd__(self, o):
        if isinstance(o, str):
            return SStr([Lit(o)] + self.atoms)
        return NotImplemented

    def _clamp(self, v, n, default):
        if v is None:
            return default
        if isinstance(v, (SInt, SBool)):
            return ite(v < 0, sym.smax(v + n, 0), sym.smin(v, n))
        return max(v + _concrete(n), 0) if v < 0 else (v if isinstance(n, (SInt,)) and False else _cmin(v, n))

    def _sym_getitem(self, idx):
        if not isinstance(idx, slice):
            raise Unsupported('single character indexing of rope')
        if idx.step is not None:
            raise Unsupported('rope slice step')
        n = self._sym_len()
        a = clamp_index(idx.start, n, 0)
        b = clamp_index(idx.stop, n, n)
        if truth(b < a):
            return SStr([])
        out = []
        c = 0
        for at in self.atoms:
            ln = at.length()
            end = c + ln
            # overlap of [a,b) with [c,end)
            lo = sym.smax(a, c) - c
            hi = sym.smin(b, end) - c
            if truth(lo < hi):
                out.append(at.slice(lo, hi))
            c = end
        return SStr(out)

    def encode(self):
        return SBytes(self)

    def c2b(self, k):
        """bistr.c2b: UTF-8 byte offset of character index k"""
        return self._sym_getitem(slice(None, k)).blen()

    def __getitem__(self, idx):
        return self._sym_getitem(idx)

    def split(self, sep):
        raise Unsupported('split of symbolic string')


def _concrete(n):
    if isinstance(n, (SInt, SBool)):
        raise Unsupported('needs concrete length')
    return n


def _cmin(v, n):
    return sym.smin(v, n)


def clamp_index(v, n, default):
    """Python slice-bound clamping of `v` for a sequence of length n (step 1)."""
    if v is None:
        return default
    if isinstance(v, (SInt, SBool)) or isinstance(n, (SInt, SBool)):
        return ite(v < 0, sym.smax(v + n, 0), sym.smin(v, n))
    return max(v + n, 0) if v < 0 else min(v, n)


class SBytes:
    def __init__(self, s):
        self.s = s

    def _sym_len(self):
        return self.s.blen()


def to_sstr(x):
    if isinstance(x, SStr):
        return x
    if isinstance(x, str):
        return SStr([Lit(x)])
    raise Unsupported(f'not a string: {x!r}')


def str_concat(parts):
    if all(isinstance(p, str) for p in parts):
        return ''.join(parts)
    atoms = []
    for p in parts:
        atoms.extend(to_sstr(p).atoms)
    return SStr(atoms)


def bistr(x=''):
    """`bistr(s)` is `s` as far as content goes (a str subclass with cached byte/char index maps)."""
    return x


def str_blen(x):
    if isinstance(x, str):
        return len(x.encode())
    return x.blen()


# --------------------------------------------------------------------------------------------------------------------
# ranges

class SRange:
    def __init__(self, *a):
        if len(a) == 1:
            self.lo, self.hi = 0, a[0]
        elif len(a) == 2:
            self.lo, self.hi = a
        else:
            raise Unsupported('range step')

    def _sym_len(self):
        return sym.smax(self.hi - self.lo, 0)


# --------------------------------------------------------------------------------------------------------------------
# lists

class ListBase:
    """Opaque list: LEN constant and an element factory."""

    def __init__(self, name, elem, length=None):
        self.name = name
        self.elem = elem  # callable(index sym) -> value
        self._len = length

    def length(self):
        if self._len is None:
            ctx = cur()
            v = ctx.int(f'len({self.name})')
            ctx.add(v.e >= 0)
            self._len = v
        return self._len


class Seg:
    pass


class BaseSeg(Seg):
    __slots__ = ('base', 'lo', 'hi')

    def __init__(self, base, lo, hi):
        self.base, self.lo, self.hi = base, lo, hi

    def length(self):
        return self.hi - self.lo

    def at(self, k):
        return self.base.elem(self.lo + k)

    def split(self, k):
        return BaseSeg(self.base, self.lo, self.lo + k), BaseSeg(self.base, self.lo + k, self.hi)

    def __repr__(self):
        return f'{self.base.name}[{self.lo}:{self.hi}]'


class ElemSeg(Seg):
    __slots__ = ('items',)

    def __init__(self, items):
        self.items = list(items)

    def length(self):
        return len(self.items)

    def at(self, k):
        if isinstance(k, (SInt, SBool)):
            for j in range(len(self.items)):
                if truth(eq(k, j)):
                    return self.items[j]
            raise Unsupported('index outside explicit segment')
        return self.items[k]

    def split(self, k):
        if isinstance(k, (SInt, SBool)):
            for j in range(len(self.items) + 1):
                if truth(eq(k, j)):
                    k = j
                    break
            else:
                raise Unsupported('split outside explicit segment')
        return ElemSeg(self.items[:k]), ElemSeg(self.items[k:])

    def __repr__(self):
        return repr(self.items)


class SList:
    """Mutable piecewise list (Python list semantics, aliasing by object identity)."""

    def __init__(self, segs):
        self.segs = [s for s in segs]
        self.version = 0
        self._norm()

    @classmethod
    def of_base(cls, base):
        return cls([BaseSeg(base, 0, base.length())])

    def _norm(self):
        self.version += 1
        out = []
        for s in self.segs:
            ln = s.length()
            if isinstance(ln, int) and ln == 0:
                continue
            if out and isinstance(s, ElemSeg) and isinstance(out[-1], ElemSeg):
                out[-1] = ElemSeg(out[-1].items + s.items)
                continue
            if (out and isinstance(s, BaseSeg) and isinstance(out[-1], BaseSeg) and out[-1].base is s.base
                    and _syn_eq(out[-1].hi, s.lo)):
                out[-1] = BaseSeg(s.base, out[-1].lo, s.hi)
                continue
            out.append(s)
        self.segs = out

    def __repr__(self):
        return 'SList(' + ' ++ '.join(map(repr, self.segs)) + ')'

    def copy(self):
        return SList(list(self.segs))

    def _sym_len(self):
        n = 0
        for s in self.segs:
            n = n + s.length()
        return n

    def _sym_truth(self):
        return truth(self._sym_len() != 0)

    def _split_at(self, p):
        """Return (segments before p, segments from p), forking as needed. 0 <= p <= len required."""
        before = []
        c = 0
        segs = list(self.segs)
        for j, s in enumerate(segs):
            ln = s.length()
            if truth(p <= c):
                return before, segs[j:]
            if truth(p < c + ln):
                a, b = s.split(p - c)
                return before + [a], [b] + segs[j + 1:]
            before.append(s)
            c = c + ln
        return before, []

    def _index(self, i):
        n = self._sym_len()
        if isinstance(i, (SInt, SBool)) or isinstance(n, (SInt, SBool)):
            if truth(i < 0):
                i = i + n
            if truth(or_(i < 0, i >= n)):
                raise _pyraise(IndexError('list index out of range'))
            return i
        if i < 0:
            i += n
        if not 0 <= i < n:
            raise _pyraise(IndexError('list index out of range'))
        return i

    def _sym_getitem(self, idx):
        if isinstance(idx, slice):
            if idx.step is not None:
                raise Unsupported('list slice step')
            n = self._sym_len()
            a = clamp_index(idx.start, n, 0)
            b = clamp_index(idx.stop, n, n)
            if truth(b <= a):
                return SList([])
            _, rest = self._split_at(a)
            tmp = SList(rest)
            mid, _ = tmp._split_at(b - a)
            return SList(mid)
        i = self._index(idx)
        c = 0
        for s in self.segs:
            ln = s.length()
            if truth(i < c + ln):
                return s.at(i - c)
            c = c + ln
        raise Unsupported('list index: unreachable')

    def _sym_setitem(self, idx, v):
        if isinstance(idx, slice):
            if idx.step is not None:
                raise Unsupported('list slice step')
            n = self._sym_len()
            a = clamp_index(idx.start, n, 0)
            b = clamp_index(idx.stop, n, n)
            if truth(b < a):
                b = a
            before, rest = self._split_at(a)
            _, after = SList(rest)._split_at(b - a)
            self.segs = before + as_segs(v) + after
            self._norm()
            return
        i = self._index(idx)
        before, rest = self._split_at(i)
        _, after = SList(rest)._split_at(1)
        self.segs = before + [ElemSeg([v])] + after
        self._norm()

    def __getitem__(self, idx):
        return self._sym_getitem(idx)

    def _sym_delitem(self, idx):
        if isinstance(idx, slice):
            self._sym_setitem(idx, [])
            return
        i = self._index(idx)
        before, rest = self._split_at(i)
        _, after = SList(rest)._split_at(1)
        self.segs = before + after
        self._norm()

    def __add__(self, o):
        return SList(self.segs + as_segs(o))

    def __radd__(self, o):
        return SList(as_segs(o) + self.segs)

    def append(self, v):
        self.segs.append(ElemSeg([v]))
        self._norm()

    def extend(self, it):
        self.segs.extend(as_segs(it))
        self._norm()

    def insert(self, i, v):
        n = self._sym_len()
        p = clamp_index(i, n, 0)
        before, after = self._split_at(p)
        self.segs = before + [ElemSeg([v])] + after
        self._norm()

    def _sym_eq(self, other):
        """Pointwise at a skolem index; forks on segments. Returns bool/SBool usable as a proof claim."""
        if isinstance(other, (list, tuple)):
            other = SList([ElemSeg(list(other))])
        if not isinstance(other, SList):
            return False
        l1, l2 = self._sym_len(), other._sym_len()
        same_len = eq(l1, l2)
        if same_len is False:
            return False
        ctx = cur()
        k = ctx.int(ctx.fresh_name('sk_idx'))
        inrange = and_(k >= 0, k < l1, k < l2)
        if not truth(inrange):  # fork: the skolem index may be out of range -> only the lengths matter
            return same_len
        a = self._sym_getitem(k)
        b = other._sym_getitem(k)
        r = and_(same_len, eq(a, b))
        if isinstance(r, SBool):
            r.pos = True
        return r


def _syn_eq(a, b):
    if isinstance(a, (SInt, SBool)) or isinstance(b, (SInt, SBool)):
        return z3.is_true(z3.simplify(_z(a) == _z(b)))
    return a == b


def as_segs(v):
    if isinstance(v, SList):
        return list(v.segs)
    if isinstance(v, (list, tuple)):
        return [ElemSeg(list(v))] if v else []
    if isinstance(v, MapIdentity):
        return as_segs(v.inner)
    raise Unsupported(f'cannot use {v!r} as a list')


class MapIdentity:
    """`map(f, xs)` where f is content-identity (bistr)."""

    def __init__(self, inner):
        self.inner = inner


def b_map(f, xs):
    if f is bistr:
        return MapIdentity(xs)
    if isinstance(xs, (list, tuple)):
        return [f(x) for x in xs]
    raise Unsupported('map over symbolic list')


def str_list(name):
    """An opaque list of opaque strings (source lines)."""
    sb = StrBase(name)
    lb = ListBase(name, lambda i: sb.whole(i))
    lb.strbase = sb
    return lb
