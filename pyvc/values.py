"""pyvc.values - strings (ropes), lists (piecewise, symbolic length), ranges and dicts for the symbolic executor.

Strings are ropes over opaque base strings.  A base string family `StrBase` is three uninterpreted functions
LEN(i), CH(i, k), BP(i, k) (length, code point at k, UTF-8 byte length of the prefix of length k) indexed by an integer
`i` (the index in the list the string lives in; 0 for a stand-alone string).  Equality of ropes is decided pointwise:
equal length and equal character at a fresh (skolem) index.  The byte measure is additive over concatenation with the
axioms  BP(i,0)=0,  k1<=k2 -> k2-k1 <= BP(i,k2)-BP(i,k1) <= 4*(k2-k1)  instantiated for every pair of applications.

Lists are piecewise: a sequence of segments, each either a window of an opaque base list or explicit elements.
Indexing with a symbolic index forks on the segment the index falls into; equality is decided at a skolem index.
"""
from __future__ import annotations

import z3

from . import sym
from .sym import SInt, SBool, Unsupported, truth, and_, or_, not_, eq, ite, cur, _z, _wrap_int, _wrap_bool


def _pyraise(e):
    from .interp import PyRaise
    return PyRaise(e)


# --------------------------------------------------------------------------------------------------------------------
# strings

class StrBase:
    _reg: dict = {}

    def __init__(self, name):
        self.name = name
        self.LEN = z3.Function(f'len_{name}', z3.IntSort(), z3.IntSort())
        self.CH = z3.Function(f'ch_{name}', z3.IntSort(), z3.IntSort(), z3.IntSort())
        self.BP = z3.Function(f'bp_{name}', z3.IntSort(), z3.IntSort(), z3.IntSort())

    def length(self, i):
        ctx = cur()
        key = ('len', self.name, str(_z(i)))
        e = self.LEN(_z(i))
        if key not in ctx.notes.setdefault('axioms', set()):
            ctx.notes['axioms'].add(key)
            ctx.add(e >= 0)
        return _wrap_int(e)

    def bp(self, i, k):
        """UTF-8 byte length of the first k characters of string i (0 <= k <= len assumed by callers)."""
        ctx = cur()
        iz, kz = _z(i), z3.simplify(_z(k))
        if z3.is_int_value(kz) and kz.as_long() == 0:
            return 0
        apps = ctx.notes.setdefault(('bp', self.name), [])
        e = self.BP(iz, kz)
        key = (str(iz), str(kz))
        if key not in [a[0] for a in apps]:
            ctx.add(z3.And(e >= kz, e <= 4 * kz))
            for (_, i2, k2, e2) in apps:
                same = (iz == i2)
                ctx.add(z3.Implies(z3.And(same, kz <= k2), z3.And(e2 - e >= k2 - kz, e2 - e <= 4 * (k2 - kz))))
                ctx.add(z3.Implies(z3.And(same, k2 <= kz), z3.And(e - e2 >= kz - k2, e - e2 <= 4 * (kz - k2))))
            apps.append((key, iz, kz, e))
        return _wrap_int(e)

    def whole(self, i=0):
        return SStr([Sub(self, i, 0, self.length(i))])


class Sub:
    __slots__ = ('base', 'i', 'lo', 'hi')

    def __init__(self, base, i, lo, hi):
        self.base, self.i, self.lo, self.hi = base, i, lo, hi

    def length(self):
        return self.hi - self.lo

    def blen(self):
        return self.base.bp(self.i, self.hi) - self.base.bp(self.i, self.lo)

    def ch(self, k):  # z3 term, k relative to atom
        return self.base.CH(_z(self.i), _z(self.lo) + k)

    def slice(self, a, b):  # relative, 0<=a<=b<=len
        return Sub(self.base, self.i, self.lo + a, self.lo + b)

    def __repr__(self):
        return f'{self.base.name}[{self.i}][{self.lo}:{self.hi}]'


class Lit:
    __slots__ = ('s',)

    def __init__(self, s):
        self.s = s

    def length(self):
        return len(self.s)

    def blen(self):
        return len(self.s.encode())

    def ch(self, k):
        e = z3.IntVal(-1)
        for j in range(len(self.s) - 1, -1, -1):
            e = z3.If(k == j, z3.IntVal(ord(self.s[j])), e)
        return e

    def slice(self, a, b):
        if isinstance(a, (SInt, SBool)) or isinstance(b, (SInt, SBool)):
            for x in range(len(self.s) + 1):
                if truth(eq(a, x)):
                    a = x
                    break
            for x in range(len(self.s) + 1):
                if truth(eq(b, x)):
                    b = x
                    break
        return Lit(self.s[a:b])

    def __repr__(self):
        return repr(self.s)


class SStr:
    """Rope. Immutable."""

    def __init__(self, atoms):
        out = []
        for a in atoms:
            if isinstance(a, Lit):
                if not a.s:
                    continue
                if out and isinstance(out[-1], Lit):
                    out[-1] = Lit(out[-1].s + a.s)
                    continue
            elif isinstance(a, Sub):
                ln = a.length()
                if isinstance(ln, int) and ln == 0:
                    continue
            out.append(a)
        self.atoms = out

    def __repr__(self):
        return 'SStr(' + ' + '.join(map(repr, self.atoms)) + ')'

    def _sym_len(self):
        n = 0
        for a in self.atoms:
            n = n + a.length()
        return n

    def blen(self):
        n = 0
        for a in self.atoms:
            n = n + a.blen()
        return n

    def _sym_truth(self):
        return truth(self._sym_len() != 0)

    def char_at(self, k):
        """z3 term: code point at absolute index k (a z3 Int term), -1 outside."""
        e = z3.IntVal(-1)
        offs = []
        c = 0
        for a in self.atoms:
            offs.append(c)
            c = c + a.length()
        for a, o in reversed(list(zip(self.atoms, offs))):
            oz = _z(o)
            e = z3.If(z3.And(k >= oz, k < oz + _z(a.length())), a.ch(k - oz), e)
        return e

    def _sym_eq(self, other):
        if isinstance(other, str):
            other = SStr([Lit(other)])
        if not isinstance(other, SStr):
            return False
        l1, l2 = self._sym_len(), other._sym_len()
        k = z3.Int(cur().fresh_name('sk_ch'))
        n = _z(l1)
        # equal iff same length and no index below the length where the characters differ (k is a skolem constant:
        # the returned formula is used only in positive position of a proof obligation, i.e. negated in the query)
        body = z3.And(_z(l1) == _z(l2), z3.Implies(z3.And(k >= 0, k < n), self.char_at(k) == other.char_at(k)))
        r = _wrap_bool(body)
        if isinstance(r, SBool):
            r.pos = True
        return r

    def __add__(self, o):
        if isinstance(o, str):
            o = SStr([Lit(o)])
        if not isinstance(o, SStr):
            return NotImplemented
        return SStr(self.atoms + o.atoms)

    def __radd__(self, o):
        if isinstance(o, str):
            return SStr([Lit(o)] + self.atoms)
        return NotImplemented

    def _clamp(self, v, n, default):
        if v is None:
            return default
        if isinstance(v, (SInt, SBool)):
            return ite(v < 0, sym.smax(v + n, 0), sym.smin(v, n))
        return max(v + _concrete(n), 0) if v < 0 else (v if isinstance(n, (SInt,)) and False else _cmin(v, n))

    def _sym_getitem(self, idx):
        if not isinstance(idx, slice):
            raise Unsupported('single character indexing of rope')
        if idx.step is not None:
            raise Unsupported('rope slice step')
        n = self._sym_len()
        a = clamp_index(idx.start, n, 0)
        b = clamp_index(idx.stop, n, n)
        if truth(b < a):
            return SStr([])
        out = []
        c = 0
        for at in self.atoms:
            ln = at.length()
            end = c + ln
            # overlap of [a,b) with [c,end)
            lo = sym.smax(a, c) - c
            hi = sym.smin(b, end) - c
            if truth(lo < hi):
                out.append(at.slice(lo, hi))
            c = end
        return SStr(out)

    def encode(self):
        return SBytes(self)

    def c2b(self, k):
        """bistr.c2b: UTF-8 byte offset of character index k"""
        return self._sym_getitem(slice(None, k)).blen()

    def __getitem__(self, idx):
        return self._sym_getitem(idx)

    def split(self, sep):
        raise Unsupported('split of symbolic string')


def _concrete(n):
    if isinstance(n, (SInt, SBool)):
        raise Unsupported('needs concrete length')
    return n


def _cmin(v, n):
    return sym.smin(v, n)


def clamp_index(v, n, default):
    """Python slice-bound clamping of `v` for a sequence of length n (step 1)."""
    if v is None:
        return default
    if isinstance(v, (SInt, SBool)) or isinstance(n, (SInt, SBool)):
        return ite(v < 0, sym.smax(v + n, 0), sym.smin(v, n))
    return max(v + n, 0) if v < 0 else min(v, n)


class SBytes:
    def __init__(self, s):
        self.s = s

    def _sym_len(self):
        return self.s.blen()


def to_sstr(x):
    if isinstance(x, SStr):
        return x
    if isinstance(x, str):
        return SStr([Lit(x)])
    raise Unsupported(f'not a string: {x!r}')


def str_concat(parts):
    if all(isinstance(p, str) for p in parts):
        return ''.join(parts)
    atoms = []
    for p in parts:
        atoms.extend(to_sstr(p).atoms)
    return SStr(atoms)


def bistr(x=''):
    """`bistr(s)` is `s` as far as content goes (a str subclass with cached byte/char index maps)."""
    return x


def str_blen(x):
    if isinstance(x, str):
        return len(x.encode())
    return x.blen()


# --------------------------------------------------------------------------------------------------------------------
# ranges

class SRange:
    def __init__(self, *a):
        if len(a) == 1:
            self.lo, self.hi = 0, a[0]
        elif len(a) == 2:
            self.lo, self.hi = a
        else:
            raise Unsupported('range step')

    def _sym_len(self):
        return sym.smax(self.hi - self.lo, 0)


# --------------------------------------------------------------------------------------------------------------------
# lists

class ListBase:
    """Opaque list: LEN constant and an element factory."""

    def __init__(self, name, elem, length=None):
        self.name = name
        self.elem = elem  # callable(index sym) -> value
        self._len = length

    def length(self):
        if self._len is None:
            ctx = cur()
            v = ctx.int(f'len({self.name})')
            ctx.add(v.e >= 0)
            self._len = v
        return self._len


class Seg:
    pass


class BaseSeg(Seg):
    __slots__ = ('base', 'lo', 'hi')

    def __init__(self, base, lo, hi):
        self.base, self.lo, self.hi = base, lo, hi

    def length(self):
        return self.hi - self.lo

    def at(self, k):
        return self.base.elem(self.lo + k)

    def split(self, k):
        return BaseSeg(self.base, self.lo, self.lo + k), BaseSeg(self.base, self.lo + k, self.hi)

    def __repr__(self):
        return f'{self.base.name}[{self.lo}:{self.hi}]'


class ElemSeg(Seg):
    __slots__ = ('items',)

    def __init__(self, items):
        self.items = list(items)

    def length(self):
        return len(self.items)

    def at(self, k):
        if isinstance(k, (SInt, SBool)):
            for j in range(len(self.items)):
                if truth(eq(k, j)):
                    return self.items[j]
            raise Unsupported('index outside explicit segment')
        return self.items[k]

    def split(self, k):
        if isinstance(k, (SInt, SBool)):
            for j in range(len(self.items) + 1):
                if truth(eq(k, j)):
                    k = j
                    break
            else:
                raise Unsupported('split outside explicit segment')
        return ElemSeg(self.items[:k]), ElemSeg(self.items[k:])

    def __repr__(self):
        return repr(self.items)


class SList:
    """Mutable piecewise list (Python list semantics, aliasing by object identity)."""

    def __init__(self, segs):
        self.segs = [s for s in segs]
        self.version = 0
        self._norm()

    @classmethod
    def of_base(cls, base):
        return cls([BaseSeg(base, 0, base.length())])

    def _norm(self):
        self.version += 1
        out = []
        for s in self.segs:
            ln = s.length()
            if isinstance(ln, int) and ln == 0:
                continue
            if out and isinstance(s, ElemSeg) and isinstance(out[-1], ElemSeg):
                out[-1] = ElemSeg(out[-1].items + s.items)
                continue
            if (out and isinstance(s, BaseSeg) and isinstance(out[-1], BaseSeg) and out[-1].base is s.base
                    and _syn_eq(out[-1].hi, s.lo)):
                out[-1] = BaseSeg(s.base, out[-1].lo, s.hi)
                continue
            out.append(s)
        self.segs = out

    def __repr__(self):
        return 'SList(' + ' ++ '.join(map(repr, self.segs)) + ')'

    def copy(self):
        return SList(list(self.segs))

    def _sym_len(self):
        n = 0
        for s in self.segs:
            n = n + s.length()
        return n

    def _sym_truth(self):
        return truth(self._sym_len() != 0)

    def _split_at(self, p):
        """Return (segments before p, segments from p), forking as needed. 0 <= p <= len required."""
        before = []
        c = 0
        segs = list(self.segs)
        for j, s in enumerate(segs):
            ln = s.length()
            if truth(p <= c):
                return before, segs[j:]
            if truth(p < c + ln):
                a, b = s.split(p - c)
                return before + [a], [b] + segs[j + 1:]
            before.append(s)
            c = c + ln
        return before, []

    def _index(self, i):
        n = self._sym_len()
        if isinstance(i, (SInt, SBool)) or isinstance(n, (SInt, SBool)):
            if truth(i < 0):
                i = i + n
            if truth(or_(i < 0, i >= n)):
                raise _pyraise(IndexError('list index out of range'))
            return i
        if i < 0:
            i += n
        if not 0 <= i < n:
            raise _pyraise(IndexError('list index out of range'))
        return i

    def _sym_getitem(self, idx):
        if isinstance(idx, slice):
            if idx.step == -1 and idx.stop is None and isinstance(idx.start, int) and idx.start < 0:
                return RevView(self, idx.start)     # xs[-k::-1]: from the k-th last element down to the first
            if idx.step is not None:
                raise Unsupported('list slice step')
            n = self._sym_len()
            a = clamp_index(idx.start, n, 0)
            b = clamp_index(idx.stop, n, n)
            if truth(b <= a):
                return SList([])
            _, rest = self._split_at(a)
            tmp = SList(rest)
            mid, _ = tmp._split_at(b - a)
            return SList(mid)
        i = self._index(idx)
        c = 0
        for s in self.segs:
            ln = s.length()
            if truth(i < c + ln):
                return s.at(i - c)
            c = c + ln
        raise Unsupported('list index: unreachable')

    def _sym_setitem(self, idx, v):
        if isinstance(idx, slice):
            if idx.step is not None:
                raise Unsupported('list slice step')
            n = self._sym_len()
            a = clamp_index(idx.start, n, 0)
            b = clamp_index(idx.stop, n, n)
            if truth(b < a):
                b = a
            before, rest = self._split_at(a)
            _, after = SList(rest)._split_at(b - a)
            self.segs = before + as_segs(v) + after
            self._norm()
            return
        i = self._index(idx)
        before, rest = self._split_at(i)
        _, after = SList(rest)._split_at(1)
        self.segs = before + [ElemSeg([v])] + after
        self._norm()

    def __getitem__(self, idx):
        return self._sym_getitem(idx)

    def _sym_delitem(self, idx):
        if isinstance(idx, slice):
            self._sym_setitem(idx, [])
            return
        i = self._index(idx)
        before, rest = self._split_at(i)
        _, after = SList(rest)._split_at(1)
        self.segs = before + after
        self._norm()

    def __add__(self, o):
        return SList(self.segs + as_segs(o))

    def __radd__(self, o):
        return SList(as_segs(o) + self.segs)

    def append(self, v):
        self.segs.append(ElemSeg([v]))
        self._norm()

    def extend(self, it):
        self.segs.extend(as_segs(it))
        self._norm()

    def pop(self, i=-1):
        v = self._sym_getitem(i)
        self._sym_delitem(i)
        return v

    def insert(self, i, v):
        n = self._sym_len()
        p = clamp_index(i, n, 0)
        before, after = self._split_at(p)
        self.segs = before + [ElemSeg([v])] + after
        self._norm()

    def _sym_eq(self, other):
        """Pointwise at a skolem index; forks on segments. Returns bool/SBool usable as a proof claim."""
        if isinstance(other, (list, tuple)):
            other = SList([ElemSeg(list(other))])
        if not isinstance(other, SList):
            return False
        l1, l2 = self._sym_len(), other._sym_len()
        same_len = eq(l1, l2)
        if same_len is False:
            return False
        ctx = cur()
        k = ctx.int(ctx.fresh_name('sk_idx'))
        inrange = and_(k >= 0, k < l1, k < l2)
        if not truth(inrange):  # fork: the skolem index may be out of range -> only the lengths matter
            return same_len
        a = self._sym_getitem(k)
        b = other._sym_getitem(k)
        r = and_(same_len, eq(a, b))
        if isinstance(r, SBool):
            r.pos = True
        return r


class RevView:
    """read-only view xs[start::-1] for a negative constant start (iteration only)"""

    def __init__(self, base, start):
        self.base, self.start = base, start
        self.n = base._sym_len()

    def _sym_len(self):
        from .sym import smax
        return smax(self.n + self.start + 1, 0)

    def _sym_truth(self):
        return truth(self._sym_len() > 0)

    def _sym_getitem(self, k):
        if isinstance(k, slice):
            raise Unsupported('slice of a reversed view')
        return self.base._sym_getitem(self.n + self.start - k)


def _syn_eq(a, b):
    if isinstance(a, (SInt, SBool)) or isinstance(b, (SInt, SBool)):
        return z3.is_true(z3.simplify(_z(a) == _z(b)))
    return a == b


def as_segs(v):
    if isinstance(v, SList):
        return list(v.segs)
    if isinstance(v, (list, tuple)):
        return [ElemSeg(list(v))] if v else []
    if isinstance(v, MapIdentity):
        return as_segs(v.inner)
    raise Unsupported(f'cannot use {v!r} as a list')


class MapIdentity:
    """`map(f, xs)` where f is content-identity (bistr)."""

    def __init__(self, inner):
        self.inner = inner


def b_map(f, xs):
    if f is bistr:
        return MapIdentity(xs)
    if isinstance(xs, (list, tuple)):
        return [f(x) for x in xs]
    raise Unsupported('map over symbolic list')


def str_list(name):
    """An opaque list of opaque strings (source lines)."""
    sb = StrBase(name)
    lb = ListBase(name, lambda i: sb.whole(i))
    lb.strbase = sb
    return lb


# --------------------------------------------------------------------------------------------------------------------
# dicts with abstract keys and values (option stores): dom: Array(Int,Bool), val: Array(Int,Int)

_KEY_IDS: dict = {}


def key_id(k):
    """concrete hashable key -> distinct integer id (>= 1000); symbolic keys are arbitrary ints"""
    if isinstance(k, (SInt,)):
        return k
    if k not in _KEY_IDS:
        _KEY_IDS[k] = 1000 + len(_KEY_IDS)
    return SInt(z3.IntVal(_KEY_IDS[k]))


class SVal:
    """Abstract value identified by an integer term (identity semantics: two values are the same iff ids equal)."""
    __slots__ = ('e',)

    def __init__(self, e):
        self.e = e

    def _sym_eq(self, o):
        if isinstance(o, SVal):
            return _wrap_bool(self.e == o.e)
        return False

    def __repr__(self):
        return f'SVal({self.e})'


def _note_write():
    n = cur().notes
    n['writes'] = n.get('writes', 0) + 1


class SDict:
    def __init__(self, name, dom=None, val=None):
        self.name = name
        self.dom = dom if dom is not None else z3.Array(f'dom_{name}', z3.IntSort(), z3.BoolSort())
        self.val = val if val is not None else z3.Array(f'val_{name}', z3.IntSort(), z3.IntSort())
        self.version = 0

    def snapshot(self):
        return SDict(self.name + "'", self.dom, self.val)

    def has(self, k):
        return _wrap_bool(z3.Select(self.dom, _z(key_id(k))))

    def value(self, k):
        return SVal(z3.simplify(z3.Select(self.val, _z(key_id(k)))))

    def _sym_contains(self, k):
        return self.has(k)

    def _sym_truth(self):
        """non-empty?  fork on a fresh boolean tied to the domain by instantiation at an arbitrary witness key"""
        ctx = cur()
        w = ctx.int(ctx.fresh_name(f'witness_{self.name}'))
        ne = ctx.bool(ctx.fresh_name(f'nonempty_{self.name}'))
        if truth(ne):
            ctx.add(z3.Select(self.dom, w.e))
            self._witness = w
            return True
        self._empty = True
        empty = z3.K(z3.IntSort(), z3.BoolVal(False))
        ctx.add(self.dom == empty)   # extensional: whatever was known about the domain must be consistent with emptiness
        self.dom = empty
        return False

    def get(self, k, default=None):
        if truth(self.has(k)):
            return self.value(k)
        return default

    def _sym_getitem(self, k):
        if truth(self.has(k)):
            return self.value(k)
        raise _pyraise(KeyError(str(k)))

    def __getitem__(self, k):
        return self._sym_getitem(k)

    def _sym_setitem(self, k, v):
        _note_write()
        self.version += 1
        kz = _z(key_id(k))
        self.dom = z3.Store(self.dom, kz, z3.BoolVal(True))
        self.val = z3.Store(self.val, kz, _valz(v))

    def _sym_delitem(self, k):
        if not truth(self.has(k)):
            raise _pyraise(KeyError(str(k)))
        _note_write()
        self.version += 1
        self.dom = z3.Store(self.dom, _z(key_id(k)), z3.BoolVal(False))

    def update(self, other=None, **kw):
        _note_write()
        self.version += 1
        if isinstance(other, SDict):
            x = z3.Int('x!upd')
            self.dom = z3.Lambda([x], z3.Or(z3.Select(self.dom, x), z3.Select(other.dom, x)))
            self.val = z3.Lambda([x], z3.If(z3.Select(other.dom, x), z3.Select(other.val, x), z3.Select(self.val, x)))
        elif isinstance(other, dict):
            for k, v in other.items():
                self._sym_setitem(k, v)
        elif other is not None:
            raise Unsupported('dict.update with this argument')
        for k, v in kw.items():
            self._sym_setitem(k, v)

    def copy(self):
        return SDict(self.name + '_copy', self.dom, self.val)

    def clear(self):
        _note_write()
        self.version += 1
        self.dom = z3.K(z3.IntSort(), z3.BoolVal(False))

    def pop(self, k, *default):
        if truth(self.has(k)):
            v = self.value(k)
            self._sym_delitem(k)
            return v
        if default:
            return default[0]
        raise _pyraise(KeyError(str(k)))

    def items(self):
        return SDictIter(self, 'items')

    def keys(self):
        return SDictIter(self, 'keys')

    def _sym_forall(self):
        return SDictIter(self, 'keys')._sym_forall()

    def known_nonempty(self):
        return getattr(self, '_witness', None) is not None

    def same_as(self, other, at=None):
        """pointwise equality claim at a skolem key"""
        ctx = cur()
        k = at if at is not None else ctx.int(ctx.fresh_name('sk_key'))
        kz = _z(k)
        r = _wrap_bool(z3.And(z3.Select(self.dom, kz) == z3.Select(other.dom, kz),
                              z3.Implies(z3.Select(self.dom, kz), z3.Select(self.val, kz) == z3.Select(other.val, kz))))
        if isinstance(r, SBool):
            r.pos = True
        return r


def _valz(v):
    if isinstance(v, SVal):
        return v.e
    if isinstance(v, (SInt, SBool, int)):
        return _z(v) + 0
    if v is None:
        return z3.IntVal(-1)
    return key_id(('val', v if isinstance(v, (str, tuple, frozenset)) else id(v))).e


class SDictIter:
    def __init__(self, d, kind):
        self.d = d
        self.kind = kind

    def _elem(self, k):
        if self.kind == 'items':
            return (k, self.d.value(k))
        return k

    def _sym_forall(self):
        """Elements the for-all rule runs the body for: every *interesting* key that is in the dict (the skolem keys
        and concrete keys a contract registered in ctx.notes['skolem_keys'] - the real loop visits those too) and
        finally one fresh arbitrary key.  Yields elements lazily so that the key being processed is known on a raise."""
        ctx = cur()
        for c in list(ctx.notes.get('skolem_keys', [])):
            if truth(self.d.has(c)):
                ck = c if isinstance(c, SInt) else key_id(c)
                ctx.notes['forall_current'] = (self.d, c)
                yield self._elem(ck)
        k = ctx.int(ctx.fresh_name(f'any_key_{self.d.name}'))
        ctx.add(z3.Select(self.d.dom, k.e))
        ctx.notes.setdefault('forall_keys', []).append((self.d, k))
        ctx.notes['forall_current'] = (self.d, k)
        yield self._elem(k)


def dict_ctor(*a, **kw):
    if a and isinstance(a[0], SDict):
        d = a[0].copy()
        for k, v in kw.items():
            d._sym_setitem(k, v)
        return d
    return dict(*a, **kw)


# --------------------------------------------------------------------------------------------------------------------
# arrays (array.array / read-only function-backed): mutable, symbolic length, content as z3 Array Int -> Int

class SArray:
    def __init__(self, name, length, arr=None, fn=None, maxval=None):
        self.name = name
        self.length = length
        self.arr = arr if arr is not None else z3.K(z3.IntSort(), z3.IntVal(0))
        self.fn = fn            # read-only content given by a Python function of the index (contract of the producer)
        self.maxval = maxval    # largest storable value (typecode); stores are proof obligations
        self.version = 0

    def _sym_len(self):
        return self.length

    def _idx(self, i):
        n = self.length
        if isinstance(i, (SInt, SBool)) or isinstance(n, (SInt, SBool)):
            if truth(i < 0):
                i = i + n
            if truth(or_(i < 0, i >= n)):
                raise _pyraise(IndexError('array index out of range'))
            return i
        if i < 0:
            i += n
        if not 0 <= i < n:
            raise _pyraise(IndexError('array index out of range'))
        return i

    def _sym_getitem(self, i):
        i = self._idx(i)
        if self.fn is not None:
            return self.fn(i)
        e = z3.Select(self.arr, _z(i))
        if self.maxval is not None:   # a fixed-width array.array can only hold values of its typecode
            cur().add(z3.And(e >= 0, e <= self.maxval))
        return _wrap_int(e)

    def __getitem__(self, i):
        return self._sym_getitem(i)

    def _sym_setitem(self, i, v):
        if self.fn is not None:
            raise Unsupported('store into a read-only (contract-backed) array')
        i = self._idx(i)
        if self.maxval is not None:
            cur().prove(f'array_range.{self.name}', and_(0 <= v, v <= self.maxval),
                        info='value stored in a fixed-width array.array must fit its typecode')
        self.version += 1
        self.arr = z3.Store(self.arr, _z(i), _z(v))

    def havoc(self, tag):
        self.arr = z3.Array(cur().fresh_name(f'{tag}.{self.name}'), z3.IntSort(), z3.IntSort())


class SZeroBytes:
    """b'\\x00' * n  (only what array.array(typecode, <zero bytes>) needs)"""

    def __init__(self, unit, count):
        self.unit, self.count = unit, count

    def __mul__(self, n):
        return SZeroBytes(self.unit, self.count * n if isinstance(self.count, int) and self.count == 1 else
                          (n if self.count == 1 else None))

    __rmul__ = __mul__


def zero_bytes_mul(b, n):
    if isinstance(b, bytes) and set(b) <= {0}:
        return SZeroBytes(len(b), n)
    raise Unsupported('bytes multiplication')


TYPECODE_SIZE = {'B': 1, 'H': 2, 'I': 4, 'Q': 8}


def b_array(typecode, init):
    if typecode not in TYPECODE_SIZE:
        raise Unsupported(f'array typecode {typecode!r}')
    size = TYPECODE_SIZE[typecode]
    if isinstance(init, SZeroBytes):
        if init.unit != size:
            raise _pyraise(ValueError('bytes length not a multiple of item size'))
        return SArray(f'array_{typecode}', init.count, maxval=2 ** (8 * size) - 1)
    raise Unsupported('array() initialiser')
