"""pyvc.report - collects obligations / bounded results of one check run, applies the verdict rules of DESIGN §1.1,
writes evidence/<id>.json and replay files, prints VIOLATION / KNOWN-FINDING / UNDECIDED / CHECKER-ERROR lines."""
from __future__ import annotations

import json
import os
import re
import sys
import time

from . import sym

VERIF = os.path.dirname(os.path.dirname(os.path.abspath(__file__)))
OUT = os.environ.get('PYVC_OUTDIR') or VERIF   # evidence/ and replays/ go here (scratch dir for runs on patched copies)

GLOBAL_ASSUMPTIONS = [
    'the VC generator pyvc itself (mitigated by native replay of every counter-model and the mutation self-test)',
    'z3 5.1 / cvc5 1.0.3 answer unsat correctly',
    'Python semantics assumed by the encoding: ints are mathematical (exact for Python), attribute access on AST/FST '
    'objects runs no user code, dict iteration is insertion ordered, threading.local/contextmanager/array/str.split/'
    'str.join behave as documented',
    'rope axioms for strings: len/UTF-8 byte measures additive over concatenation, 1..4 bytes per character',
    'termination is not proved for any function (partial correctness)',
]


def load_known_findings():
    p = os.path.join(VERIF, 'known_findings.json')
    if not os.path.exists(p):
        return []
    with open(p) as f:
        return json.load(f).get('findings', [])


def _scan_assumes():
    """mechanical scan (every report): each `assume(` / solver `add(` in the contract modules this run loaded - these are
    preconditions, spec axioms and assumed callee contracts, never proof steps"""
    import sys
    out = []
    for name, mod in sorted(sys.modules.items()):
        if not name.startswith('contracts.k_') or not getattr(mod, '__file__', None):
            continue
        try:
            with open(mod.__file__) as f:
                for i, line in enumerate(f, 1):
                    t = line.strip()
                    if ('.assume(' in t or 'ctx.add(' in t) and not t.startswith('#'):
                        out.append({'file': os.path.relpath(mod.__file__, VERIF), 'line': i, 'text': t[:160]})
        except OSError:
            pass
    return out


class Report:
    def __init__(self, prop, tier, seed, level, checker_cmd):
        self.prop = prop
        self.tier = tier
        self.seed = seed
        self.level = level
        self.checker_cmd = checker_cmd
        self.t0 = time.time()
        self.functions = {}
        self.obligations = []          # (route, name, status, backend, detail)
        self.refuted = []              # dicts
        self.undecided_list = []
        self.errors = []
        self.covers = []
        self.bounded_sections = []
        self.trusted = []
        self.assumptions = list(GLOBAL_ASSUMPTIONS)
        self.samples = []
        self.remainder = ''
        self.violations = []           # dicts(key, what, replay, replayed)
        self.known_hits = []
        self._solver_s0 = sym.STATS.solver_s     # solver time is accumulated per process: report this property's share
        self.known_obligation_names = set()
        self.extra = {}
        self.known = [k for k in load_known_findings() if k.get('property') == prop]

    # -- deductive part ----------------------------------------------------------------------------------------
    def function(self, loc, spec):
        d = loc.describe()
        d['contract'] = getattr(spec, 'name', '')
        if getattr(spec, 'notes', ''):
            d['notes'] = spec.notes
        self.functions[loc.ident + '#' + d['contract']] = d

    def obligation(self, spec, ob):
        self.obligations.append(('smt', ob.name, ob.status, ob.backend))
        if len(self.samples) < 6 and ob.status == 'discharged' and ob.ms > 0:
            self.samples.append({'obligation': ob.name, 'route': 'smt', 'backend': ob.backend, 'status': ob.status,
                                 'path_decisions': len(ob.path or ()), 'info': ob.info})
        if ob.status == 'refuted':
            self.refuted.append({'spec': spec, 'ob': ob})
        elif ob.status == 'unknown':
            self.undecided(ob.name, ob.reason)

    def other(self, route, name, ok, detail=None, key=None, replay=None):
        """Obligation decided by a non-SMT route ('finite' or 'structural'). `replay` (dict) is written on failure."""
        self.obligations.append((route, name, 'discharged' if ok else 'refuted', route))
        sym.STATS.by_backend[route] = sym.STATS.by_backend.get(route, 0) + (1 if ok else 0)
        if ok:
            if len([s for s in self.samples if s.get('route') == route]) < 3:
                self.samples.append({'obligation': name, 'route': route, 'status': 'discharged', 'detail': detail})
        else:
            self.violation(key or name, f'obligation {name} fails: {detail}', replay or {'obligation': name,
                           'route': route, 'detail': detail}, replayed=bool(replay and replay.get('replayed')))

    def undecided(self, name, reason):
        self.undecided_list.append({'obligation': name, 'reason': reason})

    def checker_error(self, msg):
        self.errors.append(msg)

    def cover(self, name, paths, normal, raised):
        self.covers.append({'unit': name, 'paths': paths, 'normal_returns': normal, 'raises': raised})
        if paths == 0 or normal + raised == 0:
            self.checker_error(f'{name}: no feasible path reaches an outcome (contradictory requires?)')

    # -- violations -----------------------------------------------------------------------------------------------
    @staticmethod
    def _matches(k, key):
        if k.get('keys'):
            return key in k['keys']
        if k.get('key_re'):
            return re.search(k['key_re'], key) is not None
        return bool(k.get('key')) and key.startswith(k['key'])

    def violation(self, key, what, replay, replayed=True):
        for k in self.known:
            if k.get('status') == 'known' and self._matches(k, key):
                self.known_hits.append((k, what))
                self.known_obligation_names.add(key)
                return
        self.violations.append({'key': key, 'what': what, 'replay': replay, 'replayed': replayed})

    def known_finding_observed(self, key, what):
        for k in self.known:
            if k.get('status') == 'known' and self._matches(k, key):
                self.known_hits.append((k, what))
                return True
        return False

    # -- bounded part ---------------------------------------------------------------------------------------------
    def bounded(self, section):
        """section: dict(name, scope, evaluations, distinct_nontrivial, rule, samples, exhaustive, failures[])"""
        self.bounded_sections.append(section)
        for f in section.get('failures', []):
            rep = dict(f)
            rep.pop('_known', None)
            f.pop('_known', None)
            if section.get('native_entry'):
                rep['native_entry'] = section['native_entry']
                rep['native_payload'] = {'replay': f}
            self.violation(f['key'], f['what'], rep, replayed=True)
        for e in section.get('harness_errors', [])[:5]:
            self.checker_error('bounded harness: ' + e[:600])

    # -- finish ---------------------------------------------------------------------------------------------------
    def _replay_path(self, key):
        safe = re.sub(r'[^A-Za-z0-9_.\-]+', '_', key)[:120]
        d = os.path.join(OUT, 'replays')
        os.makedirs(d, exist_ok=True)
        return os.path.join(d, f'{self.prop}-{safe}.json')

    def finish(self):
        from . import native
        # 1. refuted SMT obligations -> native replay
        seen = set()
        n_native = 0
        n_repro = 0

        def pref(r):
            f = getattr(r['spec'], 'native_pref', None)
            try:
                return f(r['ob'].info) if f else 0
            except Exception:
                return 0
        self.refuted.sort(key=pref)
        for r in self.refuted:
            ob, spec = r['ob'], r['spec']
            base = re.sub(r'\[.*$', '', ob.name)
            if (base, ob.info.get('case') if isinstance(ob.info, dict) else None) in seen and len(seen) > 40:
                continue
            seen.add((base, ob.info.get('case') if isinstance(ob.info, dict) else None))
            rep = {'property': self.prop, 'obligation': ob.name, 'function': getattr(spec, 'ident', ''),
                   'sha256': spec.located.sha256 if getattr(spec, 'located', None) else None,
                   'model': ob.model, 'info': ob.info, 'verifier_output': 'z3: sat (counter-model above)',
                   'replayed': False, 'native_entry': getattr(spec, 'native', None)}
            nat = getattr(spec, 'native', None)
            is_known = any(k.get('status') == 'known' and self._matches(k, ob.name) for k in self.known)
            if nat and n_native < 24 and n_repro < 4 and not is_known:
                n_native += 1
                try:
                    res = native.replay(nat, ob.model, dict(ob.info or {}, obligation=ob.name))
                    rep['native'] = res
                    rep['replayed'] = bool(res.get('reproduced'))
                    n_repro += rep['replayed']
                except Exception as e:  # replay infrastructure failure is not a verdict
                    rep['native'] = {'error': repr(e)}
            self.violation(ob.name, f'obligation {ob.name} refuted', rep, replayed=rep['replayed'])
        # 2. write replay files, print lines
        lines = []
        nviol = 0
        # prefer replayed violations first; cap the number of lines
        self.violations.sort(key=lambda v: not v['replayed'])
        uniq, seen_keys = [], set()
        for v in self.violations:  # one replay file / line per obligation key (the replayed instance if any)
            if v['key'] not in seen_keys:
                seen_keys.add(v['key'])
                uniq.append(v)
        for v in uniq[:25]:
            p = self._replay_path(v['key'])
            with open(p, 'w') as f:
                json.dump(v['replay'], f, indent=1, default=str)
            tail = '' if v['replayed'] else ' no-failing-input-found'
            lines.append(f'VIOLATION property={self.prop} replay={p}{tail}')
            nviol += 1
        nviol = len(self.violations)
        shown = set()
        for k, what in self.known_hits:
            kid = k.get('id') or k.get('key') or k.get('key_re')
            if kid in shown:
                continue
            shown.add(kid)
            lines.append(f'KNOWN-FINDING: property={self.prop} {k.get("what", what)}')
        for u in self.undecided_list[:20]:
            lines.append(f'UNDECIDED property={self.prop} obligation={u["obligation"]} reason={u["reason"]}')
        for e in self.errors[:20]:
            lines.append(f'CHECKER-ERROR property={self.prop} {e}')
        # obligations that fail exactly at a listed known finding are reported as findings, not as proof obligations
        self.extra['known_finding_obligations'] = sum(1 for o in self.obligations
                                                      if o[2] == 'refuted' and o[1] in self.known_obligation_names)
        self.obligations = [o for o in self.obligations
                            if not (o[2] == 'refuted' and o[1] in self.known_obligation_names)]
        n_ob = len(self.obligations)
        n_dis = sum(1 for o in self.obligations if o[2] == 'discharged')
        if n_ob == 0 and self.level == 'proof':
            self.errors.append('zero obligations generated')
            lines.append(f'CHECKER-ERROR property={self.prop} zero obligations generated')
        if nviol:
            code = 1
        elif self.errors:
            code = 3
        elif self.undecided_list:
            code = 2
        else:
            code = 0
        self.write_evidence(n_ob, n_dis, nviol)
        for l in lines:
            print(l)
        by_route = {}
        for o in self.obligations:
            by_route[o[0]] = by_route.get(o[0], 0) + 1
        ev = sum(b.get('evaluations', 0) for b in self.bounded_sections)
        print(f'{self.prop}: obligations={n_ob} discharged={n_dis} routes={by_route} bounded_evaluations={ev} '
              f'violations={nviol} known={len(shown)} undecided={len(self.undecided_list)} '
              f'errors={len(self.errors)} wall={time.time() - self.t0:.1f}s exit={code}')
        return code

    def write_evidence(self, n_ob, n_dis, nviol):
        by_route, by_backend = {}, {}
        for route, name, status, backend in self.obligations:
            by_route[route] = by_route.get(route, 0) + 1
            if status == 'discharged':
                by_backend[backend] = by_backend.get(backend, 0) + 1
        ev = sum(b.get('evaluations', 0) for b in self.bounded_sections)
        dn = sum(b.get('distinct_nontrivial', 0) for b in self.bounded_sections)
        bsamples = []
        for b in self.bounded_sections:
            bsamples.extend(b.get('samples', [])[:3])
        names = {}
        for route, name, status, backend in self.obligations:
            base = re.sub(r'\[.*$', '', name)
            names[base] = names.get(base, 0) + 1
        cov = {
            'obligations': n_ob, 'discharged': n_dis, 'checker_cmd': self.checker_cmd,
            'trusted_base': self.trusted,
            'functions_under_contract': list(self.functions.values()),
            'obligations_by_name': names,
            'by_route': by_route, 'by_backend': by_backend, 'solver_s': round(sym.STATS.solver_s - self._solver_s0, 2),
            'solver_checks': sym.STATS.checks, 'paths': sym.STATS.paths, 'covers': self.covers[:60],
            'undecided': self.undecided_list, 'checker_errors': self.errors,
            'bounded': [{k: v for k, v in b.items() if k not in ('failures',)} for b in self.bounded_sections],
            'evaluations': ev, 'distinct_nontrivial': dn,
            'rule': ' | '.join(f"{b['name']}: {b.get('rule', '')}" for b in self.bounded_sections),
            'samples': (self.samples + bsamples) or [{'note': 'no sample recorded'}],
            'undecided_remainder': self.remainder,
            'known_findings_observed': sorted({k.get('id') or k.get('key') or k.get('key_re') for k, _ in self.known_hits}),
            'exhaustive': all(b.get('exhaustive', False) for b in self.bounded_sections) if self.bounded_sections
            else False,
        }
        cov.update(self.extra)
        cov['assume_sites'] = _scan_assumes()
        doc = {'property_id': self.prop, 'tier': self.tier, 'seed': self.seed, 'level': self.level, 'coverage': cov,
               'assumptions': self.assumptions, 'wall_s': round(time.time() - self.t0, 2), 'violations': nviol}
        d = os.path.join(OUT, 'evidence')
        os.makedirs(d, exist_ok=True)
        with open(os.path.join(d, f'{self.prop}.json'), 'w') as f:
            json.dump(doc, f, indent=1, default=str)
