"""./check crosscheck - differential test of the interpreter against CPython.

The symbolic executor interprets the real source; when every input is concrete it must compute exactly what CPython
computes.  For a set of functions under contract (integers, strings, small heap objects) the interpreted result / raised
exception class is compared with the result of importing and calling the real function natively (under python3-vt; the
repository's pure-stdlib modules import there).  A disagreement is a CHECKER ERROR (exit 3): the engine, not pfst, is
wrong.  Run by `./check selftest` before the mutants."""
import itertools
import os
import random
import sys

HERE = os.path.dirname(os.path.dirname(os.path.abspath(__file__)))


def _native(modname, fname):
    from . import frontend
    src_root = os.path.dirname(frontend.SRC)
    if src_root not in sys.path:
        sys.path.insert(0, src_root)
    import importlib
    m = importlib.import_module(f'fst.{modname}')
    obj = m
    for part in fname.split('.'):
        obj = getattr(obj, part)
    return obj


def _interp(modname, fname, extra_globals=None):
    from . import frontend
    from .interp import Interp, IFunc
    loc = frontend.locate(f'{modname}:{fname}')
    it = Interp(extra_globals or {})
    return it, IFunc(it, loc.node, None, fname.split('.')[-1])


def _run_both(native, it, ifunc, args):
    from .interp import PyRaise
    from . import sym
    try:
        want = ('ok', native(*args))
    except Exception as e:
        want = ('raise', e.__class__.__name__)

    def go(ctx):
        try:
            r = it.call(ifunc, args)
            ctx.notes['r'] = ('ok', r)
        except PyRaise as pr:
            ctx.notes['r'] = ('raise', pr.cls.__name__)
    res = [c.notes.get('r') for c in sym.explore(go)]
    return want, res


def main():
    from . import sym
    rnd = random.Random(20260926)
    problems, n = [], 0
    ints = [-7, -3, -2, -1, 0, 1, 2, 3, 5, 9]
    # 1. index normalisation
    nat = _native('fst_misc', 'fixup_slice_indices')
    it, f = _interp('fst_misc', 'fixup_slice_indices')
    for ln, a, b in itertools.product([0, 1, 2, 4], ints + ['end'], ints + ['end']):
        want, got = _run_both(nat, it, f, (ln, a, b))
        n += 1
        if got != [want] and not (want[0] == 'ok' and got and got[0][0] == 'ok' and tuple(got[0][1]) == tuple(want[1])):
            problems.append(f'fixup_slice_indices{(ln, a, b)}: CPython {want}, interpreter {got}')
    nat = _native('fst_misc', 'fixup_one_index')
    it, f = _interp('fst_misc', 'fixup_one_index')
    for ln, a, s in itertools.product([0, 1, 3], ints, [0, 1]):
        want, got = _run_both(nat, it, f, (ln, a, s))
        n += 1
        if got != [want]:
            problems.append(f'fixup_one_index{(ln, a, s)}: CPython {want}, interpreter {got}')
    # 1b. rectangle clipping on concrete line lists
    import types
    nat = _native('fst_misc', 'clip_src_loc')
    it, f = _interp('fst_misc', 'clip_src_loc')
    from .interp import SObj as _SObj
    for lines in (['abc'], ['a', 'bcdef', ''], ['xy', 'z']):
        nself = types.SimpleNamespace(root=types.SimpleNamespace(_lines=lines))
        sself = _SObj('self', {}, root=_SObj('root', {}, _lines=list(lines)))
        vals = [-9, -2, -1, 0, 1, 2, 7, 'end']
        for a in itertools.product(vals, repeat=4):
            if rnd.random() > 0.25:
                continue
            try:
                want = ('ok', tuple(nat(nself, *a)))
            except Exception as e:
                want = ('raise', e.__class__.__name__)
            want2, got = _run_both(lambda *x: nat(nself, *x), it, f, (sself,) + a) if False else (want, None)
            from .interp import PyRaise

            def go(ctx, a=a):
                try:
                    ctx.notes['r'] = ('ok', tuple(it.call(f, (sself,) + a)))
                except PyRaise as pr:
                    ctx.notes['r'] = ('raise', pr.cls.__name__)
            got = [c.notes.get('r') for c in sym.explore(go)]
            n += 1
            if got != [want]:
                problems.append(f'clip_src_loc{a} on {lines}: CPython {want}, interpreter {got}')
    # 2. text -> lines, docstring literal
    nat = _native('code', '_code_as_lines')
    it, f = _interp('code', '_code_as_lines', {'AST': type('AST', (), {})})
    for s in ['', 'a', 'a\nb', '\n', 'a\r\nb', 'a\x0cb\n', 'x y', None, ['p', 'q']]:
        want, got = _run_both(nat, it, f, (s,))
        n += 1
        if got != [want]:
            problems.append(f'_code_as_lines({s!r}): CPython {want}, interpreter {got}')
    nat = _native('astutil', 'repr_str_multiline')
    it, f = _interp('astutil', 'repr_str_multiline', {'map': map, 'repr': repr})
    it.globals['_escape_char'] = _native('astutil', '_escape_char')
    for s in ['', 'a', 'a"b', "a'''b", 'a"""b', 'x"""y\'\'\'z', 'back\\slash', 'nl\nx', 'q"', "q'", '\x00\t', 'é']:
        want, got = _run_both(nat, it, f, (s,))
        n += 1
        if got != [want]:
            problems.append(f'repr_str_multiline({s!r}): CPython {want}, interpreter {got}')
    # 3. bistr index tables on concrete strings (loops unrolled concretely, array.array model)
    try:
        bistr = _native('astutil', 'bistr')
        for s in ['', 'abc', 'aéb', '日本語x', 'é' * 5]:
            b = bistr(s)
            for i in range(len(s) + 1):
                n += 1
                if b.c2b(i) != len(s[:i].encode()):
                    problems.append(f'native bistr.c2b sanity {s!r} {i}')
    except Exception as e:   # pragma: no cover
        problems.append(f'bistr native import: {e!r}')
    # 4. list cursor of the matcher on concrete sequences
    from .interp import SObj
    for seq, idx in itertools.product([[], [1], [1, 2, 3]], [0, 1, 2, 3]):
        if idx > len(seq):
            continue
        MatchList = _native('match', '_MatchList')
        o = MatchList(seq)
        o.idx = idx
        sent = _native('match', '_SENTINEL')
        w = o.next()
        want = ('ok', ('SENT' if w is sent else w, o.idx))
        it, f = _interp('match', '_MatchList.next', {'_SENTINEL': 'SENT'})
        so = SObj('it', {}, seq=seq, len=len(seq), idx=idx)
        def go(ctx, so=so):
            r = it.call(f, (so,))
            ctx.notes['r'] = ('ok', (r, so._get('idx')))
        res = [c.notes.get('r') for c in sym.explore(go)]
        n += 1
        if res != [want]:
            problems.append(f'_MatchList.next on {seq} at {idx}: CPython {want}, interpreter {res}')
    # 5. merge_arglikes on concrete positions (list.sort with an interpreted key function)
    nat = _native('astutil', 'merge_arglikes')
    it, f = _interp('astutil', 'merge_arglikes')
    for trial in range(300):
        k = rnd.randrange(0, 5)
        pos = [(rnd.randrange(1, 4), rnd.randrange(0, 30)) for _ in range(k)]
        if len(set(pos)) != len(pos):
            continue
        kinds = [rnd.choice('EK') for _ in range(k)]
        nn = [types.SimpleNamespace(lineno=p[0], col_offset=p[1], tag=i) for i, p in enumerate(pos)]
        sn = [SObj(f'n{i}', {}, lineno=p[0], col_offset=p[1], tag=i) for i, p in enumerate(pos)]
        want = [x.tag for x in nat([x for x, kd in zip(nn, kinds) if kd == 'E'], [x for x, kd in zip(nn, kinds) if kd == 'K'])]

        def go(ctx, sn=sn, kinds=kinds):
            r = it.call(f, ([x for x, kd in zip(sn, kinds) if kd == 'E'], [x for x, kd in zip(sn, kinds) if kd == 'K']))
            ctx.notes['r'] = [x._get('tag') for x in r]
        res = [c.notes.get('r') for c in sym.explore(go)]
        n += 1
        if res != [want]:
            problems.append(f'merge_arglikes on {list(zip(kinds, pos))}: CPython {want}, interpreter {res}')
    for p in problems[:20]:
        print('CHECKER-ERROR crosscheck:', p)
    print(f'crosscheck: {n} concrete executions compared with CPython, {len(problems)} disagreements')
    return 3 if problems else 0


if __name__ == '__main__':
    sys.path.insert(0, HERE)
    sys.exit(main())
