"""pyvc.native - run contract-side code natively under /venv/bin/python (3.12, real fst import, no z3)."""
from __future__ import annotations

import json
import os
import subprocess

from .frontend import REPO

VERIF = os.path.dirname(os.path.dirname(os.path.abspath(__file__)))
VENV_PY = os.environ.get('PFST_PY', '/venv/bin/python')


def env():
    e = dict(os.environ)
    e['PYTHONPATH'] = os.pathsep.join([os.path.join(REPO, 'src'), VERIF])
    e['PYTHONDONTWRITEBYTECODE'] = '1'
    e['PYTHONHASHSEED'] = '0'
    e['PYTHONWARNINGS'] = 'ignore'
    return e


def run(module, fn, payload, timeout=3600):
    """Call contracts.<module>.<fn>(payload) natively; returns its JSON-able result."""
    if os.environ.get('PYVC_ONLY_PROOF') and module.startswith('b_') and fn == 'main':
        return {'name': module, 'evaluations': 0, 'distinct_nontrivial': 0, 'samples': [], 'failures': [],
                'rule': 'skipped (proof-only run of ./check selftest)', 'harness_errors': []}
    p = subprocess.run([VENV_PY, os.path.join(VERIF, 'pyvc', 'native_main.py'), module, fn],
                       input=json.dumps(payload, default=str), capture_output=True, text=True, env=env(),
                       timeout=timeout, cwd=VERIF)
    if p.returncode != 0:
        raise RuntimeError(f'native {module}.{fn} failed rc={p.returncode}: {p.stderr[-2000:]}')
    out = p.stdout
    i = out.rfind('\n@@RESULT@@')
    if i < 0:
        raise RuntimeError(f'native {module}.{fn}: no result marker; stdout tail: {out[-500:]} stderr: {p.stderr[-500:]}')
    return json.loads(out[i + len('\n@@RESULT@@'):])


def replay(nat, model, info):
    module, fn = nat
    return run(module, fn, {'model': model, 'info': info, 'obligation': (info or {}).get('obligation', '')}, timeout=120)
