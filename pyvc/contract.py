"""pyvc.contract - function contracts and the verification driver (symbolic side).

A contract (`Fn`) names a real function in /repo (module:qualname), enumerates its small finite-domain parameters into
`cases`, and gives `requires`, `ensures` and `raises` as plain Python callables written with pyvc.logic helpers, so the
same text runs symbolically here and natively in replay (pyvc.native).
"""
from __future__ import annotations

import itertools
import traceback

from . import sym, frontend
from .sym import Unsupported, PathAbort, CheckerError, truth, cur, explore, Obligation
from .interp import Interp, PyRaise, IFunc

INT = 'INT'     # marker: symbolic integer parameter
BOOLS = (True, False)


class Fn:
    """Contract on a whole function, verified by interpreting its real body."""

    def __init__(self, ident, prop, name=None, params=None, cases=None, requires=None, ensures=None, raises=None,
                 raises_exact=True, env=None, loop_specs=None, build=None, call=None, frame=None, native=None,
                 notes=None, modular=None, max_paths=20000, native_pref=None):
        self.ident = ident
        self.prop = prop
        self.name = name or ident.split(':')[1]
        self.params = params or {}       # name -> INT | tuple of concrete alternatives (may include INT)
        self.cases = cases               # optional explicit list of dicts
        self.requires = requires or (lambda **a: True)
        self.ensures = ensures or {}     # label -> callable(result, **args)
        if callable(self.ensures):
            self.ensures = {'post': self.ensures}
        self.raises = raises or {}       # exception class -> callable(**args): raised exactly/only when
        self.raises_exact = raises_exact
        self.env = env or {}
        self.loop_specs = loop_specs or {}
        self.build = build               # optional callable(ctx, case) -> dict of args (overrides params)
        self.call = call                 # optional callable(interp, ifunc, args) -> result
        self.frame = frame
        self.native = native
        self.native_pref = native_pref
        self.notes = notes or ''
        self.modular = modular or {}     # global name -> stub used instead of the real callee
        self.max_paths = max_paths
        self.located = None

    # ----------------------------------------------------------------------------------------------------------
    def case_list(self):
        if self.cases is not None:
            return self.cases
        names = list(self.params)
        alts = []
        for n in names:
            p = self.params[n]
            alts.append(p if isinstance(p, tuple) else (p,))
        return [dict(zip(names, combo)) for combo in itertools.product(*alts)]

    @staticmethod
    def case_label(case):
        return ','.join(f'{k}={"int" if v == INT else repr(v)}' for k, v in case.items()
                        if not callable(v)) or 'all'

    def make_args(self, ctx, case):
        if self.build is not None:
            return self.build(ctx, case)
        args = {}
        for n, v in case.items():
            args[n] = ctx.int(n) if v == INT else v
        return args

    def interp(self):
        g = dict(self.env)
        g.update(self.modular)
        return Interp(g, self.loop_specs)

    def locate(self):
        if self.located is None:
            self.located = frontend.locate(self.ident)
        return self.located

    def units(self):
        return list(range(len(self.case_list())))

    def verify(self, report):
        self.locate()
        for u in self.units():
            apply_unit(report, self, self.run_unit(u))

    def run_unit(self, u):
        loc = self.locate()
        res = UnitResult()
        pre = f'{self.prop}.{self.name}'
        for case in [self.case_list()[u]]:
            label = self.case_label(case)
            normal = [0]
            raised = [0]

            def run(ctx, case=case, label=label):
                args = self.make_args(ctx, case)
                ctx.notes['case'] = label
                ctx.assume_ok = True
                r = self.requires(**args)
                ctx.assume(r if isinstance(r, (sym.SBool, bool)) else truth(r))
                it = self.interp()
                f = IFunc(it, loc.node, None, loc.qualname.split('.')[-1])
                try:
                    if self.call is not None:
                        result = self.call(it, f, args)
                    else:
                        result = it.call(f, (), args)
                except PyRaise as pr:
                    raised[0] += 1
                    ctx.notes['outcome'] = f'raise {pr.cls.__name__}'
                    cond_fn = None
                    for cls, c in self.raises.items():
                        if issubclass(pr.cls, cls):
                            cond_fn = c
                            break
                    if cond_fn is None:
                        ctx.prove(f'{pre}.raises.unexpected[{label}]', False,
                                  info=f'raised {pr.cls.__name__}: {pr.exc} - not allowed by the contract')
                    else:
                        ctx.prove(f'{pre}.raises.only_when.{pr.cls.__name__}[{label}]', cond_fn(**args),
                                  info=f'raised {pr.cls.__name__}')
                    if self.frame is not None:
                        self.frame(ctx, pre, label, args, None, pr)
                    return
                normal[0] += 1
                ctx.notes['outcome'] = 'return'
                if self.raises_exact:
                    for cls, c in self.raises.items():
                        ctx.prove(f'{pre}.raises.must.{cls.__name__}[{label}]', sym.not_(c(**args)),
                                  info='returned normally')
                for lab, e in self.ensures.items():
                    try:
                        claim = e(result, **args)
                    except (TypeError, AttributeError, IndexError, ValueError, KeyError) as ex:
                        ctx.prove(f'{pre}.{lab}[{label}]', False,
                                  info=f'postcondition not evaluable on result {result!r}: {ex!r}')
                        continue
                    ctx.prove(f'{pre}.{lab}[{label}]', claim, info=None)
                if self.frame is not None:
                    self.frame(ctx, pre, label, args, result, None)

            try:
                paths = explore(run, self.max_paths)
            except Unsupported as e:
                res.undecided.append((f'{pre}[{label}]', f'outside supported subset: {e}'))
                continue
            n_ob = 0
            for p in paths:
                for ob in p.obligations:
                    ob.info = {'case': label, 'outcome': p.notes.get('outcome'), 'note': ob.info}
                    res.obligations.append(ob)
                    n_ob += 1
            res.covers.append((f'{pre}[{label}]', len(paths), normal[0], raised[0]))
            if n_ob == 0:
                res.errors.append(f'{pre}[{label}]: zero obligations generated (vacuous requires?)')
        return res


class Fragment:
    """Contract on a structurally selected fragment of a function (e.g. a loop body) or on custom drivers.
    `run(ctx, case, report_name)` does everything (build state, interpret, prove)."""

    def __init__(self, ident, prop, name, cases, run, notes='', max_paths=50000, min_obligations=1, native=None,
                 native_pref=None):
        self.ident = ident
        self.prop = prop
        self.name = name
        self.cases = cases
        self.run = run
        self.notes = notes
        self.max_paths = max_paths
        self.located = None
        self.min_obligations = min_obligations
        self.native = native

    def locate(self):
        if self.located is None:
            self.located = frontend.locate(self.ident)
        return self.located

    def units(self):
        return list(range(len(self.cases)))

    def verify(self, report):
        self.locate()
        for u in self.units():
            apply_unit(report, self, self.run_unit(u))

    def run_unit(self, u):
        loc = self.locate()
        res = UnitResult()
        pre = f'{self.prop}.{self.name}'
        for case in [self.cases[u]]:
            label = Fn.case_label(case)

            def run(ctx, case=case, label=label):
                ctx.notes['case'] = label
                self.run(ctx, case, loc, pre, label)

            try:
                paths = explore(run, self.max_paths)
            except Unsupported as e:
                res.undecided.append((f'{pre}[{label}]', f'outside supported subset: {e}'))
                continue
            n_ob = 0
            for p in paths:
                for ob in p.obligations:
                    ob.info = {'case': label, 'outcome': p.notes.get('outcome'), 'note': ob.info}
                    res.obligations.append(ob)
                    n_ob += 1
            res.covers.append((f'{pre}[{label}]', len(paths),
                               sum(1 for p in paths if p.notes.get('end') == 'normal'), 0))
            if n_ob < self.min_obligations:
                res.errors.append(f'{pre}[{label}]: {n_ob} obligations generated, expected >= '
                                  f'{self.min_obligations} (vacuous?)')
        return res


class UnitResult:
    def __init__(self):
        self.obligations = []
        self.undecided = []
        self.errors = []
        self.covers = []
        self.stats = None


def apply_unit(report, spec, res):
    report.function(spec.locate(), spec)
    for ob in res.obligations:
        report.obligation(spec, ob)
    for n, r in res.undecided:
        report.undecided(n, r)
    for e in res.errors:
        report.checker_error(e)
    for c in res.covers:
        report.cover(*c)


_POOL_SPECS = None


def _work(job):
    si, u = job
    spec = _POOL_SPECS[si]
    before = (sym.STATS.solver_s, sym.STATS.checks, sym.STATS.paths, dict(sym.STATS.by_backend))
    try:
        res = spec.run_unit(u)
    except frontend.ExtractionError as e:
        res = UnitResult()
        res.errors.append(f'{spec.ident}: extraction failed: {e}')
    except Unsupported as e:
        res = UnitResult()
        res.undecided.append((f'{spec.prop}.{spec.name}', f'outside supported subset: {e}'))
    except Exception as e:
        res = UnitResult()
        res.errors.append(f'{spec.prop}.{spec.name}: {e.__class__.__name__}: {e}\n{traceback.format_exc()[-1500:]}')
    res.stats = (sym.STATS.solver_s - before[0], sym.STATS.checks - before[1], sym.STATS.paths - before[2],
                 {k: v - before[3].get(k, 0) for k, v in sym.STATS.by_backend.items()})
    return si, res


def verify_all(report, specs, jobs=None):
    """Verify every unit (spec x enumerated case) of `specs`, in parallel (fork), deterministic order of results."""
    import multiprocessing
    import os
    global _POOL_SPECS
    jobs = jobs or int(os.environ.get('PYVC_JOBS', '0') or 0) or min(16, os.cpu_count() or 1)
    work = []
    for si, s in enumerate(specs):
        try:
            s.locate()
        except frontend.ExtractionError as e:
            report.checker_error(f'{s.ident}: extraction failed: {e}')
            continue
        for u in s.units():
            work.append((si, u))
    _POOL_SPECS = specs
    if jobs > 1 and len(work) > 1:
        ctx = multiprocessing.get_context('fork')
        with ctx.Pool(min(jobs, len(work))) as pool:
            results = pool.map(_work, work, chunksize=1)
    else:
        results = [_work(w) for w in work]
    for si, res in results:
        st = res.stats
        if jobs > 1 and len(work) > 1 and st:
            sym.STATS.solver_s += st[0]
            sym.STATS.checks += st[1]
            sym.STATS.paths += st[2]
            for k, v in st[3].items():
                sym.STATS.by_backend[k] = sym.STATS.by_backend.get(k, 0) + v
        apply_unit(report, specs[si], res)
