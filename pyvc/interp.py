"""pyvc.interp - a small interpreter for the Python subset pfst's kernel functions are written in, running on the
values of pyvc.sym / pyvc.values.  Anything outside the subset raises Unsupported (=> UNDECIDED, exit 2).
"""
from __future__ import annotations

import ast
import operator

from . import sym
from .sym import (SInt, SBool, Unsupported, PathAbort, truth, not_, and_, or_, eq, ite, cur)


class PyRaise(Exception):
    """The interpreted program raised `exc` (a real exception instance or class)."""

    def __init__(self, exc):
        self.exc = exc
        self.cls = exc if isinstance(exc, type) else exc.__class__


class _Return(Exception):
    def __init__(self, value):
        self.value = value


class _Break(Exception):
    pass


class _Continue(Exception):
    pass


class Absent:
    """Attribute is not present on the object."""

    def __repr__(self):
        return '<absent>'


ABSENT = Absent()


class Env:
    __slots__ = ('vars', 'parent', 'nonlocals', 'globals_decl')

    def __init__(self, parent=None):
        self.vars = {}
        self.parent = parent
        self.nonlocals = set()
        self.globals_decl = set()

    def lookup(self, name):
        e = self
        while e is not None:
            if name in e.vars:
                return e.vars[name]
            e = e.parent
        raise KeyError(name)

    def has(self, name):
        e = self
        while e is not None:
            if name in e.vars:
                return True
            e = e.parent
        return False

    def set(self, name, value):
        if name in self.nonlocals:
            e = self.parent
            while e is not None:
                if name in e.vars:
                    e.vars[name] = value
                    return
                e = e.parent
            raise Unsupported(f'nonlocal {name} not found')
        self.vars[name] = value


class SObj:
    """Heap object. `shape` gives lazily created attributes: attr -> factory(obj, attr) or a constant value."""

    def __init__(self, name, shape=None, **attrs):
        object.__setattr__(self, '_name', name)
        object.__setattr__(self, '_shape', shape or {})
        object.__setattr__(self, '_attrs', dict(attrs))
        object.__setattr__(self, '_written', set())

    def __repr__(self):
        return f'<SObj {self._name}>'

    def _get(self, attr):
        a = self._attrs
        if attr in a:
            return a[attr]
        spec = self._shape.get(attr, ABSENT) if isinstance(self._shape, dict) else self._shape.lookup(self, attr)
        if spec is ABSENT:
            if isinstance(self._shape, dict) and '*' in self._shape:
                spec = self._shape['*']
            else:
                return ABSENT
        if isinstance(spec, Factory):
            v = spec.make(self, attr)
        else:
            v = spec
        a[attr] = v
        return v

    def _set(self, attr, value, count=True):
        self._attrs[attr] = value
        self._written.add(attr)
        if count and sym._CUR:
            n = cur().notes
            n['writes'] = n.get('writes', 0) + 1

    def _del(self, attr):
        self._attrs[attr] = ABSENT

    def __getattr__(self, attr):  # native read access for contract lambdas
        v = self._get(attr)
        if v is ABSENT:
            raise AttributeError(attr)
        return v


class Factory:
    def __init__(self, fn):
        self.fn = fn

    def make(self, obj, attr):
        return self.fn(obj, attr)


def IntAttr():
    return Factory(lambda o, a: cur().int(f'{o._name}.{a}'))


def BoolAttr():
    return Factory(lambda o, a: cur().bool(f'{o._name}.{a}'))


def OptIntAttr():
    """Attribute that may be missing: forks on presence."""
    def make(o, a):
        present = cur().bool(f'{o._name}.has_{a}')
        if truth(present):
            return cur().int(f'{o._name}.{a}')
        return ABSENT
    return Factory(make)


class BoundMethod:
    def __init__(self, obj, func):
        self.obj = obj
        self.func = func


class IFunc:
    """An interpreted function (real source)."""

    def __init__(self, interp, node, closure=None, name=None):
        self.interp = interp
        self.node = node
        self.closure = closure
        self.name = name or getattr(node, 'name', '<lambda>')
        self._defaults = None

    def __repr__(self):
        return f'<IFunc {self.name}>'

    def __call__(self, *args, **kwargs):
        """an interpreted function handed to a native callee (list.sort(key=...), map, sorted): interpreted on call"""
        return self.interp.call(self, args, kwargs)


_BINOPS = {
    ast.Add: operator.add, ast.Sub: operator.sub, ast.Mult: operator.mul, ast.FloorDiv: operator.floordiv,
    ast.Mod: operator.mod, ast.BitAnd: operator.and_, ast.BitOr: operator.or_, ast.BitXor: operator.xor,
    ast.LShift: operator.lshift, ast.RShift: operator.rshift,
}


def _is(a, b):
    """Python `is`.  Symbolic scalars are never identical to sentinels/None/objects."""
    if isinstance(a, (SInt,)) or isinstance(b, (SInt,)):
        other = b if isinstance(a, SInt) else a
        if other is None or isinstance(other, (str, SObj, Absent, type(...), tuple)) or other is True or other is False:
            return False
        raise Unsupported('`is` between symbolic ints')
    if isinstance(a, SBool) or isinstance(b, SBool):
        s, other = (a, b) if isinstance(a, SBool) else (b, a)
        if other is True:
            return s
        if other is False:
            return ~s
        if isinstance(other, SBool):
            return eq(s, other)
        return False
    return a is b


class Interp:
    def __init__(self, globals_=None, loop_specs=None, fuel=400):
        self.globals = dict(DEFAULT_GLOBALS)
        if globals_:
            self.globals.update(globals_)
        self.loop_specs = loop_specs or {}   # (funcname, ordinal) -> LoopSpec
        self.fuel = fuel
        self.func_stack = []
        self.trace_calls = []                # (name, args) for structural/ghost obligations
        self.on_call = None                  # hook(fval, args, kwargs) -> (handled, value)
        self.int_is_means_eq = False
        self.empty_dict_factory = None       # contract may ask for `{}` to be a symbolic dict (keys will be symbolic)
        self.empty_list_factory = None       # likewise for `[]` (an opaque / symbolic collection)

    # ------------------------------------------------------------------------------------------------------------
    # functions
    def make_func(self, node, closure=None, name=None):
        return IFunc(self, node, closure, name)

    def call(self, f, args=(), kwargs=None):
        kwargs = kwargs or {}
        if isinstance(f, BoundMethod):
            return self.call(f.func, (f.obj, *args), kwargs)
        if isinstance(f, IFunc):
            return self.call_ifunc(f, args, kwargs)
        if hasattr(f, '_pyvc_call'):
            return f._pyvc_call(self, args, kwargs)
        if callable(f):
            return f(*args, **kwargs)
        raise Unsupported(f'call of non-callable {f!r}')

    def bind(self, f: IFunc, args, kwargs):
        node = f.node
        a = node.args
        env = Env(f.closure)
        if f._defaults is None:
            denv = f.closure or Env()
            pos = a.posonlyargs + a.args
            dvals = [self.eval(d, denv) for d in a.defaults]
            f._defaults = dict(zip([p.arg for p in pos[len(pos) - len(dvals):]], dvals))
            for p, d in zip(a.kwonlyargs, a.kw_defaults):
                if d is not None:
                    f._defaults[p.arg] = self.eval(d, denv)
        pos = [p.arg for p in a.posonlyargs + a.args]
        args = list(args)
        if len(args) > len(pos):
            if a.vararg:
                env.vars[a.vararg.arg] = tuple(args[len(pos):])
                args = args[:len(pos)]
            else:
                raise PyRaise(TypeError(f'{f.name}: too many positional arguments'))
        elif a.vararg:
            env.vars[a.vararg.arg] = ()
        for n, v in zip(pos, args):
            env.vars[n] = v
        kw = dict(kwargs)
        for n in pos[len(args):] + [p.arg for p in a.kwonlyargs]:
            if n in kw:
                env.vars[n] = kw.pop(n)
            elif n in f._defaults:
                env.vars[n] = f._defaults[n]
            else:
                raise PyRaise(TypeError(f'{f.name}: missing argument {n}'))
        if kw:
            if a.kwarg:
                env.vars[a.kwarg.arg] = kw
            else:
                raise PyRaise(TypeError(f'{f.name}: unexpected keyword {list(kw)}'))
        elif a.kwarg:
            env.vars[a.kwarg.arg] = {}
        return env

    def call_ifunc(self, f: IFunc, args, kwargs):
        env = self.bind(f, args, kwargs)
        if isinstance(f.node, ast.Lambda):
            return self.eval(f.node.body, env)
        self.func_stack.append(f)
        try:
            self.exec_block(f.node.body, env)
        except _Return as r:
            return r.value
        finally:
            self.func_stack.pop()
        return None

    # ------------------------------------------------------------------------------------------------------------
    # statements
    def exec_block(self, stmts, env):
        for s in stmts:
            self.exec(s, env)

    def exec(self, s, env):
        m = getattr(self, 'x_' + s.__class__.__name__, None)
        if m is None:
            raise Unsupported(f'statement {s.__class__.__name__} at line {getattr(s, "lineno", "?")}')
        return m(s, env)

    def x_Pass(self, s, env):
        pass

    def x_Expr(self, s, env):
        if isinstance(s.value, ast.Constant):
            return  # docstring
        self.eval(s.value, env)

    def x_Return(self, s, env):
        raise _Return(self.eval(s.value, env) if s.value else None)

    def x_Break(self, s, env):
        raise _Break()

    def x_Continue(self, s, env):
        raise _Continue()

    def x_Global(self, s, env):
        env.globals_decl.update(s.names)

    def x_Nonlocal(self, s, env):
        env.nonlocals.update(s.names)

    def x_Assign(self, s, env):
        v = self.eval(s.value, env)
        for t in s.targets:
            self.assign(t, v, env)

    def x_AnnAssign(self, s, env):
        if s.value is not None:
            self.assign(s.target, self.eval(s.value, env), env)

    def x_AugAssign(self, s, env):
        t = s.target
        if isinstance(t, ast.Name):
            cur_v = self.load_name(t.id, env)
        elif isinstance(t, ast.Attribute):
            obj = self.eval(t.value, env)
            cur_v = self.getattr(obj, t.attr)
        elif isinstance(t, ast.Subscript):
            obj = self.eval(t.value, env)
            idx = self.eval_index(t.slice, env)
            cur_v = self.getitem(obj, idx)
        else:
            raise Unsupported('augassign target')
        rhs = self.eval(s.value, env)
        v = self.binop(s.op, cur_v, rhs)
        if isinstance(t, ast.Name):
            self.store_name(t.id, v, env)
        elif isinstance(t, ast.Attribute):
            self.setattr(obj, t.attr, v)
        else:
            self.setitem(obj, idx, v)

    def x_Delete(self, s, env):
        for t in s.targets:
            if isinstance(t, ast.Subscript):
                obj = self.eval(t.value, env)
                idx = self.eval_index(t.slice, env)
                d = getattr(obj, '_sym_delitem', None)
                if d is None:
                    if isinstance(obj, (dict, list)):
                        try:
                            del obj[idx]
                        except (KeyError, IndexError) as e:
                            raise PyRaise(e)
                    else:
                        raise Unsupported(f'del on {obj!r}')
                else:
                    d(idx)
            elif isinstance(t, ast.Name):
                env.vars.pop(t.id, None)
            elif isinstance(t, ast.Attribute):
                obj = self.eval(t.value, env)
                if isinstance(obj, SObj):
                    obj._del(t.attr)
                else:
                    raise Unsupported('del attribute')
            else:
                raise Unsupported('del target')

    def x_Assert(self, s, env):
        v = self.eval(s.test, env)
        if not truth(v):
            raise PyRaise(AssertionError())

    def x_If(self, s, env):
        if truth(self.eval(s.test, env)):
            self.exec_block(s.body, env)
        else:
            self.exec_block(s.orelse, env)

    def x_Raise(self, s, env):
        if s.exc is None:
            if getattr(self, '_handling', None):
                raise self._handling[-1]          # bare `raise` inside an except block: re-raise what is being handled
            raise Unsupported('bare raise outside an except block')
        e = self.eval(s.exc, env)
        raise PyRaise(e)

    def x_FunctionDef(self, s, env):
        env.vars[s.name] = self.make_func(s, env)

    def x_Try(self, s, env):
        try:
            try:
                self.exec_block(s.body, env)
            except PyRaise as pr:
                for h in s.handlers:
                    if h.type is None:
                        match = True
                    else:
                        t = self.eval(h.type, env)
                        ts = t if isinstance(t, tuple) else (t,)
                        match = any(isinstance(x, type) and issubclass(pr.cls, x) for x in ts)
                    if match:
                        if h.name:
                            env.vars[h.name] = pr.exc
                        if not hasattr(self, '_handling'):
                            self._handling = []
                        self._handling.append(pr)
                        try:
                            self.exec_block(h.body, env)
                        finally:
                            self._handling.pop()
                        break
                else:
                    raise
            else:
                self.exec_block(s.orelse, env)
        finally:
            if s.finalbody:
                self.exec_block(s.finalbody, env)

    def x_With(self, s, env):
        if len(s.items) != 1:
            raise Unsupported('multi-item with')
        item = s.items[0]
        mgr = self.eval(item.context_expr, env)
        enter = self.getattr(mgr, '__enter__')
        exit_ = self.getattr(mgr, '__exit__')
        v = self.call(enter, ())
        if item.optional_vars is not None:
            self.assign(item.optional_vars, v, env)
        try:
            self.exec_block(s.body, env)
        except PyRaise as pr:
            r = self.call(exit_, (pr.cls, pr.exc, None))
            if truth(r):
                return
            raise
        except (_Return, _Break, _Continue):
            self.call(exit_, (None, None, None))
            raise
        else:
            self.call(exit_, (None, None, None))

    # loops ------------------------------------------------------------------------------------------------------
    def _loop_spec(self, s):
        if not self.func_stack:
            return None
        f = self.func_stack[-1]
        from .frontend import loops_of
        loops = loops_of(f.node)
        for i, l in enumerate(loops):
            if l is s:
                return self.loop_specs.get((f.name, i))
        return None

    def x_While(self, s, env):
        spec = self._loop_spec(s)
        if spec is not None:
            return spec.run_while(self, s, env)
        fuel = self.fuel
        while True:
            if not truth(self.eval(s.test, env)):
                self.exec_block(s.orelse, env)
                return
            fuel -= 1
            if fuel < 0:
                raise Unsupported(f'while loop at line {s.lineno} needs an invariant (unrolling fuel exhausted)')
            try:
                self.exec_block(s.body, env)
            except _Break:
                return
            except _Continue:
                continue

    def x_For(self, s, env):
        spec = self._loop_spec(s)
        it = self.eval(s.iter, env)
        if spec is not None:
            return spec.run_for(self, s, env, it)
        fa = getattr(it, '_sym_forall', None)
        if fa is not None:
            return self.forall_loop(s, env, it)
        seq = self.concrete_iter(it)
        for v in seq:
            self.assign(s.target, v, env)
            try:
                self.exec_block(s.body, env)
            except _Break:
                return
            except _Continue:
                continue
        self.exec_block(s.orelse, env)

    def forall_loop(self, s, env, it):
        """Proof rule for `for x in <symbolic collection>: body` where the body carries no state between iterations:
        the body is executed once for an ARBITRARY element; a raise in it is a raise of the loop (witness = that
        element); normal completion leaves the facts learned about the arbitrary element on the path, so anything
        proved afterwards holds for every element.  Heap writes and `break` inside the body are outside the rule."""
        d = getattr(it, 'd', it)
        if getattr(d, '_empty', False):
            self.exec_block(s.orelse, env)
            return
        if not d.known_nonempty():
            if not truth(d):   # may be empty: zero iterations
                self.exec_block(s.orelse, env)
                return
        for elem in it._sym_forall():
            w0 = cur().notes.get('writes', 0)
            self.assign(s.target, elem, env)
            try:
                self.exec_block(s.body, env)
            except _Break:
                raise Unsupported('break inside a for-all loop')
            except _Continue:
                pass
            if cur().notes.get('writes', 0) != w0:
                raise Unsupported('for-all loop body writes the heap (loop-carried state needs an invariant)')
        self.exec_block(s.orelse, env)

    def concrete_iter(self, it):
        f = getattr(it, '_sym_iter', None)
        if f is not None:
            return f()
        if isinstance(it, (tuple, list, range, dict, set, frozenset, str)) or hasattr(it, '__next__'):
            return it
        raise Unsupported(f'iteration over {it!r} needs a loop specification')

    # assignment -------------------------------------------------------------------------------------------------
    def load_name(self, name, env):
        try:
            return env.lookup(name)
        except KeyError:
            pass
        if name in self.globals:
            return self.globals[name]
        raise Unsupported(f'unknown name {name!r} (not declared in the contract environment)')

    def store_name(self, name, v, env):
        if name in env.globals_decl:
            self.globals[name] = v
        else:
            env.set(name, v)

    def assign(self, t, v, env):
        if isinstance(t, ast.Name):
            self.store_name(t.id, v, env)
        elif isinstance(t, (ast.Tuple, ast.List)):
            vals = self.unpack(v, len(t.elts))
            for tt, vv in zip(t.elts, vals):
                self.assign(tt, vv, env)
        elif isinstance(t, ast.Attribute):
            self.setattr(self.eval(t.value, env), t.attr, v)
        elif isinstance(t, ast.Subscript):
            obj = self.eval(t.value, env)
            idx = self.eval_index(t.slice, env)
            self.setitem(obj, idx, v)
        else:
            raise Unsupported(f'assignment target {t.__class__.__name__}')

    def unpack(self, v, n):
        f = getattr(v, '_sym_unpack', None)
        if f is not None:
            return f(n)
        if isinstance(v, (tuple, list)):
            if len(v) != n:
                raise PyRaise(ValueError('unpack length mismatch'))
            return list(v)
        raise Unsupported(f'unpack of {v!r}')

    # attribute / item access --------------------------------------------------------------------------------------
    def getattr(self, obj, attr, default=ABSENT):
        if isinstance(obj, SObj):
            v = obj._get(attr)
            if v is ABSENT:
                if default is not ABSENT:
                    return default
                raise PyRaise(AttributeError(f'{obj._name}.{attr}'))
            if isinstance(v, (IFunc,)) or getattr(v, '_pyvc_method', False):
                return BoundMethod(obj, v)
            return v
        if isinstance(obj, (SInt, SBool)):
            raise Unsupported(f'attribute {attr} of symbolic scalar')
        g = getattr(obj, '_sym_getattr', None)
        if g is not None:
            return g(self, attr, default)
        try:
            return getattr(obj, attr)
        except AttributeError as e:
            if default is not ABSENT:
                return default
            raise PyRaise(e)

    def setattr(self, obj, attr, v):
        if isinstance(obj, SObj):
            obj._set(attr, v)
            return
        s = getattr(obj, '_sym_setattr', None)
        if s is not None:
            return s(self, attr, v)
        raise Unsupported(f'setattr on {obj!r}')

    def getitem(self, obj, idx):
        f = getattr(obj, '_sym_getitem', None)
        if f is not None:
            return f(idx)
        if isinstance(idx, (SInt, SBool)):
            if isinstance(obj, (tuple, list)):
                # fork over concrete positions
                n = len(obj)
                for k in range(-n, n):
                    if truth(eq(idx, k)):
                        return obj[k]
                raise PyRaise(IndexError('index out of range'))
            raise Unsupported(f'symbolic index into {type(obj).__name__}')
        try:
            return obj[idx]
        except (IndexError, KeyError, TypeError) as e:
            raise PyRaise(e)

    def setitem(self, obj, idx, v):
        f = getattr(obj, '_sym_setitem', None)
        if f is not None:
            return f(idx, v)
        if isinstance(obj, (list, dict)):
            if isinstance(idx, (SInt, SBool)):
                raise Unsupported('symbolic index store into concrete container')
            try:
                obj[idx] = v
            except (IndexError, KeyError) as e:
                raise PyRaise(e)
            return
        raise Unsupported(f'setitem on {obj!r}')

    # ------------------------------------------------------------------------------------------------------------
    # expressions
    def eval(self, n, env):
        m = getattr(self, 'e_' + n.__class__.__name__, None)
        if m is None:
            raise Unsupported(f'expression {n.__class__.__name__} at line {getattr(n, "lineno", "?")}')
        return m(n, env)

    def e_Constant(self, n, env):
        return n.value

    def e_Name(self, n, env):
        return self.load_name(n.id, env)

    def e_Tuple(self, n, env):
        out = []
        for e in n.elts:
            if isinstance(e, ast.Starred):
                out.extend(self.concrete_iter(self.eval(e.value, env)))
            else:
                out.append(self.eval(e, env))
        return tuple(out)

    def e_List(self, n, env):
        from . import values
        if not n.elts and self.empty_list_factory is not None:
            return self.empty_list_factory()
        parts, symbolic = [], False
        for e in n.elts:
            if isinstance(e, ast.Starred):
                v = self.eval(e.value, env)
                if isinstance(v, values.SList):
                    symbolic = True
                    parts.append(('seq', v))
                else:
                    parts.append(('seq', list(self.concrete_iter(v))))
            else:
                parts.append(('one', self.eval(e, env)))
        if not symbolic:
            out = []
            for k, v in parts:
                out.extend(v) if k == 'seq' else out.append(v)
            return out
        segs = []
        for k, v in parts:
            if k == 'one':
                segs.append(values.ElemSeg([v]))
            elif isinstance(v, values.SList):
                segs.extend(v.segs)
            elif v:
                segs.append(values.ElemSeg(list(v)))
        return values.SList(segs)

    def e_Set(self, n, env):
        return set(self.e_Tuple(n, env))

    def e_Dict(self, n, env):
        if not n.keys and self.empty_dict_factory is not None:
            return self.empty_dict_factory()
        d = {}
        for k, v in zip(n.keys, n.values):
            if k is None:
                d.update(self.eval(v, env))
            else:
                d[self.eval(k, env)] = self.eval(v, env)
        return d

    def e_NamedExpr(self, n, env):
        v = self.eval(n.value, env)
        self.assign(n.target, v, env)
        return v

    def e_IfExp(self, n, env):
        if truth(self.eval(n.test, env)):
            return self.eval(n.body, env)
        return self.eval(n.orelse, env)

    def e_Lambda(self, n, env):
        return self.make_func(n, env, '<lambda>')

    def e_BoolOp(self, n, env):
        is_and = isinstance(n.op, ast.And)
        v = None
        for i, e in enumerate(n.values):
            v = self.eval(e, env)
            if i == len(n.values) - 1:
                return v
            t = truth(v)
            if is_and and not t:
                return v if not isinstance(v, (SBool, SInt)) else (False if isinstance(v, SBool) else 0)
            if not is_and and t:
                return v if not isinstance(v, (SBool,)) else True
        return v

    def e_UnaryOp(self, n, env):
        v = self.eval(n.operand, env)
        if isinstance(n.op, ast.Not):
            if isinstance(v, (SBool, SInt)):
                return not_(v)
            return not truth(v)
        if isinstance(n.op, ast.USub):
            return -v
        if isinstance(n.op, ast.UAdd):
            return +v
        if isinstance(n.op, ast.Invert):
            return ~v
        raise Unsupported('unary op')

    def binop(self, op, a, b):
        f = _BINOPS.get(op.__class__)
        if f is None:
            raise Unsupported(f'binary operator {op.__class__.__name__}')
        if isinstance(op, ast.Mult) and (isinstance(a, bytes) or isinstance(b, bytes)):
            from . import values
            return values.zero_bytes_mul(a if isinstance(a, bytes) else b, b if isinstance(a, bytes) else a)
        try:
            return f(a, b)
        except TypeError as e:
            if isinstance(a, (SInt, SBool)) or isinstance(b, (SInt, SBool)):
                raise Unsupported(f'operator {op.__class__.__name__} on {a!r}, {b!r}')
            raise PyRaise(e)

    def e_BinOp(self, n, env):
        return self.binop(n.op, self.eval(n.left, env), self.eval(n.right, env))

    def compare(self, op, a, b):
        if isinstance(op, ast.Eq):
            return eq(a, b)
        if isinstance(op, ast.NotEq):
            return not_(eq(a, b))
        if isinstance(op, (ast.Is, ast.IsNot)) and self.int_is_means_eq and isinstance(a, SInt) and isinstance(b, SInt):
            # contract-declared assumption: both operands are elements obtained by iterating ONE set object, whose
            # elements are pairwise unequal, so identity coincides with equality
            r = eq(a, b)
            return r if isinstance(op, ast.Is) else not_(r)
        if isinstance(op, (ast.Is, ast.IsNot)):
            f = getattr(type(a), '_sym_is', None) or getattr(type(b), '_sym_is', None)
            if f is not None:   # objects that model "the i-th element of a list": identical iff same list and index
                r = f(a, b) if getattr(type(a), '_sym_is', None) else f(b, a)
                return r if isinstance(op, ast.Is) else not_(r)
        if isinstance(op, ast.Is):
            return _is(a, b)
        if isinstance(op, ast.IsNot):
            return not_(_is(a, b))
        if isinstance(op, (ast.In, ast.NotIn)):
            r = self.contains(b, a)
            return r if isinstance(op, ast.In) else not_(r)
        if isinstance(a, tuple) and isinstance(b, tuple):
            if len(a) != len(b):
                raise Unsupported('ordering of tuples of different length')
            if isinstance(op, ast.Lt):
                return sym.lex_lt(a, b)
            if isinstance(op, ast.LtE):
                return sym.lex_le(a, b)
            if isinstance(op, ast.Gt):
                return sym.lex_lt(b, a)
            if isinstance(op, ast.GtE):
                return sym.lex_le(b, a)
        try:
            if isinstance(op, ast.Lt):
                return a < b
            if isinstance(op, ast.LtE):
                return a <= b
            if isinstance(op, ast.Gt):
                return a > b
            if isinstance(op, ast.GtE):
                return a >= b
        except TypeError as e:
            if isinstance(a, (SInt, SBool)) or isinstance(b, (SInt, SBool)):
                raise Unsupported(f'comparison of {a!r} and {b!r}')
            raise PyRaise(e)
        raise Unsupported('comparison operator')

    def contains(self, container, item):
        f = getattr(container, '_sym_contains', None)
        if f is not None:
            return f(item)
        if isinstance(container, (tuple, list, set, frozenset)):
            if isinstance(item, (SInt, SBool)):
                return or_(*[eq(item, c) for c in container]) if container else False
            try:
                return item in container
            except Unsupported:
                return any(x is item for x in container)
        if isinstance(container, dict):
            if isinstance(item, (SInt, SBool)):
                return or_(*[eq(item, c) for c in container]) if container else False
            return item in container
        if isinstance(container, str) and isinstance(item, str):
            return item in container
        raise Unsupported(f'`in` on {container!r}')

    def e_Compare(self, n, env):
        left = self.eval(n.left, env)
        result = True
        for i, (op, right_n) in enumerate(zip(n.ops, n.comparators)):
            right = self.eval(right_n, env)
            r = self.compare(op, left, right)
            if i == len(n.ops) - 1:
                if result is True:
                    return r
                return r
            if not truth(r):
                return False
            left = right
        return result

    def e_Attribute(self, n, env):
        return self.getattr(self.eval(n.value, env), n.attr)

    def eval_index(self, sl, env):
        if isinstance(sl, ast.Slice):
            return slice(self.eval(sl.lower, env) if sl.lower else None,
                         self.eval(sl.upper, env) if sl.upper else None,
                         self.eval(sl.step, env) if sl.step else None)
        return self.eval(sl, env)

    def e_Subscript(self, n, env):
        return self.getitem(self.eval(n.value, env), self.eval_index(n.slice, env))

    def e_Call(self, n, env):
        f = self.eval(n.func, env)
        args = []
        for a in n.args:
            if isinstance(a, ast.Starred):
                v = self.eval(a.value, env)
                u = getattr(v, '_sym_iter', None)
                args.extend(u() if u else v)
            else:
                args.append(self.eval(a, env))
        kwargs = {}
        for k in n.keywords:
            if k.arg is None:
                kv = self.eval(k.value, env)
                if isinstance(kv, dict):
                    kwargs.update(kv)
                else:
                    kwargs['__sdict__'] = kv
            else:
                kwargs[k.arg] = self.eval(k.value, env)
        if self.on_call is not None:
            handled, v = self.on_call(self, f, args, kwargs, n)
            if handled:
                return v
        return self.call(f, args, kwargs)

    def e_JoinedStr(self, n, env):
        from . import values
        parts = []
        for v in n.values:
            if isinstance(v, ast.Constant):
                parts.append(v.value)
            elif isinstance(v, ast.FormattedValue):
                val = self.eval(v.value, env)
                if v.conversion != -1 or v.format_spec is not None or not isinstance(val, (str, values.SStr)):
                    parts.append('<?>')  # opaque text (messages only): never compared by any contract
                else:
                    parts.append(val)
            else:
                raise Unsupported('f-string part')
        return values.str_concat(parts)

    def _comp(self, n, env, elt_fn):
        out = []

        def rec(gi, env):
            if gi == len(n.generators):
                out.append(elt_fn(env))
                return
            g = n.generators[gi]
            for v in self.concrete_iter(self.eval(g.iter, env)):
                e2 = Env(env)
                self.assign(g.target, v, e2)
                if all(truth(self.eval(c, e2)) for c in g.ifs):
                    rec(gi + 1, e2)
        rec(0, Env(env))
        return out

    def e_ListComp(self, n, env):
        return self._comp(n, env, lambda e: self.eval(n.elt, e))

    def e_GeneratorExp(self, n, env):
        return iter(self._comp(n, env, lambda e: self.eval(n.elt, e)))

    def e_SetComp(self, n, env):
        return set(self._comp(n, env, lambda e: self.eval(n.elt, e)))

    def e_DictComp(self, n, env):
        if len(n.generators) == 1 and not n.generators[0].ifs:
            it = self.eval(n.generators[0].iter, env)
            if hasattr(it, '_sym_forall'):
                return self.dictcomp_forall(n, env, it)
        return dict(self._comp(n, env, lambda e: (self.eval(n.key, e), self.eval(n.value, e))))

    def dictcomp_forall(self, n, env, it):
        """{key(k): val(k) for k in D} with key(k) == k: pointwise dict; exceptions by the for-all rule"""
        import z3
        from . import values
        d = getattr(it, 'd', it)
        if getattr(d, '_empty', False) or (not d.known_nonempty() and not truth(d)):
            return values.SDict(cur().fresh_name('empty'), z3.K(z3.IntSort(), z3.BoolVal(False)), d.val)
        tnames = [t.id for t in ast.walk(n.generators[0].target) if isinstance(t, ast.Name)]
        for elem in it._sym_forall():   # interesting keys first (exceptions only), the fresh arbitrary key last
            e2 = Env(env)
            self.assign(n.generators[0].target, elem, e2)
            kk = elem[0] if isinstance(elem, tuple) else elem
            try:
                k = self.eval(n.key, e2)
                same = (isinstance(k, SInt) and isinstance(kk, SInt) and z3.is_true(z3.simplify(k.e == kk.e))) \
                    or (not isinstance(k, SInt) and k == kk)
                if not same:
                    raise Unsupported('dict comprehension key is not the iteration key')
                v = self.eval(n.value, e2)
            finally:
                # walrus targets inside the comprehension bind in the enclosing scope (PEP 572), also when it raises
                for name, val in e2.vars.items():
                    if name not in tnames:
                        env.set(name, val)
        x = z3.Int('x!comp')
        vz = z3.substitute(values._valz(v), (kk.e, x))
        return values.SDict(cur().fresh_name('comp'), d.dom, z3.Lambda([x], vz))

    def e_Yield(self, n, env):
        v = self.eval(n.value, env) if n.value else None
        h = getattr(self, 'on_yield', None)
        if h is None:
            raise Unsupported('yield without a consumer model')
        return h(v)

    def e_YieldFrom(self, n, env):
        v = self.eval(n.value, env)
        h = getattr(self, 'on_yield_from', None)
        if h is None:
            raise Unsupported('yield from without a consumer model')
        return h(v)

    def e_Starred(self, n, env):
        raise Unsupported('starred expression outside call/tuple')


# --------------------------------------------------------------------------------------------------------------------
# builtins on symbolic values

def b_len(x):
    f = getattr(x, '_sym_len', None)
    if f is not None:
        return f()
    if isinstance(x, (SInt, SBool)):
        raise PyRaise(TypeError('len of int'))
    return len(x)


def b_isinstance(x, t):
    f = getattr(x, '_sym_isinstance', None)
    if f is not None:
        return f(t)
    ts = t if isinstance(t, tuple) else (t,)
    ts = tuple(_BUILTIN_TYPES.get(id(y), y) for y in ts)   # `int`, `bool`, ... are wrapped builtins here
    t = ts if isinstance(t, tuple) else ts[0]
    if isinstance(x, SInt):
        return int in ts
    if isinstance(x, SBool):
        return bool in ts or int in ts
    return isinstance(x, t)


def b_bool(x=False):
    if isinstance(x, SBool):
        return x
    if isinstance(x, SInt):
        return x != 0
    return truth(x)


def b_int(x=0):
    if isinstance(x, SInt):
        return x
    if isinstance(x, SBool):
        return SInt(sym._z(x))
    return int(x)


def b_range(*a):
    if any(isinstance(x, (SInt, SBool)) for x in a):
        from . import values
        return values.SRange(*a)
    return range(*a)


def b_abs(x):
    return abs(x)


_BUILTIN_TYPES = {}


class _GetAttr:
    def _pyvc_call(self, interp, args, kwargs):
        if len(args) == 3:
            return interp.getattr(args[0], args[1], args[2])
        return interp.getattr(args[0], args[1])


class _SetAttr:
    def _pyvc_call(self, interp, args, kwargs):
        interp.setattr(args[0], args[1], args[2])


def b_tuple(x=()):
    f = getattr(x, '_sym_iter', None)
    return tuple(f() if f else x)


def b_list(x=()):
    f = getattr(x, '_sym_iter', None)
    return list(f() if f else x)


def _late():
    from . import values
    _BUILTIN_TYPES.update({id(b_int): int, id(b_bool): bool, id(b_tuple): tuple, id(b_list): list,
                           id(values.dict_ctor): dict})
    DEFAULT_GLOBALS['dict'] = values.dict_ctor
    from . import loops
    DEFAULT_GLOBALS['enumerate'] = loops.b_enumerate
    DEFAULT_GLOBALS['array'] = values.b_array


DEFAULT_GLOBALS = {
    'len': b_len, 'max': sym.smax, 'min': sym.smin, 'abs': b_abs, 'isinstance': b_isinstance, 'bool': b_bool,
    'int': b_int, 'range': b_range, 'getattr': _GetAttr(), 'setattr': _SetAttr(), 'tuple': b_tuple, 'list': b_list,
    'enumerate': None, 'zip': zip, 'str': str, 'dict': None, 'set': set, 'frozenset': frozenset,
    'True': True, 'False': False, 'None': None, 'Ellipsis': ..., 'slice': slice,
    'IndexError': IndexError, 'ValueError': ValueError, 'KeyError': KeyError, 'RuntimeError': RuntimeError,
    'TypeError': TypeError, 'NotImplementedError': NotImplementedError, 'AttributeError': AttributeError,
    'Exception': Exception, 'BaseException': BaseException, 'SyntaxError': SyntaxError, 'AssertionError':
    AssertionError, 'LookupError': LookupError, 'StopIteration': StopIteration,
}

_late()
