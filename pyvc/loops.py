"""pyvc.loops - loop contracts (inductive invariants) for the symbolic executor.

Cut-point rule for `for <targets> in enumerate(seq)` / `for x in seq` / `while cond` with an invariant `inv(k, env)`:
  1. prove inv(0, env)                                  [<name>.inv.entry]
  2. havoc every variable the body assigns and every object the spec names; k := fresh, 0 <= k <= n; assume inv(k, env)
  3. fork  k < n : bind targets to element k, run the body once, prove inv(k + 1, env)   [<name>.inv.preserved], stop
           k == n: continue after the loop with the invariant as the only knowledge about the havocked state
`break` / `return` inside the body leave the loop with the state they produce (checked by whatever follows)."""
from __future__ import annotations

import ast

from . import sym
from .sym import cur, truth, PathAbort, Unsupported, SInt, SBool


def assigned_names(stmts):
    out = set()
    for s in stmts:
        for n in ast.walk(s):
            if isinstance(n, ast.Name) and isinstance(n.ctx, ast.Store):
                out.add(n.id)
    return out


def _conj(c):
    return sym.and_(*c.values()) if isinstance(c, dict) else c


def _prove_inv(ctx, name, c):
    """an invariant given as {part name: claim} is proved part by part (finer obligation names)"""
    if isinstance(c, dict):
        for k, v in c.items():
            ctx.prove(f'{name}.{k}', v)
    else:
        ctx.prove(name, c)


class LoopSpec:
    def __init__(self, name, inv, havoc_objs=None, kinds=None, length=None):
        self.name = name
        self.inv = inv                      # callable(k, env: dict) -> claim
        self.havoc_objs = havoc_objs or (lambda env: [])   # env -> objects with a .havoc() method
        self.kinds = kinds or {}            # variable name -> 'int' | callable() giving a fresh value
        self.length = length                # optional callable(iterable) -> length

    def _envdict(self, env):
        d = {}
        e = env
        while e is not None:
            for k, v in e.vars.items():
                d.setdefault(k, v)
            e = e.parent
        return d

    def _havoc(self, interp, node, env):
        ctx = cur()
        names = assigned_names(node.body) | assigned_names([node.target] if isinstance(node, ast.For) else [])
        for n in sorted(names):
            if not env.has(n):
                continue
            old = env.lookup(n)
            kind = self.kinds.get(n)
            if callable(kind):
                env.set(n, kind())
            elif isinstance(old, (int, SInt)) and not isinstance(old, bool):
                env.set(n, ctx.int(ctx.fresh_name(f'{self.name}.{n}')))
            elif isinstance(old, (bool, SBool)):
                env.set(n, ctx.bool(ctx.fresh_name(f'{self.name}.{n}')))
            # other kinds (objects) keep their identity; their content is havocked through havoc_objs
        for o in self.havoc_objs(self._envdict(env)):
            o.havoc(self.name)

    def run_for(self, interp, node, env, iterable):
        from .interp import _Break, _Continue
        ctx = cur()
        seq, enum = iterable, False
        if getattr(iterable, '_sym_enumerate', None) is not None:
            seq, enum = iterable.seq, True
        n = self.length(seq) if self.length else interp.globals['len'](seq)
        _prove_inv(ctx, f'{self.name}.inv.entry', self.inv(0, self._envdict(env)))
        self._havoc(interp, node, env)
        k = ctx.int(ctx.fresh_name(f'{self.name}.k'))
        ctx.assume(sym.and_(0 <= k, k <= n))
        ctx.assume(_conj(self.inv(k, self._envdict(env))))
        if truth(k < n):
            elem = interp.getitem(seq, k)
            interp.assign(node.target, (k, elem) if enum else elem, env)
            try:
                interp.exec_block(node.body, env)
            except _Continue:
                pass
            except _Break:
                return
            _prove_inv(ctx, f'{self.name}.inv.preserved', self.inv(k + 1, self._envdict(env)))
            raise PathAbort()
        interp.exec_block(node.orelse, env)

    def run_while(self, interp, node, env):
        from .interp import _Break, _Continue
        ctx = cur()
        _prove_inv(ctx, f'{self.name}.inv.entry', self.inv(None, self._envdict(env)))
        self._havoc(interp, node, env)
        ctx.assume(_conj(self.inv(None, self._envdict(env))))
        if truth(interp.eval(node.test, env)):
            try:
                interp.exec_block(node.body, env)
            except _Continue:
                pass
            except _Break:
                return
            _prove_inv(ctx, f'{self.name}.inv.preserved', self.inv(None, self._envdict(env)))
            raise PathAbort()
        interp.exec_block(node.orelse, env)


class SEnumerate:
    _sym_enumerate = True

    def __init__(self, seq):
        self.seq = seq


def b_enumerate(seq, start=0):
    if isinstance(seq, (list, tuple, str, dict, range)) or hasattr(seq, '__next__'):
        return enumerate(seq, start)
    if start != 0:
        raise Unsupported('enumerate(start != 0) over a symbolic sequence')
    return SEnumerate(seq)
