"""pyvc.loops - loop contracts (inductive invariants) for the symbolic executor.

Cut-point rule for `for <targets> in enumerate(seq)` / `for x in seq` / `while cond` with an invariant `inv(k, env)`:
  1. prove inv(0, env)                                  [<name>.inv.entry]
  2. havoc every variable the body assigns and every object the spec names; k := fresh, 0 <= k <= n; assume inv(k, env)
  3. fork  k < n : bind targets to element k, run the body once, prove inv(k + 1, env)   [<name>.inv.preserved], stop
           k == n: continue after the loop with the invariant as the only knowledge about the havocked state
`break` / `return` inside the body leave the loop with the state they produce (checked by whatever follows)."""
from __future__ import annotations

import ast

from . import sym
from .sym import cur, truth, PathAbort, Unsupported, SInt, SBool


def assigned_names(stmts):
    out = set()
    for s in stmts:
        for n in ast.walk(s):
            if isinstance(n, ast.Name) and isinstance(n.ctx, ast.Store):
                out.add(n.id)
    return out


def _conj(c):
    return sym.and_(*c.values()) if isinstance(c, dict) else c


def _prove_inv(ctx, name, c):
    """an invariant given as {part name: claim} is proved part by part (finer obligation names)"""
    if isinstance(c, dict):
        for k, v in c.items():
            ctx.prove(f'{name}.{k}', v)
    else:
        ctx.prove(name, c)


class LoopSpec:
    def __init__(self, name, inv, havoc_objs=None, kinds=None, length=None):
        self.name = name
        self.inv = inv                      # callable(k, env: dict) -> claim
        self.havoc_objs = havoc_objs or (lambda env: [])   # env -> objects with a .havoc() method
        self.kinds = kinds or {}            # variable name -> 'int' | callable() giving a fresh value
        self.length = length                # optional callable(iterable) -> length

    def _envdict(self, env):
        d = {}
        e = env
        while e is not None:
            for k, v in e.vars.items():
                d.setdefault(k, v)
            e = e.parent
        return d

    def _havoc(self, interp, node, env):
        ctx = cur()
        names = assigned_names(node.body) | assigned_names([node.target] if isinstance(node, ast.For) else [])
        for n in sorted(names):
            if not env.has(n):
                continue
            old = env.lookup(n)
            kind = self.kinds.get(n)
            if callable(kind):
                env.set(n, kind())
            elif isinstance(old, (int, SInt)) and not isinstance(old, bool):
                env.set(n, ctx.int(ctx.fresh_name(f'{self.name}.{n}')))
            elif isinstance(old, (bool, SBool)):
                env.set(n, ctx.bool(ctx.fresh_name(f'{self.name}.{n}')))
            # other kinds (objects) keep their identity; their content is havocked through havoc_objs
        for o in self.havoc_objs(self._envdict(env)):
            o.havoc(self.name)

    def run_for(self, interp, node, env, iterable):
        from .interp import _Break, _Continue
        ctx = cur()
        seq, enum = iterable, False
        if getattr(iterable, '_sym_enumerate', None) is not None:
            seq, enum = iterable.seq, True
        n = self.length(seq) if self.length else interp.globals['len'](seq)
        _prove_inv(ctx, f'{self.name}.inv.entry', self.inv(0, self._envdict(env)))
        self._havoc(interp, node, env)
        k = ctx.int(ctx.fresh_name(f'{self.name}.k'))
        ctx.assume(sym.and_(0 <= k, k <= n))
        ctx.assume(_conj(self.inv(k, self._envdict(env))))
        if truth(k < n):
            elem = interp.getitem(seq, k)
            interp.assign(node.target, (k, elem) if enum else elem, env)
            try:
                interp.exec_block(node.body, env)
            except _Continue:
                pass
            except _Break:
                return
            _prove_inv(ctx, f'{self.name}.inv.preserved', self.inv(k + 1, self._envdict(env)))
            raise PathAbort()
        interp.exec_block(node.orelse, env)

    def run_while(self, interp, node, env):
        from .interp import _Break, _Continue
        ctx = cur()
        _prove_inv(ctx, f'{self.name}.inv.entry', self.inv(None, self._envdict(env)))
        self._havoc(interp, node, env)
        ctx.assume(_conj(self.inv(None, self._envdict(env))))
        if truth(interp.eval(node.test, env)):
            try:
                interp.exec_block(node.body, env)
            except _Continue:
                pass
            except _Break:
                return
            _prove_inv(ctx, f'{self.name}.inv.preserved', self.inv(None, self._envdict(env)))
            raise PathAbort()
        interp.exec_block(node.orelse, env)


class SEnumerate:
    _sym_enumerate = True

    def __init__(self, seq):
        self.seq = seq


def b_enumerate(seq, start=0):
    if isinstance(seq, (list, tuple, str, dict, range)) or hasattr(seq, '__next__'):
        return enumerate(seq, start)
    if start != 0:
        raise Unsupported('enumerate(start != 0) over a symbolic sequence')
    return SEnumerate(seq)


class SearchLoop:
    """Exact summarisation of a linear-search `for x in seq:` loop - no user invariant.

    Side conditions (checked syntactically on the loop body, otherwise Unsupported):
      * the body stores only into plain local names (no attribute / subscript stores, no calls, no nested loops)
      * every read of a name assigned in the body is preceded, in the same iteration, by its assignment: neither the
        exit conditions nor the assigned values depend on an earlier iteration
    Under these conditions the loop is characterised by its exit index m (0 <= m <= n):
      * no iteration t < m exits          - instantiated at the indices the contract supplies (`instances`) and at m - 1
      * the locals after iteration m - 1 are those assigned by running the body on element m - 1 (if m > 0)
      * if m < n iteration m exits (break / return), with the assignments it makes before exiting; if m == n the loop
        is exhausted and the else-clause runs
    All three are obtained by RUNNING the real body on the elements concerned; paths that contradict the definition of
    m (an exit before m, no exit at m) are infeasible and dropped."""

    def __init__(self, name, instances=None):
        self.name = name
        self.instances = instances or (lambda env: [])

    @staticmethod
    def check_shape(node):
        assigned = assigned_names(node.body)

        def scan(stmts, defined):
            for st in stmts:
                for n in ast.walk(st):
                    if isinstance(n, (ast.Call, ast.For, ast.While, ast.Yield, ast.YieldFrom, ast.Await, ast.Lambda)):
                        raise Unsupported(f'search loop body contains {n.__class__.__name__} (line {n.lineno})')
                    if isinstance(n, (ast.Attribute, ast.Subscript)) and isinstance(n.ctx, (ast.Store, ast.Del)):
                        raise Unsupported('search loop body stores into an attribute / subscript')
                if isinstance(st, ast.If):
                    reads = [n.id for n in ast.walk(st.test) if isinstance(n, ast.Name) and isinstance(n.ctx, ast.Load)]
                    walrus = {n.target.id for n in ast.walk(st.test) if isinstance(n, ast.NamedExpr)}
                    for r in reads:
                        if r in assigned and r not in defined and r not in walrus:
                            raise Unsupported(f'search loop: {r!r} is read before it is assigned in the iteration')
                    d2 = set(defined) | walrus
                    scan(st.body, set(d2))
                    scan(st.orelse, set(d2))
                    defined |= walrus
                    # names assigned in both branches that fall through are defined afterwards; keep it simple: none
                elif isinstance(st, (ast.Assign, ast.AnnAssign)):
                    val = st.value
                    for n in ast.walk(val) if val is not None else []:
                        if isinstance(n, ast.Name) and isinstance(n.ctx, ast.Load) and n.id in assigned and n.id not in defined:
                            raise Unsupported(f'search loop: {n.id!r} is read before it is assigned in the iteration')
                    tg = st.targets if isinstance(st, ast.Assign) else [st.target]
                    for t in tg:
                        for n in ast.walk(t):
                            if isinstance(n, ast.Name):
                                defined.add(n.id)
                elif isinstance(st, (ast.Break, ast.Return, ast.Pass, ast.Continue)):
                    if isinstance(st, ast.Return) and st.value is not None:
                        for n in ast.walk(st.value):
                            if isinstance(n, ast.Name) and isinstance(n.ctx, ast.Load) and n.id in assigned and n.id not in defined:
                                raise Unsupported(f'search loop: {n.id!r} is read before it is assigned in the iteration')
                else:
                    raise Unsupported(f'search loop body statement {st.__class__.__name__}')
        tnames = {n.id for n in ast.walk(node.target) if isinstance(n, ast.Name)}
        if not isinstance(node.target, (ast.Name, ast.Tuple)):
            raise Unsupported('search loop target')
        scan(node.body, set(tnames))

    def run_for(self, interp, node, env, iterable):
        from .interp import _Break, _Continue, _Return, Env
        ctx = cur()
        self.check_shape(node)
        n = interp.globals['len'](iterable)
        m = ctx.int(ctx.fresh_name(f'{self.name}.exit_index'))
        ctx.assume(sym.and_(0 <= m, m <= n))

        def run_body(k, e):
            interp.assign(node.target, interp.getitem(iterable, k), e)
            try:
                interp.exec_block(node.body, e)
            except _Continue:
                pass

        # (1) no exit before m, at the supplied instances
        for t in list(self.instances(LoopSpec._envdict(self, env))):
            if truth(sym.and_(0 <= t, t < m)):
                scratch = Env(env)
                try:
                    run_body(t, scratch)
                except (_Break, _Return):
                    raise PathAbort()
        # (2) locals as left by iteration m - 1
        if truth(m > 0):
            try:
                run_body(m - 1, env)
            except (_Break, _Return):
                raise PathAbort()
        # (3) exit at m, or exhaustion
        if truth(m < n):
            try:
                run_body(m, env)
            except _Break:
                return
            raise PathAbort()      # iteration m did not exit: contradicts the choice of m (a _Return propagates)
        interp.exec_block(node.orelse, env)
