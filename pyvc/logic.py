"""pyvc.logic - the logical helpers contracts are written with.  One text, two uses: under python3-vt (z3 present)
they build formulas on symbolic values; under /venv/bin/python (no z3; native replay and bounded runs) they are the
plain Python meanings."""
try:
    import z3  # noqa: F401
    from .sym import not_, and_, or_, implies, iff, ite, smin, smax, eq, lex_lt, lex_le, truth  # noqa: F401
    from .interp import b_len as slen  # noqa: F401
    SYMBOLIC = True
except ImportError:  # native
    SYMBOLIC = False

    def not_(a): return not a
    def and_(*xs): return all(xs)
    def or_(*xs): return any(xs)
    def implies(a, b): return (not a) or bool(b)
    def iff(a, b): return bool(a) == bool(b)
    def ite(c, a, b): return a if c else b
    def smin(*xs): return min(*xs)
    def smax(*xs): return max(*xs)
    def eq(a, b): return a == b
    def lex_lt(a, b): return tuple(a) < tuple(b)
    def lex_le(a, b): return tuple(a) <= tuple(b)
    def truth(a): return bool(a)
    def slen(a): return len(a)
