"""pyvc.frontend - locate the real functions in /repo's current working tree on every run.

Nothing is copied: the text that is verified is `ast.parse` of the file that runs.  What extraction drops is
recorded per function (docstring, annotations, decorators) and goes into the evidence file together with the SHA-256
of the function's source segment.
"""
from __future__ import annotations

import ast
import hashlib
import os

REPO = os.environ.get('PFST_REPO', '/repo')
SRC = os.path.join(REPO, 'src', 'fst')
RUNTIME_MINOR = 12  # /venv/bin/python is 3.12: the @pyver variant that runs

_cache: dict[str, 'Module'] = {}


class ExtractionError(Exception):
    pass


class Module:
    def __init__(self, name):
        self.name = name
        self.path = os.path.join(SRC, name + '.py')
        with open(self.path, encoding='utf-8') as f:
            self.text = f.read()
        self.tree = ast.parse(self.text)
        self.lines = self.text.split('\n')

    def segment(self, node):
        return ast.get_source_segment(self.text, node) or ''


def module(name) -> Module:
    m = _cache.get(name)
    if m is None:
        m = _cache[name] = Module(name)
    return m


def reset_cache():
    _cache.clear()


def _pyver_selects(dec) -> bool | None:
    """None if decorator is not @pyver(...); else whether this variant is the one that runs on RUNTIME_MINOR."""
    if isinstance(dec, ast.Call) and isinstance(dec.func, ast.Name) and dec.func.id == 'pyver':
        ge = lt = None
        for kw in dec.keywords:
            if kw.arg == 'ge' and isinstance(kw.value, ast.Constant):
                ge = kw.value.value
            elif kw.arg == 'lt' and isinstance(kw.value, ast.Constant):
                lt = kw.value.value
        if ge is not None and RUNTIME_MINOR < ge:
            return False
        if lt is not None and RUNTIME_MINOR >= lt:
            return False
        return True
    return None


def _select(body, name):
    """All defs named `name` in `body` that are live on the runtime interpreter (the LAST one wins, as in Python)."""
    found = []
    dead = []
    for n in body:
        if isinstance(n, (ast.FunctionDef, ast.ClassDef, ast.AsyncFunctionDef)) and n.name == name:
            live = True
            for d in n.decorator_list:
                s = _pyver_selects(d)
                if s is False:
                    live = False
            (found if live else dead).append(n)
    return found, dead


class Located:
    def __init__(self, mod: Module, qualname: str, node, dead_variants: int):
        self.mod = mod
        self.qualname = qualname
        self.node = node
        self.dead_variants = dead_variants
        self.src = mod.segment(node)
        self.sha256 = hashlib.sha256(self.src.encode()).hexdigest()

    @property
    def ident(self):
        return f'{self.mod.name}:{self.qualname}'

    def dropped(self):
        d = []
        n = self.node
        if isinstance(n, (ast.FunctionDef, ast.ClassDef)):
            if ast.get_docstring(n, clean=False) is not None:
                d.append('docstring')
            if n.decorator_list:
                d.append('decorators(' + ','.join(ast.unparse(x) for x in n.decorator_list) + ') - effect modelled')
        if isinstance(n, ast.FunctionDef):
            d.append('type annotations')
        return d

    def describe(self):
        return {'function': self.ident, 'file': os.path.relpath(self.mod.path, REPO), 'line': self.node.lineno,
                'sha256': self.sha256, 'dropped': self.dropped(),
                'dead_variants_not_verified': self.dead_variants}


def locate(ident: str) -> Located:
    """`module:qual.name` -> Located.  Fails (ExtractionError -> exit 3, never a violation) if not unique."""
    modname, qual = ident.split(':')
    mod = module(modname)
    body = mod.tree.body
    node = None
    dead_n = 0
    for part in qual.split('.'):
        found, dead = _select(body, part)
        if not found:
            raise ExtractionError(f'{ident}: no live definition of {part!r}')
        node = found[-1]
        dead_n += len(dead)
        body = node.body
    return Located(mod, qual, node, dead_n)


def module_assign(modname: str, name: str):
    """The value node of the (last) module-level assignment `name = ...`."""
    mod = module(modname)
    val = None
    for n in mod.tree.body:
        if isinstance(n, ast.Assign):
            for t in n.targets:
                if isinstance(t, ast.Name) and t.id == name:
                    val = n.value
        elif isinstance(n, ast.AnnAssign) and isinstance(n.target, ast.Name) and n.target.id == name and n.value:
            val = n.value
    if val is None:
        raise ExtractionError(f'{modname}: no module-level assignment of {name}')
    return val


def loops_of(fnode):
    """Loops of a function in source order (ordinal = index), not descending into nested defs."""
    out = []

    def visit(n):
        for c in ast.iter_child_nodes(n):
            if isinstance(c, (ast.FunctionDef, ast.Lambda, ast.ClassDef)):
                continue
            if isinstance(c, (ast.While, ast.For)):
                out.append(c)
            visit(c)
    visit(fnode)
    return out
