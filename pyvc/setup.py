"""./check setup - verify the offline tool chain; nothing is downloaded or built outside /verif."""
import os
import shutil
import subprocess
import sys


def main():
    ok = True
    try:
        import z3
        print('z3', z3.get_version_string())
    except Exception as e:
        print('CHECKER-ERROR z3 not importable under python3-vt:', e)
        ok = False
    for exe in ('/usr/bin/cvc5', os.environ.get('PFST_PY', '/venv/bin/python')):
        if not os.path.exists(exe):
            print('CHECKER-ERROR missing', exe)
            ok = False
    p = subprocess.run([os.environ.get('PFST_PY', '/venv/bin/python'), '-c', 'import fst, sys; print(fst.__file__, sys.version_info[:2])'],
                       capture_output=True, text=True)
    print('fst:', p.stdout.strip(), p.stderr.strip()[-200:])
    ok = ok and p.returncode == 0
    here = os.path.dirname(os.path.dirname(os.path.abspath(__file__)))
    for d in ('evidence', 'replays'):
        os.makedirs(os.path.join(here, d), exist_ok=True)
    return 0 if ok else 3
