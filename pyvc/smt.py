"""pyvc.smt - second back end (cvc5 CLI) for queries z3 leaves open."""
from __future__ import annotations

import os
import subprocess
import tempfile

import z3

CVC5 = '/usr/bin/cvc5'


def cvc5_check(assertions, extra=(), timeout_s=20):
    """Return 'sat' | 'unsat' | 'unknown:<why>' for the conjunction, decided by the cvc5 binary."""
    if not os.path.exists(CVC5):
        return 'unknown:no-cvc5'
    s = z3.Solver()
    for a in assertions:
        s.add(a)
    for a in extra:
        s.add(a)
    text = s.to_smt2()
    # z3 emits (set-info :status ...) and (check-sat); cvc5 wants a logic
    text = '(set-logic ALL)\n' + text
    with tempfile.NamedTemporaryFile('w', suffix='.smt2', delete=False) as f:
        f.write(text)
        path = f.name
    try:
        p = subprocess.run([CVC5, '--lang=smt2', f'--tlimit={timeout_s * 1000}', path], capture_output=True,
                           text=True, timeout=timeout_s + 5)
        out = p.stdout.strip().splitlines()
        if out and out[0] in ('sat', 'unsat'):
            return out[0]
        return 'unknown:' + (p.stdout + p.stderr).strip()[:200]
    except subprocess.TimeoutExpired:
        return 'unknown:timeout'
    finally:
        os.unlink(path)
