"""./check driver (runs under python3-vt)."""
from __future__ import annotations

import argparse
import importlib
import json
import os
import sys
import traceback

HERE = os.path.dirname(os.path.dirname(os.path.abspath(__file__)))
sys.path.insert(0, HERE)

from pyvc import report as report_mod  # noqa: E402
from pyvc import sym  # noqa: E402

PROPS = ['C01', 'C02', 'C03', 'C04', 'C05', 'C06', 'C07', 'C08', 'C09', 'C10', 'C11', 'C12', 'C14', 'C15', 'C16',
         'C17', 'C20']


def levels():
    with open(os.path.join(HERE, 'MANIFEST.json')) as f:
        m = json.load(f)
    return {c['property_id']: c['level_claimed']['category'] for c in m['checks']}


def run_prop(prop, tier, seed):
    lv = levels().get(prop, 'proof')
    rep = report_mod.Report(prop, tier, seed, lv, f'./check {prop} --tier {tier}')
    try:
        mod = importlib.import_module(f'contracts.{prop.lower()}')
        mod.run(rep, tier, seed)
    except sym.Unsupported as e:
        rep.undecided(f'{prop}.driver', f'outside supported subset: {e}')
    except Exception as e:
        traceback.print_exc()
        rep.checker_error(f'{e.__class__.__name__}: {e}')
    return rep.finish()


def main():
    ap = argparse.ArgumentParser()
    ap.add_argument('what')
    ap.add_argument('--tier', default=os.environ.get('VERIF_TIER', 'quick'), choices=['quick', 'thorough'])
    ap.add_argument('--replay')
    a = ap.parse_args()
    seed = int(os.environ.get('VERIF_SEED', '0') or 0)
    if a.what == 'setup':
        from pyvc import setup
        sys.exit(setup.main())
    if a.what == 'crosscheck':
        from pyvc import crosscheck
        sys.exit(crosscheck.main())
    if a.what == 'selftest':
        from pyvc import selftest, crosscheck
        rc = crosscheck.main()
        if rc:
            sys.exit(rc)
        sys.exit(selftest.main(a.tier))
    if a.replay:
        from pyvc import replay
        sys.exit(replay.main(a.what, a.replay))
    if a.what == 'all':
        worst = 0
        for p in PROPS:
            worst = max(worst, run_prop(p, a.tier, seed))
        sys.exit(worst)
    sys.exit(run_prop(a.what, a.tier, seed))


if __name__ == '__main__':
    main()
