"""./check selftest - mutation self-test of the deductive fragments: every deliberately broken body in /verif/selftest
(<property>-<carrier>-<name>.diff, applied to a scratch copy of /repo outside /repo and /verif, removed afterwards) must
make the named property's check exit 1 with a VIOLATION of a PROOF obligation (not only of the bounded stand-in)."""
import glob
import os
import shutil
import subprocess
import sys
import tempfile
from concurrent.futures import ThreadPoolExecutor

HERE = os.path.dirname(os.path.dirname(os.path.abspath(__file__)))


def one(path):
    name = os.path.basename(path)[:-5]
    prop = name.split('-')[0]
    d = tempfile.mkdtemp(prefix='pfst-selftest.')
    try:
        shutil.copytree('/repo/src', os.path.join(d, 'repo', 'src'))
        subprocess.run('git init -q . && git add -A >/dev/null && git -c user.email=a@b -c user.name=x commit -qm base',
                       shell=True, cwd=os.path.join(d, 'repo'), capture_output=True)
        p = subprocess.run(['git', 'apply', path], cwd=os.path.join(d, 'repo'), capture_output=True, text=True)
        if p.returncode:
            return name, 'APPLY-FAILED', p.stderr[-200:]
        env = dict(os.environ, PFST_REPO=os.path.join(d, 'repo'), PYVC_OUTDIR=os.path.join(d, 'out'), PYVC_JOBS='4',
                   PYVC_ONLY_PROOF='1')
        os.makedirs(os.path.join(d, 'out'))
        r = subprocess.run([os.path.join(HERE, 'check'), prop, '--tier', 'quick'], capture_output=True, text=True, env=env)
        viol = [l for l in r.stdout.splitlines() if l.startswith('VIOLATION')]
        proof_viol = [l for l in viol if '.B.' not in l]
        status = 'KILLED' if r.returncode == 1 and proof_viol else ('KILLED-BOUNDED-ONLY' if r.returncode == 1 else
                                                                    f'SURVIVED(exit={r.returncode})')
        return name, status, (proof_viol or viol or [''])[0][-150:]
    finally:
        shutil.rmtree(d, ignore_errors=True)


def main(tier):
    diffs = sorted(glob.glob(os.path.join(HERE, 'selftest', '*.diff')))
    with ThreadPoolExecutor(4) as ex:
        res = list(ex.map(one, diffs))
    killed = sum(1 for _, s, _ in res if s == 'KILLED')
    for n, s, l in res:
        print(f'{s:22} {n}  {l}')
    print(f'selftest: {killed}/{len(res)} mutants killed by a proof obligation')
    return 0 if killed == len(res) else 1
