x = a if(b)else c
y = not(b) + 1
z = not( b )if c else d
w = [i for i in(j)if(i)]
v = not(
    b
)if c else d
u = (a)if(b)else(c)
t = lambda:(a)
s = [(a)for(a)in(b)]
é = not(é) + 1
r = a in(b) and(c)not in d
q = (yield(a))
async def f():
    return await(a)
p = 1 if(a)else 2 if(b)else 3
