a = 1  # default root is C:\
b = 2
c = 3  # ends with backslash \
d = 4
del cfg.colors.table["#fg"], e, f
del g, h.i.j("#1")[0]
assert k, l["#m"]
if n:
    o
elif p:
    q = """multi
    line
  string"""
    '''doc-like
       text'''
if r:
    s
elif t:
    u = 1
else:
    v = '''x
y'''
w = {1: "#not a comment",
     2: 3}
print("#", x); y = "z#"  # real comment
