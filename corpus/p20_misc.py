raise
raise E
raise E from F
return_ = None
pass
...
x = yield_
def g():
    x = yield
    y = yield 1, 2
    z = yield from other()
    await_ = 1
print(*a)
print(**k)
f(x for x in y)
f((x for x in y), 1)
a = b = c = d
a: (int) = (1)
(a) = 1
a = *b, c
[a, *b] = c
for a, b in c: pass
for (a, b) in c: pass
