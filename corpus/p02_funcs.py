@decorator
@other.deco(1, k=2)
def func(a, b: int = 1, /, c=2, *args, d, e: str = 'x', **kwargs) -> int:
    """Docstring of func.

    More text.
    """
    global g
    nonlocal_ = 1
    if a:
        return b
    elif c:
        return c  # comment
    else:
        pass
    return a if b else c


async def coro(x):
    async with ctx() as c, other:
        await c.run()
    async for i in aiter(x):
        yield i
    return [y async for y in x]


class Cls(Base, metaclass=Meta):
    """Class doc."""

    attr: int = 0

    def method(self):
        return self.attr

    @property
    def prop(self): return 1
