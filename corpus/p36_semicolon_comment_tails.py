# last statement of a block ending in a semicolon and a line comment, blocks without else / finally
if a:
    b = 2;  # note b
for x in y:
    c = 3;  # note c
while z:
    d = 4;  # note d
    break
try:
    e = 5;  # note e
except E:
    f = 6;  # note f


def g():
    if a:
        h = 7; i = 8;  # two and a note
    return h
