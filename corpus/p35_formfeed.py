# form feed (\x0c) used as whitespace inside code lines
x = (a)
y = a + b
z = [i for i in (j)]
with (a): pass
w = f(a, b)
