x = [aa,
     "ééé", bb]
"üé"; y = (1,
 2)
t = a, \
"éé", b # c
def f(é, ü="ñ"):  # кириллица
    return é if ü else "日本"; z = 3
if "é": p = 1; q = 2
else: "ü"; r = 3
