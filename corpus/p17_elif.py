if a:
    b
elif c:
    d
elif e:
    f
else:
    g

if h:
    i
else:
    if j:
        k
