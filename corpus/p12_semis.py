a = 1; b = 2; c = 3
if x: a; b
else: c
def f(): return 1
class C: x = 1; y = 2
for i in j: k; l
while 1: break
try: a
except: b
finally: c
with a: b
