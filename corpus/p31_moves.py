class K:
    """Class doc.

    More.
    """

    def m(self, item):
        b"""bytes
          literal
        """
        if item:
            """not a docstring
               but multiline
            """
            x = '''assigned
  multiline'''
            return item, \
                other, \
                more
        for q in a, \
                b:
            pass
        return item


def top(u):
    t = u, \
        v
    del t, \
        u
    with a as b, \
            c as d:
        r'''raw
        text'''
    return t
