try:
    a()
except* ValueError as e:
    b(e)
except* (TypeError, KeyError):
    c()

try:
    d
except E as err:
    pass

def sig(a, b=1, *, c, d=2, **kw): pass
def sig2(p, /, q, *args, r): pass
lam = lambda x, *, y=1: x
with a as b: pass
for i in j: pass
x: int
raise A from B
assert t, m
