# parenthesised annotated-assignment targets, global / nonlocal statements with non-ASCII names
(x): int = 1
(y): str


def f():
    global é, a, b
    é = a + b

    def g():
        nonlocal ü, v
        return ü
    ü = v = 1
    return g
