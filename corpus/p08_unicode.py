naïve = 'héllo wörld'
π = 3.14; τ = 2 * π
def ƒ(ä, ö='ü'):
    return ä + ö  # kömment
s = "日本語" + f"{naïve}é" ; t = ["é", 'ñ',
   "ü"]
class Ñ: x = 'ß'
