@a
@b(c)
@d.e
class K(
    Base1,
    Base2,
    kw=1,
):
    x: int
    @staticmethod
    def s(): ...
    @classmethod
    async def c(cls): ...
