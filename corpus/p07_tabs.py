if a:
	b = 1
	if c:
		d = [1,
		     2]
	else:
		e = 2
