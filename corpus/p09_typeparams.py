type Alias[T: int, *Ts, **P] = Callable[P, tuple[T, *Ts]]
def generic[T](x: T) -> T: return x
class Box[T]:
    item: T
