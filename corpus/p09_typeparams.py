type Alias[T: int, *Ts, **P] = Callable[P, tuple[T, *Ts]]
def generic[T](x: T) -> T: return x
class Box[T]:
    item: T
@a
@b(c)
def g2[T, *Ts](x: T) -> T: return x
@d
@e
@f.g
async def g3[**P](): pass
@h
@i
class K2[T](Base): pass
