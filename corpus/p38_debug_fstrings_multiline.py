# self-documenting f-string fields that span lines: conversion / spec on another line than the `=`, comment lines
total = 1
a = f'''{total = !r
}'''
b = f"""{total =  # running total
    # (after tax)
}"""
c = f'''{total =
    !s:>{
    10}}'''
d = f"""{
    total + 1  # expression comment
    = }"""
