def f1(a, /): pass
def f2(a, /, b): pass
def f3(*, a): pass
def f4(a, *, b=1, c): pass
def f5(*a, **b): pass
def f6(a=1, /, b=2, *c, d=3, e, **f): pass
l1 = lambda: 0
l2 = lambda *a, **k: (a, k)
l3 = lambda a, /, b, *, c: a
call(a, *b, c, *d, e=1, **f)
call(a, e=1, *b, f=2, **g, **h)
class X(A, *B, m=1, **k): pass
