# comments between an element and its own grouping parentheses
x = (  # important
    a
)
y = [
    (  # inner
        b
    ),  # after b
    c,
]
z = f(
    (
        # own line inside
        d
    ),
    e,
)
w = (a +  # inside a binop's own pars
     b) * c
