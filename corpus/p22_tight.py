v = [(a +
      b)for a in c]
w = (1 if(a or
          b)else 2)
x = a if(b)else c
y = (a)or(b)
z = [(q)for(q)in(r)if(s)]
t = a*(b+c)*d
u = f(k=1, *a, *b, *c)
u2 = f(*a, k=1, *b, x=2, y=3, z=4)
u3 = f(x, k=1, *[
    a,
], v=2)
s = (a,)
e = -(-a)
n = not(a)
