# identifiers whose source spelling is not NFKC-normalised (the AST holds the normalised name: 'ﬁx' -> 'fix')
import ﬁm as ﬁa
from ﬁp import ﬁq as ﬁr


def ﬁf(ﬁx, *ﬁv, ﬁk=1, **ﬁw):
    global ﬁg
    ﬁx.ﬁattr = ﬁg
    try:
        pass
    except E as ﬁe:
        pass
    match ﬁx:
        case {1: a, **ﬁrest}:
            pass
        case [a, *ﬁstar] as ﬁwhole:
            pass
        case C(ﬁkw=1):
            pass
    return ﬁf(ﬁkey=2)


class ﬁC[ﬁT]:
    pass
