def gen[T, U: (int, str)](a, b):
    return a


def gen2[K, V: tuple[(int), str]](key: K = (1), /, *, val: V):
    return key


def posonly(a, /):
    return a


only = lambda x, /: x


@deco
class Inter[T](k=v, *b):
    pass


class Inter2(a, k=v, *b, j=w, **kw):
    x = 1


@deco(1)
@other
class Inter3[A, B: (int, (str))](*b, k=v):
    def m[Q, R: (int, str)](self, x):
        return x


try:
    risky()
finally:
    cleanup()

try :
    risky()
finally :
    cleanup()

call(k=v, *a, j=w)
call2(*a, k=v, *b, **kw)


async def af():
    async with (a, b):
        pass
    async with a, b as c:
        pass
    async for i in (x, y):
        pass
