# header

# block before a
# second line
a = 1  # line comment a

# before b

b = 2
# after b


def f():
    # first in body
    c = 3  # c
    # middle

    d = 4
    # last in body

# trailing at module
e = [
    # inside list
    1,
    # between
    2,
]
