import a
import a.b.c as d, e
from x import y
from x import (y, z as w)
from .. import up
from .rel.mod import *
global_var = 1
def f():
    global global_var, other
    def g():
        nonlocal local1
    local1 = 2
