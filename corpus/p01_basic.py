import os, sys as system
from a.b import (c as d,
                 e)
from . import rel

x = 1
y: int = 2
z : 'str'
x += y * (3 - z) // 4
a, (b, c) = [1, (2, 3)]
del a, b
assert x, "msg"
print(x, y, sep='', *args, **kw)
lst = [1, 2,
       3]  # trailing comment
dct = {'a': 1, **other, 'b': [x for x in y if x]}
st = {1, 2, 3}
tup = 1, 2, 3
emp = ()
s = 'abc' "def"
global_ = lambda a, b=1, *c, d, e=2, **f: a + b
