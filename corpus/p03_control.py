for i in range(10):
    if i % 2: continue
    else: break
else:
    done = True

while cond and not other or third:
    x = y = z
    cond -= 1
else:
    pass

try:
    risky()
except ValueError as e:
    handle(e)
except (TypeError, KeyError):
    raise
except Exception:
    raise RuntimeError('x') from None
else:
    ok()
finally:
    cleanup()

with open(f) as fh, \
     open(g) as gh:
    data = fh.read() + gh.read()

with (a as b, c as d):
    pass
