def outer():
    def inner():
        return 1

    class K:
        def m(self):
            try:
                pass
            finally:
                pass
    if a:
        if b:
            c
        elif d:
            e
        else:
            f
    else:
        if g:
            h
    for x in y:
        with z:
            while w:
                break
    return inner
