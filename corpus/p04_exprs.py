r = a + b * c ** -d
r = (a + b) * c
r = a if b else (c if d else e)
r = not a and b or c
r = a < b <= c != d is not e in f
r = a | b ^ c & d << e >> f
r = f(x)(y)[z].w
r = a[1:2, ::3, ...]
r = a[b][c:d]
r = (yield)
r = (z := 5) + z
r = [*a, *b]
r = {**a, 'k': v}
r = f(*a, k=1, *b, **c)
r = -x ** 2
r = (a,)
r = ((a))
r = a.b.c.d
r = 1 .real
r = x @ y
r = f"a{b}c{d!r:>{w}}e"
r = f'{x=}' f"{y + 1}"
r = b'bytes' + 1j + 1.5 + 0x10 + None + True + ...
r = lambda: (yield)
r = [i for i in range(3) for j in range(i) if i if j]
r = {k: v for k, v in items}
r = (x for x in y)
r = await_ + (await z if False else 0) if 0 else 1
