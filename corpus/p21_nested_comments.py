class A:
    def f(self):
        if x:
            pass  # c
    def g(self):
        for i in j:
            while k:
                y = 1  # inner


def deco(fn):
    @functools.wraps(fn)
    def wrapper(*a, **k):
        return fn(*a, **k)
    return wrapper
