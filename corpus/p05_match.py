match command.split():
    case [action]:
        pass
    case [action, obj]:
        pass
    case Point(x=0, y=0) | Point(0, 0):
        print("Origin")
    case {'k': v, **rest}:
        pass
    case [1, 2, *others] if others:
        pass
    case (a, b) as pair:
        pass
    case 'str' | b'by' | -1 | 1 + 2j | None | True:
        pass
    case mod.CONST:
        pass
    case _:
        pass
