def f():
    if a:
        """not a
        docstring"""
        x = 1
    for i in j:
        '''also
           multi'''
    with k:
        r"""raw
  string"""
        y = 2
    class C:
        """class
        doc"""
        z = '''val
ue'''
