# leading comment

x = (  # open
    1 +  # one
    2    # two
)  # close


def f(
    a,  # first
    b=2,

    *args,
    **kw
):
    # body comment
    r = a \
        + b
    return (r
            )


if x: y = 1; z = 2  # two on a line
call(
    arg1,
    key=val,
)
d = {
    'k': 1,  # c1
    'j': 2,
}
class C: pass
v = [
    [1, 2],
    [3, 4],
]
