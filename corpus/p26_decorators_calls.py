@first(a, b)
@second
@third.x(
    1,
)
def fn(): pass

@one
@two(k=1)
class Cl(B, *C, m=1, **kw): pass

r = call(a, b=c, *d)
r2 = call(a, b=c, *d, e=f, **g)
class D(a, b=c, *d): pass
