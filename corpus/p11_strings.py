def f():
    """Doc
    string"""
    x = '''multi
line'''
    y = f"""a{
        b
    }c"""
    return "a" \
           "b"
z = ("implicit"
     "concat")
