# decorators with trailing comments, multi-line sole generator arguments, starred arguments after keywords on a later
# line at a smaller column, lists that start with None in the AST (kw_defaults, Dict.keys)
@first
@second(1, 2)  # keep me
def f(*, a, b=1, c, d=(2, 3)):
    return a


@only  # about only
class K(base, meta=M,
   *rest):
    pass


r = total(x * x
          for x in data)
r = any(v
        for v in vals
        if v)
r = call(a, kw=1,
     *b)
r = call(a, kw=1, other=2,
  *b, **c)
r = {**spread, key: value, **more}
r = [x for x in y
     if a  # about a
     if b  # about b
     ]
