r = a < b
r = a < b > c
r = a is b is not c
r = a in b not in c
r = a and b and c
r = a or b and c or d
r = not (a or b)
r = (a and b) or (c and d)
r = a == (b != c)
