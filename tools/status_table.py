#!/usr/bin/env python3
"""Print the per-property status table of DESIGN.md section 0 from /verif/evidence/*.json and MANIFEST.json (run by
hand after `./check all`; nothing is written)."""
import glob
import json
import os

HERE = os.path.dirname(os.path.dirname(os.path.abspath(__file__)))
man = {c['property_id']: c for c in json.load(open(os.path.join(HERE, 'MANIFEST.json')))['checks']}
known = json.load(open(os.path.join(HERE, 'known_findings.json')))['findings']
print('| id | level | functions under contract | obligations discharged (route) | solver s | bounded evaluations | findings |')
print('|---|---|---|---|---|---|---|')
for p in sorted(glob.glob(os.path.join(HERE, 'evidence', 'C*.json'))):
    e = json.load(open(p))
    pid = e['property_id']
    c = e['coverage']
    fns = sorted({f['function'].split(':')[1] for f in c.get('functions_under_contract', [])})
    fn_s = f'{len(fns)}: ' + ', '.join(fns[:7]) + (' ...' if len(fns) > 7 else '') if fns else '-'
    routes = ', '.join(f'{k} {v}' for k, v in sorted(c.get('by_route', {}).items())) or '-'
    be = {k: v for k, v in c.get('by_backend', {}).items() if k in ('z3', 'cvc5', 'eval', 'simplify')}
    if be:
        routes += '; smt decided by ' + ', '.join(f'{k} {v}' for k, v in sorted(be.items()))
    fk = [f for f in known if f['property'] == pid]
    fs = ', '.join(f"{f['id']} {'fixed ' + f.get('commit', '') if f['status'] == 'fixed' else 'known'}" for f in fk) or '-'
    print(f"| {pid} | {man[pid]['level_claimed']['category']} | {fn_s} | {c.get('discharged', 0)}/{c.get('obligations', 0)} ({routes}) | "
          f"{c.get('solver_s', 0)} | {c.get('evaluations', 0)} | {fs} |")
