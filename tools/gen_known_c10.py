#!/usr/bin/env python3
"""Run the deterministic C10 raw sweep (both tiers) on the UNCHANGED tree and list every failing input, by exact key,
under the three C10 findings of known_findings.json.  Run by hand after triage; the checks never write that file."""
import json
import os
import subprocess
import sys

HERE = os.path.dirname(os.path.dirname(os.path.abspath(__file__)))
sys.path.insert(0, HERE)
from pyvc import native  # noqa: E402

XR = " Also listed here (program names xroot_expr_*): the same three kinds of failure for roots that are expressions (FST(src, 'expr')), where the partial reparse along the path from the root assumes that the structure outside the edited node is unchanged: 'a + b * c' with 'b' replaced by 'b + 1' keeps the old shape, '[a, b].c' with '.c' replaced by ' = 1' is accepted although the text is no longer an expression, valid new expressions are refused."

CLASSES = {
    'tree': ('F-C10-1', 'F-C10-1 put_src(action="reparse") / raw puts succeed with the requested source but the tree differs '
             'from a from-scratch parse of it (enclosing blocks\' end positions after a comment or deletion at the end '
             'of a block\'s last line; statements merged/split by the edit such as else->elsex, elif->if; edits at '
             'column 0 / across a block header). Each listed key is one failing (program, rectangle, text).' + XR),
    'accepted_invalid': ('F-C10-2', 'F-C10-2 put_src(action="reparse") succeeds although the new whole source is not valid '
                         'Python (the reparsed statement is valid in isolation, e.g. "if x: if z:\\n y = 1"; also a raw put with to= that '
                         'spans statements, e.g. from the test of "if a:" to a value in a later statement -> "if zz").' + XR),
    'refused_valid': ('F-C10-3', 'F-C10-3 put_src(action="reparse") / raw put raises although the new whole source is valid '
                      'Python (e.g. commenting out the last statement of a block body that has other statements, '
                      'deleting the el of elif, "while a: b" -> "a: b").' + XR),
}


def main():
    keys = {c: set() for c in CLASSES}
    other = []
    for tier in ('quick', 'thorough'):
        r = native.run('b_raw', 'main_all_failures', {'props': ['C10'], 'tier': tier, 'seed': 0,
                                                      'ops': ['reparse', 'rawput']}, timeout=7200)
        for f in r:
            kind = f['key'].rsplit(':', 1)[-1]
            if kind in keys:
                keys[kind].add(f['key'])
            else:
                other.append(f['key'])
        print(tier, {k: len(v) for k, v in keys.items()}, 'other', len(other))
    p = os.path.join(HERE, 'known_findings.json')
    k = json.load(open(p))
    k['findings'] = [f for f in k['findings'] if not str(f.get('id', '')).startswith('F-C10-')]
    for kind, (fid, what) in CLASSES.items():
        k['findings'].append({'property': 'C10', 'status': 'known', 'id': fid, 'what': what,
                              'keys': sorted(keys[kind])})
    json.dump(k, open(p, 'w'), indent=1)
    print('other (NOT listed, must be triaged):', other[:20])


if __name__ == '__main__':
    main()
