#!/usr/bin/env python3
"""Regenerate /verif/MANIFEST.json from the table below (kept valid at all times; run after adding a check)."""
import json
import os

HERE = os.path.dirname(os.path.dirname(os.path.abspath(__file__)))

TB = ('Trusted: the pyvc VC generator (engine cross-checked by native replay of every counter-model and by the '
      'mutation self-test), z3/cvc5 unsat answers, Python semantics listed in DESIGN 2.2, rope axioms, no termination '
      'proof. ')

BND = (' Bounded stand-in (labelled bounded in evidence, never counted as proved): runtime postconditions on the real '
       'public API over every node of the 38 corpus programs x the operation table, CPython ast.parse + own '
       'comparator as oracle.')

CHECKS = {
    'C01': dict(
        category='proof',
        text='Proof of the kernel fragment every structured edit is built on: _put_src equals the uniform text splice '
             'for all line lists, _params_offset/_offset shift every position after the spliced span by exactly the '
             'size of the change (same obligations as C11); _offset_lns moves every node by the delta of its line; the '
             're-indentation kernel _indent_lns/_dedent_lns/_redent_lns (loop invariants, any number of lines) hands '
             '_offset_lns for every line exactly the column shift of its text, removes leading blanks only and leaves '
             'other lines alone. The property itself (parse(src) == live tree after every edit) is decided only within '
             'the bounded stand-in: ~70k single-step edits (replace / remove / cut / slices incl. irregular multi-line '
             'donors / views / virtual and optional fields / accessors / move and copy between blocks) and seeded edit '
             'sequences, each followed by ast.parse + an own tree comparator (types, fields, contexts, positions).'
             ' Also registered here: the byte/character unit discipline of all 535 sites that write a column into the AST (structural), the flush obligation of the non-offsetting splices, the pars memo slots.',
        note=TB + BND + ' Undecided remainder: that each of the ~300 handlers picks the right rectangle/text/AST. '
             'Findings: F-C01-1 known, F-C01-2 and F-C01-3 fixed (known_findings.json). Indentation strings assumed ASCII.',
        technique='contract-based deductive verification of the splice/shift kernel (z3) + bounded runtime contracts '
                  'on every public edit entry point with CPython as oracle',
        ref='DESIGN.md section 4 C01'),
    'C02': dict(
        category='proof',
        text='Proof of the cache discipline fragment: _touch empties the node cache; _touchall flushes every proper '
             'ancestor for parent chains of ANY length (loop invariant) and self iff asked, and nothing else; FST.loc and '
             'FST.bloc return a cached answer untouched and otherwise store exactly what they computed under their own '
             'key (loc == CPython extent through b2c); FST.pars selects cache slot parsT/parsF/parsN by its sharing mode '
             'and answers only from that slot; FST.own_lines keys its memo by the RESOLVED docstr value; the byte-coordinate '
             'accessors are c2b of loc; link maintenance: the FST constructor (child branch), _set_field (single field; list '
             'field of any length with a loop invariant), _set_ast and the per-parent body of _make_fst_tree establish '
             'a.f / f.a / parent / pfield exactly (indices included), disconnect the previous owner, replace shared '
             'ctx/op singletons by unique instances and flush the node. "No stale answer after any '
             'edit" itself is bounded: after every successful edit of the sweep every query on every node must equal '
             'the answer on FST(root.src), with every cache populated before the edit (par()/unpar() included; two unpar '
             'defects found this way are fixed in /repo: F-C02-1, F-C02-2).',
        note=TB + BND + ' Undecided remainder: flush-on-write at the ~60 position-writing sites, the work lists of '
             '_make_fst_tree/_unmake_fst_tree/_touchall(children) as a whole.',
        technique='contract-based deductive verification of cache/flush primitives (symbolic heap, loop invariant, z3) '
                  '+ bounded runtime contracts (query-by-query comparison with a fresh tree)',
        ref='DESIGN.md section 4 C02'),
    'C04': dict(
        category='proof',
        text='Proof of the frame of the text kernel: every structured edit changes text only through _put_src, and '
             '_put_src is proved (for all line lists, rectangles and put lines) to leave every line before the span '
             'and after it untouched and in order, to keep the prefix of the first and the suffix of the last touched '
             'line, and to change the line count by exactly the difference; the re-indentation kernel (_indent_lns / '
             '_dedent_lns / _redent_lns, loop invariants) changes only lines of the given set and only their leading '
             'blanks. Which rectangle a handler chooses (the '
             'element, its separator, the trivia the option selects) is bounded: token-level frame check - '
             'identifiers, literals and comments outside the element unchanged and in order, with trivia=() and the '
             'default - over statement and expression nodes of the corpus x {remove, 4 donors, own copy, two-line slice}; '
             'leading_trivia exhaustively over every string of <= 5 (thorough 7) lines of line classes {blank, comment, '
             'continuation, code} x every mode x space setting: never selects a code line, respects mode and limit.'
             ' Added: the per-node _offset contract and the flush obligation of non-offsetting splices are registered here too (a SEQUENCE of edits keeps its frame only if positions are right after each edit); bounded two-step sequences on the live tree, insertion into empty else/finally, comments inside an element\'s own parentheses (F-C04-1 known).',
        note=TB + BND + ' Undecided remainder: trivia selection and separator repair (bounded only).',
        technique='contract-based deductive verification of the splice frame (z3, ropes/piecewise lists) + bounded '
                  'token-level frame contracts on the public API',
        ref='DESIGN.md section 4 C04'),
    'C05': dict(
        category='proof',
        text='Proof of the wrapper discipline of the extended parse modes: for each of the ~80 wrapper call sites of '
             'parsex.py the literal prefix before {src} ends with a newline (the fragment starts in column 0 of its own '
             'line, so its columns are unchanged for EVERY src, multi-byte text included) and the number of prefix '
             'newlines equals minus the delta of _offset_linenos in that function (structural obligations over the '
             'current source); _offset_linenos shifts exactly lineno/end_lineno of positioned nodes (symbolic). That '
             'the wrappers accept exactly the valid fragments and equal CPython\'s sub-tree is bounded: corpus / stdlib '
             'fragments and an embedding-oracle fragment table per mode.'
             ' Added: escape guards - each of the 11 wrapper parsers whose wrapper can be closed early by the fragment tests the wrapper\'s tell-tale (call func still a Name, no return annotation, no case guard, subscript value still a Name) before returning (structural); bounded block-fragment position family. F-C05-1 fixed.',
        note=TB + 'Structural route: obligations are properties of the program text, listed separately in evidence '
             '(by_route.structural). ' + BND,
        technique='contract-based verification: structural (all-inputs) obligations on the parse wrappers + symbolic '
                  'proof of _offset_linenos + bounded embedding-oracle contracts with CPython as oracle',
        ref='DESIGN.md section 4 C05'),
    'C06': dict(
        category='proof',
        text='Proof (with loop invariants, for ALL strings: per-character UTF-8 widths are abstract, 1..4 bytes) that '
             'bistr.c2b(idx) is the byte length of self[:idx], that b2c(c2b(s)) == s, that the ASCII fast path is the '
             'identity, that the index tables have length len+1 and the stated content, that every value stored in a '
             'fixed-width array.array fits the typecode chosen by _make_array (the only machine-width arithmetic in '
             'the library), the memo rebinding protocol, pars() answering each of its three modes from its own memo slot '
             'and the byte-coordinate accessors being c2b of loc; _loc_arguments (function definitions, any number of type '
             'parameters) searches its delimiters in exactly the windows that make the result the text between them. '
             'This is the fragment behind "character- and byte-based '
             'coordinates agree". Everything else of C06 is bounded: .loc vs CPython extents, token boundaries, '
             'operators, pars(), nesting, siblings, find_* vs brute force (thorough: standard library). Known findings '
             'F-C06-1/2.'
             ' Added: unit discipline over 535 column-writing sites incl. constructor keywords, byte-style names of locals no longer trusted; find_loc composition law; view locations. F-C06-3 fixed.',
        note=TB + 'Assumes no string is longer than sys.maxsize bytes. ' + BND + ' Undecided remainder: text scanners '
             'behind computed locations, b2c off character boundaries.',
        technique='contract-based deductive verification with inductive loop invariants (z3, abstract strings) + '
                  'bounded runtime contracts on location queries with tokenize / CPython positions as oracle',
        ref='DESIGN.md section 4 C06'),
    'C07': dict(
        category='proof',
        text='Proof of fragment (structural, all paths): in 46 get handlers and helpers (the entries of _GET_SLICE_HANDLERS '
             '/ _GET_ONE_HANDLERS, _get_slice, _get_one, _cut_or_copy_asts*, get_slice_nosep) every statement that may '
             'write something reachable from the SOURCE tree - a store or delete through a source name, a (transitive, '
             'by-name) mutator called on a source receiver - is guarded by `cut` being true on every path, or is a '
             'delegation to a cut-aware helper that is handed the same `cut`: with cut false (copy, get, get_slice) '
             'these functions do not write the tree they read. 8 handlers that mutate the source temporarily and '
             'restore it are not registered (listed in evidence). Faithfulness of the piece, token conservation and the '
             'copy frame of everything else are bounded: copy()/get_slice() of every node and of sampled windows of '
             'every list field leave source and tree (with positions) identical, the piece parses standalone under '
             'CPython to its own tree and is structurally equal to the original sub-tree; cut == (copy, delete) on '
             'separate fresh trees; with norm=False and norm=True, docstr strict/False.'
             ' Added: contract on copy_ast (new node, every AST child / list element replaced by ITS copy, new lists, source not written; recursion by contract; list shapes enumerated to length 3 + element-wise comprehension obligation); the token/comment conservation clause for element cuts, slice cuts and cuts from extracted slices (missing until round 3; F-C07-1, F-C07-2 known).',
        note='Structural route: the mutator set is computed by name over src/fst (over-approximation); receivers are '
             'classified by name (self, ast, body, root, ... and locals bound to their parts). ' + BND,
        technique='contract-based verification: structural all-paths frame obligation (mutations of the source only '
                  'under cut) + bounded runtime contracts (frame + faithfulness postconditions) on the real API',
        ref='DESIGN.md section 4 C07'),
    'C08': dict(
        category='proof',
        text='Proof of three small fragments, the round-trip law itself is bounded. (1) the primitive-constant accessor '
             '(_put_one_constant with code_as_constant, 26 values x 2 parents, interpreted): the text spliced denotes, for '
             'CPython, a Constant of the same type and value as the one stored - or the put is refused with nothing written; '
             '(2) the comment accessor flushes the parents right after its non-offsetting splice (structural); (3) finite: '
             'the docstring encoder repr_str_multiline is the inverse of CPython\'s '
             'string-literal decoder for every Unicode code point in 3 (thorough 8) quote / backslash contexts '
             '(exhaustive) and for every string of length <= 6 (thorough 7) over {", \', backslash, newline, a, NUL, '
             'e-acute} - this is the accessor read-back law for docstrings. Everything else is bounded: replacing every '
             'node by its own copy / own source / own pure AST, cutting every slice window of every list field and '
             'putting it back, writing docstrings (21 texts) and line comments and reading them back, and - after a '
             'comment was written, with all caches populated - cutting and restoring the enclosing block, must leave the '
             'structure unchanged; evaluated on every node of the corpus. The round-trip law itself is defined by the '
             'parser and by source manipulation outside the verifier\'s reach.'
             ' Added: primitive Constant values through the accessor (F-C08-3, F-C08-4, F-C08-6 fixed; F-C08-1, F-C08-2, F-C08-5, F-C08-7 known), identifier lists and cut-and-put-back in the slice round trip, sweeps under docstr=\'strict\' / False.',
        note='Bounded runtime contracts (default options, norm=False). Oracle: ast.dump structural equality (multi-line '
             'string statements up to their documented re-indentation) and ast.parse. Only the encoder round trip is '
             'decided exhaustively.',
        technique='finite-domain evaluation of the docstring encoder against CPython\'s decoder + bounded runtime '
                  'contracts (round-trip postconditions) on the real API',
        ref='DESIGN.md section 4 C08'),
    'C12': dict(
        category='proof',
        text='Proof of the modification-registry protocol: _Modifying.enter/success/fail/__exit__ on the process-'
             'global _MODIFYING (identity-keyed dict, symbolic depth): fresh/nested/reject cases, release restores '
             'the registry exactly, a rejected enter leaves it unchanged, __exit__ releases exactly once and never '
             'swallows the exception, other roots\' entries are never touched; every _modifying() site is a with-statement '
             'or an enter()/success()/fail() triple (structural); for 33 put handlers and the raw reparse path every '
             'validation / coercion / index fix-up precedes the first possibly-mutating call on every path (structural, '
             'transitive by-name mutator set). Atomicity of the remaining handlers (tree unchanged after a raise, next '
             'edit works) is bounded: every refused edit of the sweeps, incl. every invalid option value on statement '
             'and expression targets, is followed by src/dump/registry comparison and a further valid edit.'
             ' Added: handler order analysis treats locals bound to parts of the target as receivers; callee contract \'raises only without del_comments\' for _maybe_add_line_continuations (both sides); root branch of FST.replace (refusals leave lines and AST link alone, _set_ast gets a live AST once inside the context); bounded refusal family (cut + args_as, consumed / non-root / own-root code, root target). F-C12-2, F-C12-3 fixed.',
        note=TB + BND + ' Undecided remainder: handlers for which no order obligation could be generated (listed in evidence) and raise '
             'sites inside mutating helpers (bounded only).',
        technique='contract-based deductive verification of the registry protocol (symbolic heap, z3) + bounded '
                  'failure-atomicity contracts on the public API',
        ref='DESIGN.md section 4 C12'),
    'C14': dict(
        category='proof',
        text='Proof, for ALL field lengths, that the generated sibling-stepping functions of traverse_next.py and '
             'traverse_prev.py (resolved through the NEXT_FUNCS / PREV_FUNCS dict literals; ~400 entries of 80 node '
             'classes) return exactly the next / previous child in syntactic order: lists are symbolic, optional '
             'fields fork, the specification is an ORDER table written from the grammar and validated against CPython '
             'positions on every run; Dict / MatchMapping / Compare / arguments by a rank-order specification; the '
             'syntax_ordered_children table entries against ORDER; the two copies of the `all` node filter '
             '(_check_all_param for stepping, _all_param_func for walk) agree with each other and with the documented '
             'rule at every point of their finite domain (every AST class x argument emptiness x kind of all); the '
             'position-merging step functions of Call and ClassDef (positional / starred elements interleaved with '
             'keywords by source position, 20 functions with linear-search loops) return the neighbour in syntactic '
             'order for ALL list lengths and positions - the loops are summarised exactly by a search-loop rule whose '
             'side conditions are checked on the real loop body, under stated well-formedness assumptions (lists sorted '
             'by position, distinct positions, non-starred positionals precede keywords). The walk generator is '
             'bounded (one iteration of its enter loop is proved under C15): walk modes, chains, step_*, paths on the '
             'corpus and on every argument-like sequence CPython accepts up to length 4 (thorough 5; thorough also '
             'standard library). Known finding F-C14-1 (Module.type_ignores).'
             ' Added: the six stack builders of the scope walk (_ScopeContext.create, stack_funcdef, stack_ClassDef, stack_Lambda, stack_arguments, stack_comprehension): forward pops in text order, back pops the exact mirror, node lists not modified (shape-enumerated, native replay on real scope walks); bounded scope-order and mirror laws. F-C14-2, F-C14-3 fixed.',
        note=TB + 'ORDER table is trusted only as far as its per-run validation against CPython on the corpus goes. '
             + BND,
        technique='contract-based deductive verification of generated code (symbolic lists, z3) against a '
                  'grammar-order specification validated by CPython + bounded runtime contracts on traversal APIs',
        ref='DESIGN.md section 4 C14'),
    'C15': dict(
        category='proof',
        text='Proof of fragment: one iteration of each of the three work-list loops of walk (on="enter", "leave", "both"; '
             'selected structurally from the real source) is executed symbolically for an arbitrary stack top (an AST '
             'to enter - None, dead or live - or, in leave/both mode, the FST of a node to leave) with the heap '
             'havocked at every yield - the '
             'consumer may leave, replace or delete the node it was given and send() up to twice: a dead stack entry '
             'yields nothing; what is yielded is the .f just read from the popped AST; after a suspension children and '
             'scope helpers are computed from the re-read .a, a deleted node is not walked, send(False) suppresses and '
             'send(True) forces the walk of the children (by delegation to an unconditional nested walk when this walk '
             'is restricted), children are pushed in the order the direction needs; in leave/both mode a node deleted '
             'while its children were processed is never yielded, every entered node is queued for its leaving event, '
             'send(True) on leaving re-queues the node with its CURRENT children (40k path obligations). The whole-'
             'history part (termination, no node twice, the first-node prefix, scope helpers) is bounded: 12 small programs '
             'x on x back x every step x 9 mutation actions x send in {None, True, False}, plus search() under '
             'mutation; final tree satisfies C01.'
             ' Added: what _set_field / _set_ast unmake (link kernel) and the cover obligation \'every deletion of AST nodes from a field list in the put modules is preceded by _unmake_fst_tree of exactly that slice\' (10 sites); the asts= set-up of walk (work list is a new list, caller\'s list untouched); bounded slice deletions during a walk, walks over live field lists, and a sweep that no node an edit took out of the tree stays linked.',
        note=TB + 'Consumer model stated in evidence (assumptions). Liveness / termination over arbitrary '
             'interleavings is outside the technique.',
        technique='contract-based deductive verification of the generator between suspension points (symbolic heap '
                  'havocked at yield, z3) + bounded runtime contracts (liveness / duplication monitor) on walk() '
                  'under mutation',
        ref='DESIGN.md section 4 C15'),
    'C16': dict(
        category='proof',
        text='Bounded: for every module / function / lambda / class scope of 25 scope programs (nested scopes, '
             'global/nonlocal, imports, augmented assignment, deletion, except and pattern captures, decorators, '
             'defaults, annotations, comprehensions incl. first iterables, walrus) the Name/arg nodes yielded by '
             'walk(scope=True) equal the language reference\'s scope membership, and scope_symbols(full=True) names '
             'and global/nonlocal/local/free classification equal symtable (PEP 709 adjustment stated in the oracle). '
             'Three genuine defects are listed as known findings (F-C16-1..3).'
             ' Proof of fragment (added in round 4): the stack builders of the scope walk enter exactly the children of a nested def / class / lambda / comprehension that belong to the walked scope (decorators, defaults, annotations, bases and keywords in text order, type parameter bounds, first iterable excluded ...), forward and mirrored (shape-enumerated interpretation of the real code, 899 obligations). Bounded additions: scope walk while the yielded node is replaced by a scope-opening node; F-C16-4 known.',
        note='The specification of scope membership and classification IS CPython\'s compiler: symtable is an assumed external oracle; only the stack-builder fragment is proved, the property itself is bounded.',
        technique='bounded runtime contracts on scope analysis with symtable and a language-reference scope model '
                  'as oracles',
        ref='DESIGN.md section 4 C16'),
    'C17': dict(
        category='proof',
        text='Proof of fragment ("no state is carried from one match attempt into the next"): for pattern lists of ANY '
             'length (loop invariant) _match__inside_list leaves both cursors at their entry positions and the tag '
             'stack at its entry depth on failure, and the tag stack balanced on success; _match__inside_list_quantifier '
             '(any bounds, greedy / non-greedy, tagged / static tags, element or sub-list pattern; loop invariants) '
             'leaves the target cursor at its entry position and the stack at its entry depth on failure and the stack '
             'balanced on success - each against the other\'s contract (mutual recursion through contracts) and assumed '
             'contracts of the per-class match functions; _MatchList.next/at_end cursor protocol; _MatchState.new_tagss/discard_tagss/pop_merge_tagss '
             'push one and pop exactly one. The quantifier semantics itself is decided by exhaustive enumeration, and '
             'the bound is the property\'s own ("up to a length bound"): every sequence of <= 3 (thorough 4) pattern '
             'items over 3 atoms and 18 quantified forms x every element sequence of length <= 4 (thorough 6) over '
             '{a, b}: accept/reject and per-quantifier capture counts equal re.fullmatch on the encoding; '
             'back-references; plus layout independence (tree vs re-laid-out tree vs pure AST), repeat-call '
             'independence, search == filter(match, walk), own-AST match and single-leaf difference, shared-sub-pattern '
             'state and search pre-filter checks. Known findings F-C17-1 (sublist quantifiers), F-C17-2.'
             ' Added: quantifier.tags - with the tag collections as real lists, concrete bounds (0..3 / unbounded) and target lengths 0..3, every outcome of every element and rest-of-list attempt forked: the merged tag list is the surviving iterations in target order, the static tags exactly once, the rest last; counts within bounds; failure rewinds (10.7k path obligations); MMAYBE._match (absent only for None); the ctx option of match/search reaches the match state (structural). F-C17-3 fixed.',
        note=TB + 'Oracle of the bounded part: Python\'s re module. The leaf-type pre-filter is not under contract; the '
             'per-class match functions are assumed to preserve the tag stack depth (stated in evidence).',
        technique='contract-based deductive verification of the rewind / tag-stack discipline (loop invariant, z3) + '
                  'bounded exhaustive enumeration of quantifier sequences against re.fullmatch + runtime contracts on '
                  'match/search',
        ref='DESIGN.md section 4 C17'),
    'C20': dict(
        category='proof',
        text='Proof of the option store algebra for ALL option mappings (abstract keys/values, z3 arrays): '
             'check_options rejects exactly unknown/bad entries and never writes; set_options is atomic (no write on '
             'any exceptional exit, single update afterwards, returns the old values, a marker cannot bypass '
             'validation); the options() context manager restores every managed key on normal and exceptional exit '
             'whatever the block did; get_option prefers the per-call value; the only module-level state written after '
             'import is an allowed list, the store is a threading.local never aliased at module level (structural '
             'footprint scan); the lazily built index arrays of shared line objects are published only after they are '
             'filled (structural; F-C20-1, a genuine cross-thread race, fixed in /repo); own_lines keys its memo by the '
             'resolved default. Thread isolation is NOT proved over schedules: the bounded native check creates worker '
             'threads sequentially plus 4 timed two-thread runs on copies of one tree.'
             ' Added: the library changes thread defaults only through `with FST.options(...)` (structural; restore-in-finally is proved in the options() contract); _unmake_fst_tree never writes CPython\'s shared singleton context / operator instances and _make_fst_tree replaces them by own instances; bounded option-object family (an FST passed as `op` is never consumed or changed).',
        note=TB + 'threading.local and contextlib.contextmanager assumed to behave as documented; the 19 per-option '
             'checkers are uninterpreted verdicts. Schedules are not controlled; nothing is claimed over interleavings.',
        technique='contract-based deductive verification (for-all loop rule over symbolic dicts, z3) + bounded '
                  'runtime contracts on the option API incl. worker threads',
        ref='DESIGN.md section 4 C20'),
    'C03': dict(
        category='proof',
        text='Proof of the index layer every container edit goes through: fixup_slice_indices, fixup_one_index and '
             'clip_src_loc equal Python\'s own slice.indices / list indexing for ALL lengths, indices, start_at and '
             '\'end\' (z3, unbounded), idempotence of normalisation, refusal only for inverted slices; the FSTView window '
             'arithmetic (14 methods against a Python list-window model, name indexing included) and the thin FST entry '
             'points (insert/append/extend/prepend/prextend, parameter swizzle) and the sliceable branch of _put_one '
             '(single-element index incl. the docstring offset of _body) designate exactly the range the Python list '
             'operation designates; all 55 slice handlers of _PUT_SLICE_HANDLERS / _GET_SLICE_HANDLERS normalise '
             '(start, stop) through fixup_slice_indices(<len ...>, start, stop) before any use (structural). The handlers\' '
             'implementation of the container law is covered only by the bounded stand-in (labelled bounded in '
             'evidence).'
             ' Added after seeding rounds 3-4: the translation of a `keywords` slice into the merged argument list (_put_slice_Call_ClassDef_keywords) and merge_arglikes (index space of _args/_bases) for every valid argument sequence up to length 5 / 4 (shape-enumerated interpretation of the real code, native replay on real calls); delete form of view item assignment; F-C03-2 fixed.',
        note=TB + 'Undecided remainder: per-node-type slice/one handlers (bounded only). Known finding F-C03-1 '
             '(inverted slices refused) is listed in known_findings.json.',
        technique='contract-based deductive verification: ast->z3 symbolic execution of the real functions against '
                  'Python list semantics as spec; bounded runtime contracts on the public API as stand-in',
        ref='DESIGN.md section 4 C03'),
    'C09': dict(
        category='proof',
        text='Complete finite-domain proof of the precedence oracle: precedence_require_parens is evaluated on the '
             'real function at every well-typed (slot, child kind) point of the expression and pattern grammar '
             '(~4800 points, 3500 distinct type triples) and must answer True wherever CPython\'s parser shows that '
             'the bare text regroups or is rejected; totality of the by-type function over 47k flag points. The put '
             'path that consults the oracle is bounded: every slot template (+ async heads and leftmost positions inside '
             'f-string fields) x layouts {bare, parenthesised, tight, multi-line} x every child kind (+ multi-line '
             'children, children with comments ending in a backslash) x code forms: real replace(), then CPython must '
             'find exactly the child in that position. F-C09-1 (comment backslash taken for a continuation) fixed.'
             ' Added: put.decision - the parenthesisation decision tree of _make_exprlike_fst with every callee answer an unknown Boolean (required by precedence / line structure / int-under-attribute => enclosed on exit; needed parentheses never removed; pars=False hands off), the unit discipline of position writes; bounded special cases (annotated targets, decorator slices, one-element slices, primitives). F-C09-4 fixed; F-C09-2, -3, -5, -6 known.',
        note='Trusted: CPython 3.12 ast.parse as the definition of "parentheses required"; one representative source '
             'per child kind (the oracle depends on types and flags only). Undecided remainder: _is_atom / '
             '_is_enclosed_* text scanners and the parenthesisation decision in _make_exprlike_fst (bounded only).',
        technique='contract (one-sided postcondition) discharged by exhaustive finite-domain evaluation of the real '
                  'loop-free function, CPython parser as specification',
        ref='DESIGN.md section 4 C09'),
    'C10': dict(
        category='proof',
        text='Proof of the two kernel facts the raw path rests on: clip_src_loc normalises any requested rectangle '
             'into valid coordinates (or raises exactly when the end precedes the start) and _put_src performs exactly '
             'the requested text splice (for all line lists); _code_as_lines is the exact inverse of "\\n".join for every '
             'code point as separator (finite, exhaustive); in _reparse_raw_base/_stmtlike/_reparse_raw/put_src/reparse '
             'every operation that raises by contract precedes the first mutation of the real tree on every path '
             '(structural all-paths obligation). The property itself is decided only within the bounded '
             'stand-in: put_src(action=reparse) over rectangles between token boundaries x 11 replacement texts, a space '
             'after every block keyword, raw=True/auto puts, raw puts with to=, with ast.parse of the whole new source as oracle (either raise + nothing changed, or '
             'src == splice and tree == parse; succeeds iff valid). The sweep is deterministic; every disagreement on '
             'the unchanged tree is listed by exact input in known_findings.json (F-C10-1..3, genuine defects).'
             ' Added: the zero-delta flush obligations of _offset; expression roots in the sweep (partial reparse along the path from the root).',
        note=TB + BND + ' Undecided remainder: correctness of the synthetic statement wrappers used to reparse in isolation.',
        technique='contract-based deductive verification of clip/splice (z3) + bounded runtime contracts on '
                  'put_src/raw puts with CPython as oracle',
        ref='DESIGN.md section 4 C10'),
    'C11': dict(
        category='proof',
        text='Proof of the shift kernel: the flag prefix and the per-node body of _offset (selected structurally from '
             'the real source) satisfy the declarative shift rule (strictly after => shifted, strictly before => '
             'unchanged, at the spot => priority rule) for all positions, deltas, 9 tail/head settings, exclusion and '
             'decorator shapes; pruning (break/continue) soundness lemmas; _params_offset maps the old end to the new '
             'end in byte coordinates; _put_src equals the uniform splice for all line lists (ropes, piecewise '
             'lists), calls _offset before the text changes and returns the parameters; put_src(action=offset) entry guard, '
             'two phases and composition lemma; clip_src_loc; _code_as_lines exact for every code point. ~44k path '
             'obligations.'
             ' Added (bounded): multi-line self-documenting f-string fields; multi-line trivia inside replacement fields is judged (F-C11-1 known).',
        note=TB + 'Tree-order invariant (siblings ordered, children inside parents) is a precondition of the pruning '
             'lemmas. Undecided remainder: worklist completeness of the two walks (bounded stand-in).',
        technique='contract-based deductive verification: symbolic execution of the real _offset/_put_src/'
                  '_params_offset source with z3 (QF_UFLIA), ropes with len/UTF-8 measures',
        ref='DESIGN.md section 4 C11'),
}

NOT_APPLICABLE = {
    'C13': 'reconcile(): postcondition is a statement about a top-down diff re-expressed through every put handler '
           'with retry-on-exception; no function on that path is within reach of a contract the verifier can '
           'discharge, and a bounded stand-in would be a mutation-history generator (a different technique). See '
           'DESIGN.md section 5.',
    'C18': 'sub(): composes matching, capture copying, coercion and puts during a walk; no contract within reach '
           'expresses "the filled-in template". See DESIGN.md section 5.',
    'C19': 'coercion matrix of ~40 _coerce_to_* routines whose postcondition is defined by the parser and by source '
           'text manipulation; nothing integer- or structure-shaped to put under contract. See DESIGN.md section 5.',
}

PENDING = {
    # properties that will be claimed once their checks are registered; listed as not_applicable with the reason
    # "not yet registered" so that MANIFEST never claims a check that does not exist
}


def main():
    all_ids = [f'C{i:02d}' for i in range(1, 21)]
    checks = []
    for pid in all_ids:
        c = CHECKS.get(pid)
        if not c:
            continue
        checks.append({
            'property_id': pid,
            'quick_cmd': f'./check {pid} --tier quick',
            'thorough_cmd': f'./check {pid} --tier thorough',
            'evidence_file': f'/verif/evidence/{pid}.json',
            'replay_cmd_template': f'./check {pid} --replay {{path}}',
            'engine': 'pyvc',
            'level_claimed': {'category': c['category'], 'text': c['text'], 'design_ref': c['ref']},
            'level_note': c['note'],
            'technique': c['technique'],
        })
    na = []
    for pid in all_ids:
        if pid in CHECKS:
            continue
        if pid in NOT_APPLICABLE:
            na.append({'property_id': pid, 'reason': NOT_APPLICABLE[pid]})
        else:
            na.append({'property_id': pid, 'reason': 'check not registered yet in this revision (planned in DESIGN.md '
                       'section 4; never claimed until it runs green on the unchanged tree)'})
    m = {
        'version': 1,
        'setup_cmd': './check setup',
        'hooks': {
            'guard': 'PFST_VERIF',
            'enable': 'no hooks: contracts are sidecar files read against /repo\'s working tree; /repo is not edited',
            'baseline_off_cmd': 'cd /repo && /venv/bin/python -m pytest -ra -q -p no:cacheprovider --timeout=900 '
                                '--continue-on-collection-errors',
            'source_commits': [],
            'add_only': True,
        },
        'engines': [{'name': 'pyvc', 'path': '/verif/pyvc',
                     'serves_properties': sorted(CHECKS),
                     'kind_free_text': 'own ast->z3 symbolic executor over the real source (python3-vt, z3 5.1, cvc5 '
                                       'second back end), finite-domain and structural routes, native replay and '
                                       'bounded runtime contracts under /venv/bin/python'}],
        'checks': checks,
        'not_applicable': na,
        'notes': 'Exit codes: 0 held / 1 VIOLATION / 2 UNDECIDED / 3 CHECKER-ERROR. See DESIGN.md.',
    }
    with open(os.path.join(HERE, 'MANIFEST.json'), 'w') as f:
        json.dump(m, f, indent=1)
    print('MANIFEST.json:', len(checks), 'checks,', len(na), 'not_applicable')


if __name__ == '__main__':
    main()
