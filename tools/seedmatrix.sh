#!/bin/bash
# run every seeded change against the quick check of its own property (on a patched scratch copy of /repo)
# usage: tools/seedmatrix.sh [glob]      -> seeded/DETECTION.txt
out=/verif/seeded/DETECTION.txt
# PROOF=1: proof obligations only (bounded stand-ins skipped) -> seeded/DETECTION_PROOF.txt
if [ -n "$PROOF" ]; then out=/verif/seeded/DETECTION_PROOF.txt; export PYVC_ONLY_PROOF=1; fi
pat=${1:-C*-*m[0-9]*}
: > $out.tmp
for d in /verif/seeded/$pat; do
  [ -f $d/patch.diff ] || continue
  n=$(basename $d); p=${n%%-*}
  res=$(/verif/tools/mutrun.sh $d/patch.diff $p --tier quick 2>&1); rc=$?
  if echo "$res" | grep -q 'patch failed\|does not apply'; then
    echo "$n check=$p PATCH-STALE (does not apply to the current /repo tree)" >> $out.tmp; continue
  fi
  line=$(echo "$res" | grep -m1 '^VIOLATION\|^UNDECIDED\|^CHECKER' | sed 's#/tmp/pfst-mut[^ ]*/out/replays/##' | cut -c1-200)
  echo "$n check=$p exit=$rc $line" >> $out.tmp
done
mv $out.tmp $out
