#!/bin/bash
# run every seeded change against the quick check of its own property (on a patched scratch copy of /repo)
out=/verif/seeded/DETECTION.txt
: > $out.tmp
for d in /verif/seeded/C*-m*; do
  n=$(basename $d); p=${n%%-*}
  res=$(/verif/tools/mutrun.sh $d/patch.diff $p --tier quick 2>&1); rc=$?
  line=$(echo "$res" | grep -m1 '^VIOLATION\|^UNDECIDED\|^CHECKER' | sed 's#/tmp/pfst-mut[^ ]*/out/replays/##' | cut -c1-200)
  echo "$n check=$p exit=$rc $line" >> $out.tmp
done
mv $out.tmp $out
