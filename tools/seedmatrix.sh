#!/bin/bash
# run every seeded change against the quick check of its own property (on a patched scratch copy of /repo), 4 at a time
# usage: tools/seedmatrix.sh [glob]      -> seeded/DETECTION.txt
out=/verif/seeded/DETECTION.txt
# PROOF=1: proof obligations only (bounded stand-ins skipped) -> seeded/DETECTION_PROOF.txt
if [ -n "$PROOF" ]; then out=/verif/seeded/DETECTION_PROOF.txt; export PYVC_ONLY_PROOF=1; fi
pat=${1:-C*-*m[0-9]*}
export PYVC_JOBS=${PYVC_JOBS:-4}
tmpd=$(mktemp -d /tmp/sdmx.XXXXXX)
one() {
  d=$1; tmpd=$2
  [ -f $d/patch.diff ] || exit 0
  n=$(basename $d); p=${n%%-*}
  res=$(/verif/tools/mutrun.sh $d/patch.diff $p --tier quick 2>&1); rc=$?
  if echo "$res" | grep -q 'patch failed\|does not apply'; then
    echo "$n check=$p PATCH-STALE (does not apply to the current /repo tree)" > $tmpd/$n; exit 0
  fi
  line=$(echo "$res" | grep -m1 '^VIOLATION\|^UNDECIDED\|^CHECKER' | sed 's#/tmp/pfst-mut[^ ]*/out/replays/##' | cut -c1-200)
  echo "$n check=$p exit=$rc $line" > $tmpd/$n
}
export -f one
ls -d /verif/seeded/$pat | xargs -P 4 -I{} bash -c 'one {} '"$tmpd"
cat $(ls $tmpd/* | sort) > $out
rm -rf $tmpd
