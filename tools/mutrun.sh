#!/bin/sh
# tools/mutrun.sh <patch.diff | -e 'sed-expr' file> -- <check args>   : run a check against a patched scratch copy of /repo
# usage: tools/mutrun.sh PATCH C03 [--tier quick]
set -e
PATCH="$1"; shift
D=$(mktemp -d /tmp/pfst-mut.XXXXXX)
trap 'rm -rf "$D"' EXIT
mkdir -p "$D/repo"
cp -r /repo/src /repo/tests /repo/scripts "$D/repo/" 2>/dev/null || true
(cd "$D/repo" && git init -q . && git add -A >/dev/null 2>&1 && git -c user.email=a@b -c user.name=x commit -qm base >/dev/null)
(cd "$D/repo" && git apply "$PATCH")
mkdir -p "$D/out"
PFST_REPO="$D/repo" PYVC_OUTDIR="$D/out" /verif/check "$@"
