"""two threads, each reading/editing ITS OWN tree (two root copies of one template share their bistr line objects)"""
import sys, threading, time
from fst import FST
sys.setswitchinterval(1e-5)

def script(tree, out, delay):
    time.sleep(delay)
    a = tree.body[0].value.loc                      # first position lookup on the shared line: builds the index
    b = tree.body[1].targets[0].loc                  # second lookup, near the end of the line
    tree.body[1].targets[0].replace('renamed')
    out.append((tuple(a), tuple(b), tree.src[-20:]))

N = 600_000
src = 'x = "' + 'é' * N + '"; zz = 1'
bad = 0
for rnd in range(3):
    template = FST(src, 'exec')
    solo = []
    script(template.copy(), solo, 0)
    template = FST(src, 'exec')
    c1, c2 = template.copy(), template.copy()
    assert c1._lines[0] is c2._lines[0]
    o1, o2 = [], []
    errs = []
    def run(t, o, d):
        try:
            script(t, o, d)
        except Exception as e:
            errs.append(repr(e))
    th = [threading.Thread(target=run, args=(c1, o1, 0)), threading.Thread(target=run, args=(c2, o2, 0.2))]
    for t in th: t.start()
    for t in th: t.join()
    if errs or o1 != solo or o2 != solo:
        bad += 1
        print('round', rnd, 'errs', errs, 'solo', solo, 'got', o1, o2)
print('FAIL' if bad else 'PASS')
sys.exit(1 if bad else 0)
