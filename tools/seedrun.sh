#!/bin/sh
# tools/seedrun.sh <seed dir> <prop> [tier]  -> one line: exit code + first VIOLATION/UNDECIDED line
d=$1; p=$2; t=${3:-quick}
out=$(/verif/tools/mutrun.sh $d/patch.diff $p --tier $t 2>&1); rc=$?
echo "$(basename $(dirname $d))/$(basename $d) on $p: exit=$rc | $(echo "$out" | grep -m1 '^VIOLATION\|^UNDECIDED\|^CHECKER' | cut -c1-230)"
