#!/bin/sh
# tools/benign.sh - behaviour-preserving refactorings (renamed locals, reordered independent statements, an extra no-op
# between a splice and its flush, an alias) must NOT raise an alarm: every listed check has to stay at exit 0 on a
# scratch copy of /repo patched with selftest_benign/*.diff (proof obligations only).
rc=0
for d in /verif/selftest_benign/*.diff; do
  for p in C01 C02 C03 C04 C05 C06 C07 C08 C09 C10 C12 C14 C15 C16 C17 C20; do
    out=$(PYVC_ONLY_PROOF=1 /verif/tools/mutrun.sh $d $p 2>&1 | grep -v '^KNOWN' | tail -1)
    case "$out" in *"exit=0") echo "ok   $(basename $d) $p";; *) echo "FAIL $(basename $d) $p: $out"; rc=1;; esac
  done
done
exit $rc
