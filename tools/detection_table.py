#!/usr/bin/env python3
"""Markdown table for DESIGN.md section 10 from seeded/DETECTION.txt (full quick check) and seeded/DETECTION_PROOF.txt
(proof obligations only).  Printed, nothing written."""
import json
import os
import re

HERE = os.path.dirname(os.path.dirname(os.path.abspath(__file__)))


def load(name):
    rows = {}
    p = os.path.join(HERE, 'seeded', name)
    if not os.path.exists(p):
        return rows
    for l in open(p):
        if l.startswith('#') or not l.strip():
            continue
        n = l.split()[0]
        m = re.search(r'replay=(\S+)', l)
        rows[n] = ('STALE' if 'STALE' in l else ('1' if 'exit=1' in l else re.search(r'exit=(\d)', l).group(1)),
                   re.sub(r'^C\d+-', '', m.group(1))[:-5] if m else '')
    return rows


full, proof = load('DETECTION.txt'), load('DETECTION_PROOF.txt')
print('| change | file(s) | own check | first reported obligation / case | a proof obligation fails |')
print('|---|---|---|---|---|')
np = nf = 0
for n in sorted(full):
    try:
        meta = json.load(open(os.path.join(HERE, 'seeded', n, 'meta.json')))
    except Exception:
        meta = {}
    files = ', '.join(os.path.basename(f) for f in (meta.get('files') or []))[:36]
    st, key = full[n]
    pst, pkey = proof.get(n, ('?', ''))
    own = {'1': 'VIOLATION', '0': 'not reported', 'STALE': 'patch stale'}.get(st, f'exit {st}')
    pr = {'1': f'yes: `{pkey[:60]}`', '0': 'no', 'STALE': '-', '?': '?', '3': 'checker error', '2': 'undecided'}.get(pst, pst)
    nf += st == '1'
    np += pst == '1'
    print(f'| {n} | {files} | {own} | `{key[:64]}` | {pr} |')
print(f'\n{nf} of {len(full)} reported by the check of their own property; {np} also (or only) by a proof obligation.')
