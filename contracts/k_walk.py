"""C15/P - one iteration of the on='enter' loop of fst_traverse.walk, executed symbolically between suspension points
with the heap havocked at every `yield` (the consumer may replace or delete the node it was given, and may send()).

Fragment: the body of `while stack:` under `if on == 'enter':` (selected structurally from the real source), run once
for an ARBITRARY stack top.  The consumer model at a yield: the yielded node's `.a` afterwards is one of {unchanged, a
different AST (node replaced), None (node deleted)}; the value sent back is one of {nothing, True, False}, up to two
sends before the plain resume ("last value sent takes effect").  Obligations (each over all paths of the iteration):

  pop.skips_dead            a popped None / an AST whose .f is None yields nothing and recurses into nothing
  yield.alive               whatever is yielded is the .f read from the popped AST in this iteration (non-None), with no
                            suspension between the read and the yield
  filter                    a node rejected by the `all` filter is not yielded
  resume.current_ast        children pushed / scope functions called after a resume use the node's CURRENT .a (re-read
                            after the last resume), never the AST popped before the suspension
  resume.deleted            if the node was deleted while suspended nothing of it is walked
  send.false / send.true    send(False) suppresses, send(True) forces the walk of the node's children (by delegation to a
                            nested unconditional walk when this walk is restricted by scope / recurse=False)
  no_send.follows_recurse   without send the children are walked iff recurse (and the scope rules) say so

The leave/both loops and the scope helper functions are NOT under contract (bounded stand-in only)."""
import ast

from pyvc.logic import truth


def select_enter_loop(fnode):
    for n in ast.walk(fnode):
        if isinstance(n, ast.If) and ast.unparse(n.test) == "on == 'enter'" and n.body and isinstance(n.body[0], ast.While) \
                and ast.unparse(n.body[0].test) == 'stack':
            return n.body[0]
    raise LookupError("cannot locate the on == 'enter' loop of walk")


def specs(prop='C15'):
    from pyvc.contract import Fragment
    from pyvc.interp import Interp, SObj, Env, _Continue, _Break, _Return
    from pyvc.sym import cur

    def choose(name, n):
        """fork over n alternatives"""
        c = cur()
        for i in range(n - 1):
            if truth(c.bool(c.fresh_name(f'{name}={i}'))):
                return i
        return n - 1

    class Children:
        def __init__(self, of, rev=False):
            self.of, self.rev = of, rev

        def _sym_truth(self):
            if not hasattr(self, '_nonempty'):      # one answer per children list, however often it is tested
                self._nonempty = truth(cur().bool(cur().fresh_name('has_children')))
            return self._nonempty

        def _sym_getitem(self, idx):
            if isinstance(idx, slice) and idx.start is None and idx.stop is None and idx.step == -1:
                return Children(self.of, not self.rev)
            raise LookupError('children indexing')

    def run(ctx, case, loc, pre, label):
        loop = select_enter_loop(loc.node)
        recurse, scope, back = case['recurse'], case['scope'], case['back']
        ev = {'yields': [], 'pushed': [], 'delegated': [], 'scope_calls': [], 'filter_calls': [], 'resumes': 0}
        CLS = SObj('SomeClass', {})
        kind = choose('top', 3)                       # 0: None in the stack, 1: AST whose .f is None, 2: live node
        if kind == 0:
            top = None
        else:
            top = SObj('A0', {}, **{'__class__': CLS})
            fst_ = SObj('F', {}, a=top) if kind == 2 else None
            top._set('f', fst_, count=False)
            if fst_ is not None:
                fst_._set('walk', lambda *a, **k: ('nested_walk', fst_, a, k), count=False)

        class Stack:
            def pop(self):
                return top

            def extend(self, x):
                ev['pushed'].append(x)

            def _sym_truth(self):
                return True
        accept = {}

        def check_all_param(f):
            ev['filter_calls'].append(f)
            accept['v'] = truth(ctx.bool(ctx.fresh_name('filter_accepts')))
            return accept['v']
        sends = []

        def on_yield(v):
            cur_a = fst_._get('a') if kind == 2 else None
            ev['yields'].append((v, cur_a, ev['resumes']))
            # the consumer runs: it may replace / delete the node ...
            h = choose('heap', 3)
            if kind == 2:
                if h == 1:
                    fst_._set('a', SObj(f'A{len(ev["yields"])}', {}, **{'__class__': CLS, 'f': fst_}), count=False)
                elif h == 2:
                    fst_._set('a', None, count=False)
            ev['resumes'] += 1
            # ... and resume with or without a value (at most two sends, then the plain resume)
            if len(sends) >= 2:
                return None
            s = choose('sent', 3)
            if s == 0:
                return None
            sends.append(s == 1)
            return s == 1

        def on_yield_from(g):
            ev['delegated'].append(g)
            ev['resumes'] += 1
            return None

        def soc(a):
            c = Children(a)
            ev.setdefault('soc', []).append(a)
            return c
        scope_kind = choose('scopefn', 3) if scope else 0     # 0: not a scope node, 1: generator helper, 2: plain helper

        class ScopeFuncs:
            def get(self, cls):
                if scope_kind == 0:
                    return None

                def gen(ctx_, a):
                    ev['scope_calls'].append(('gen', a))
                    return ('scope_gen', a)

                def plain(ctx_, a, st):
                    ev['scope_calls'].append(('plain', a))
                    return truth(ctx.bool(ctx.fresh_name('scope_handled')))
                return (gen, True) if scope_kind == 1 else (plain, False)
        it = Interp({'syntax_ordered_children': soc, '_SCOPE_WALK_FUNCS': ScopeFuncs()})
        it.on_yield = on_yield
        it.on_yield_from = on_yield_from
        env = Env()
        env.vars.update(stack=Stack(), check_all_param=check_all_param, recurse=recurse, scope=scope, back=back,
                        all=SObj('all', {}), scope_ctx=SObj('scope_ctx', {}))
        outcome = 'fallthrough'
        try:
            it.exec_block(loop.body, env)
        except _Continue:
            outcome = 'continue'
        except (_Break, _Return):
            outcome = 'left_loop'
        ctx.notes['outcome'] = outcome
        ctx.prove(f'{pre}.stays_in_loop[{label}]', outcome != 'left_loop')
        walked = ev['pushed'] or ev['delegated'] or ev['scope_calls']
        if kind != 2:
            ctx.prove(f'{pre}.pop.skips_dead[{label}]', not ev['yields'] and not walked and not ev['filter_calls'])
            return
        ctx.prove(f'{pre}.yield.alive[{label}]',
                  all(v is fst_ and a_then is not None for v, a_then, _ in ev['yields'][:1]) and
                  all(v is fst_ for v, _, _ in ev['yields']),
                  info='the yielded object is the .f just read from the popped AST; it had a live .a when first yielded')
        ctx.prove(f'{pre}.filter.rejected_not_yielded[{label}]', bool(ev['yields']) == bool(accept.get('v')))
        ctx.prove(f'{pre}.filter.asked_once_about_this_node[{label}]', ev['filter_calls'] == [fst_])
        cur_a = fst_._get('a')
        used = ev.get('soc', []) + [a for _, a in ev['scope_calls']]
        if ev['yields']:
            ctx.prove(f'{pre}.resume.current_ast[{label}]', all(a is cur_a and a is not None for a in used),
                      info='after a suspension the children / scope helpers are computed from the re-read .a')
            ctx.prove(f'{pre}.resume.deleted_is_not_walked[{label}]', cur_a is not None or not walked)
            last = sends[-1] if sends else None
            if last is False:
                ctx.prove(f'{pre}.send.false_suppresses[{label}]', not walked)
            elif last is True:
                forced = bool(ev['delegated']) or bool(ev.get('soc'))
                ctx.prove(f'{pre}.send.true_forces[{label}]', forced or cur_a is None,
                          info='send(True): the children are walked unless the node was deleted')
                if scope or not recurse:
                    ctx.prove(f'{pre}.send.true_delegates_unconditional_walk[{label}]',
                              cur_a is None or (len(ev['delegated']) == 1 and ev['delegated'][0][1] is fst_ and
                                                ev['delegated'][0][3].get('self_') is False and not ev['pushed']))
            else:
                ctx.prove(f'{pre}.no_send.follows_recurse[{label}]', recurse or not walked)
        else:
            ctx.prove(f'{pre}.unfiltered.current_ast[{label}]', all(a is top for a in used))
            ctx.prove(f'{pre}.unfiltered.follows_recurse[{label}]', recurse or not walked,
                      info='a node hidden by the filter is still descended into iff recurse')
        if ev['pushed']:
            ch = ev['pushed'][0]
            ctx.prove(f'{pre}.push.order[{label}]', len(ev['pushed']) == 1 and isinstance(ch, Children) and
                      ch.rev == (not back), info='children are pushed reversed for a forward walk (stack pops the last)')

    # -----------------------------------------------------------------------------------------------------------------
    def select_loop(fnode, which):
        """the inner `while stack:` of the on='leave' (which=0) / on='both' (which=1) part"""
        for n in ast.walk(fnode):
            if isinstance(n, ast.If) and ast.unparse(n.test) == 'is_leave' and n.body and isinstance(n.body[0], ast.While):
                return (n.body if which == 0 else n.orelse)[0]
        raise LookupError('cannot locate the leave / both loops of walk')

    def run_lb(ctx, case, loc, pre, label):
        """one iteration of the on='leave' / on='both' loop for an arbitrary stack top, which is either an AST to enter
        (None / dead / live) or the FST of a node whose children were processed (to leave)"""
        which = 0 if case['on'] == 'leave' else 1
        loop = select_loop(loc.node, which)
        recurse, back = case['recurse'], case['back']
        ev = {'yields': [], 'pushed': [], 'delegated': [], 'filter_calls': [], 'resumes': 0, 'soc': []}
        CLS = SObj('SomeClass', {})
        FSTCLS = SObj('FSTclass', {})
        kind = choose('top', 4)     # 0 None, 1 AST with dead .f, 2 live AST (entering), 3 FST (leaving)
        fst_ = None
        if kind == 0:
            top = None
        elif kind == 3:
            a0 = SObj('A0', {}, **{'__class__': CLS}) if choose('leaving_alive', 2) == 0 else None
            fst_ = SObj('F', {}, a=a0, __isfst=True)
            top = fst_
        else:
            top = SObj('A0', {}, **{'__class__': CLS})
            fst_ = SObj('F', {}, a=top, __isfst=True) if kind == 2 else None
            top._set('f', fst_, count=False)
        if fst_ is not None:
            fst_._set('walk', lambda *a, **k: ('nested_walk', fst_, a, k), count=False)

        class Stack:
            def pop(self):
                return top

            def extend(self, x):
                ev['pushed'].append(('children', x))

            def append(self, x):
                ev['pushed'].append(('node', x))

            def _sym_truth(self):
                return True
        accept = []

        def check_all_param(f):
            ev['filter_calls'].append(f)
            accept.append(truth(ctx.bool(ctx.fresh_name('filter_accepts'))))
            return accept[-1]
        sends = []

        def on_yield(v):
            rec = [v, fst_._get('a') if fst_ is not None else None, None]
            ev['yields'].append(rec)
            h = choose('heap', 3)
            if fst_ is not None:
                if h == 1:
                    fst_._set('a', SObj(f'A{len(ev["yields"])}', {}, **{'__class__': CLS, 'f': fst_}), count=False)
                elif h == 2:
                    fst_._set('a', None, count=False)
            ev['resumes'] += 1
            if len([1 for y in ev['yields'] if y[2] is not None]) >= 2:
                return None
            sn = choose('sent', 3)
            if sn == 0:
                return None
            rec[2] = (sn == 1)
            sends.append(sn == 1)
            return sn == 1

        class Kids(Children):
            def reverse(self):
                self.rev = not self.rev

        def soc(a):
            ev['soc'].append((a, ev['resumes']))
            return Kids(a)
        it = Interp({'syntax_ordered_children': soc, 'fst': SObj('fst', {}, FST=FSTCLS)})
        it.globals['isinstance'] = lambda o, t: (isinstance(o, SObj) and o._get('__isfst') is True) if t is FSTCLS else False
        it.on_yield = on_yield
        it.on_yield_from = lambda g: ev['delegated'].append(g)
        env = Env()
        env.vars.update(stack=Stack(), check_all_param=check_all_param, recurse=recurse, back=back, all=SObj('all', {}))
        outcome = 'fallthrough'
        try:
            it.exec_block(loop.body, env)
        except _Continue:
            outcome = 'continue'
        except (_Break, _Return):
            outcome = 'left_loop'
        ctx.notes['outcome'] = outcome
        ctx.prove(f'{pre}.stays_in_loop[{label}]', outcome != 'left_loop')
        walked = bool(ev['pushed'] or ev['delegated'])
        if kind in (0, 1):
            ctx.prove(f'{pre}.pop.skips_dead[{label}]', not ev['yields'] and not walked and not ev['filter_calls'])
            return
        ynodes = [(y[0][0] if isinstance(y[0], tuple) else y[0]) for y in ev['yields']]
        ctx.prove(f'{pre}.yield.only_this_node[{label}]', all(n is fst_ for n in ynodes))
        ctx.prove(f'{pre}.yield.alive_when_first_yielded[{label}]', all(y[1] is not None for y in ev['yields'][:1]),
                  info='a node whose .a is None (deleted while its children were processed) is never yielded')
        # yield phases: a leaving phase (flag True / on='leave') possibly followed, after send(True), by a re-entry phase
        if case['on'] == 'both':
            flags = [y[0][1] if isinstance(y[0], tuple) else None for y in ev['yields']]
            ctx.prove(f'{pre}.yield.flag_says_entering_or_leaving[{label}]',
                      None not in flags and (not flags or flags[0] is (kind == 3)),
                      info='the first event of a popped FST is a leaving event, of a popped AST an entering event')
            leave_phase = [y for y, fl in zip(ev['yields'], flags) if fl is True]
            enter_phase = [y for y, fl in zip(ev['yields'], flags) if fl is False]
            ctx.prove(f'{pre}.both.phases_in_order[{label}]', flags == [True] * len(leave_phase) + [False] * len(enter_phase))
        else:
            leave_phase, enter_phase = list(ev['yields']), []

        def last_sent(phase):
            vals = [y[2] for y in phase if y[2] is not None]
            return vals[-1] if vals else None
        cur_a = fst_._get('a')
        kids_of = [x.of for t, x in ev['pushed'] if t == 'children']
        ctx.prove(f'{pre}.children_from_current_ast[{label}]',
                  all(a is not None and ((a is top and kind == 2) if at == 0 else a is cur_a) for a, at in ev['soc']),
                  info='children are computed from the .a that is current when they are computed: the popped AST before any '
                       'suspension, the re-read .a afterwards')
        if kind == 3 and not ev['yields']:
            ctx.prove(f'{pre}.leaving_dead_or_filtered_is_dropped[{label}]', not walked)
        if leave_phase:
            last = last_sent(leave_phase)
            if last is not True:
                ctx.prove(f'{pre}.leave.no_rewalk_without_send_true[{label}]', not walked and not enter_phase)
            else:
                ctx.prove(f'{pre}.leave.deleted_not_rewalked[{label}]', cur_a is not None or not walked)
                if case['on'] == 'leave':
                    ctx.prove(f'{pre}.leave.send_true_requeues_node_and_children[{label}]',
                              cur_a is None or ('node', fst_) in ev['pushed'])
                elif not recurse:
                    ctx.prove(f'{pre}.both.leave.send_true_delegates[{label}]', cur_a is None or len(ev['delegated']) == 1)
        if enter_phase:
            last = last_sent(enter_phase)
            ctx.prove(f'{pre}.both.enter.accepted_by_filter[{label}]', bool(accept) and accept[-1] is True)
            ctx.prove(f'{pre}.both.enter.deleted_not_walked[{label}]', cur_a is not None or not walked)
            if cur_a is not None:
                ctx.prove(f'{pre}.both.enter.leave_event_queued[{label}]', ('node', fst_) in ev['pushed'],
                          info='every entered node is queued to be yielded again on leaving')
            if last is False:
                ctx.prove(f'{pre}.both.enter.send_false_suppresses_children[{label}]', not kids_of and not ev['delegated'])
            elif last is None:
                ctx.prove(f'{pre}.both.enter.follows_recurse[{label}]', recurse or (not kids_of and not ev['delegated']))
        if not ev['yields'] and kind == 2:
            # entering, not yielded now: either deferred until the children are done (leave mode) or filtered out
            if case['on'] == 'leave' and accept and accept[-1]:
                ctx.prove(f'{pre}.leave.enter.deferred_behind_children[{label}]',
                          [t for t, _ in ev['pushed']] == ['node', 'children'] and ev['pushed'][0][1] is fst_)
            if accept and not accept[-1]:
                ctx.prove(f'{pre}.filtered.not_queued_for_yield[{label}]', ('node', fst_) not in ev['pushed'])
        for t, x in ev['pushed']:
            if t == 'children':
                ctx.prove(f'{pre}.push.order[{label}]', x.rev == (not back))

    # the `asts` set-up: the caller's list is only read --------------------------------------------------------------
    def run_asts(ctx, case, loc, pre, label):
        """the block `if asts is not None:` of walk: the work list the loops pop from is a NEW list holding the caller's
        nodes (reversed for a forward walk, in order for back=True); the caller's list object is not the work list and
        keeps its contents - a documented guarantee ('asts' may be a live field list such as f.a.body)"""
        blk = None
        for n in ast.walk(loc.node):
            if isinstance(n, ast.If) and ast.unparse(n.test) == 'asts is not None':
                blk = n
                break
        if blk is None:
            raise LookupError('cannot locate the `asts is not None` set-up of walk')
        nodes = [SObj(f'n{i}', {}) for i in range(case['n'])]
        asts = list(nodes)
        it = Interp({'_ScopeContext': lambda *a: SObj('scope_ctx', {})})
        env = Env()
        env.vars.update(asts=asts, back=case['back'], scope=case['scope'], self=SObj('self', {}), all=True,
                        check_all_param=lambda f: True, self_=True)
        it.exec_block(blk.body, env)
        if 'stack' not in env.vars or 'self_' not in env.vars:
            raise LookupError('the asts set-up no longer defines `stack` / `self_` (locals renamed?)')
        stack = env.vars.get('stack')
        ctx.notes['outcome'] = 'return'
        ctx.prove(f'{pre}.work_list_is_new[{label}]', isinstance(stack, list) and stack is not asts)
        ctx.prove(f'{pre}.callers_list_untouched[{label}]', len(asts) == len(nodes) and all(a is b for a, b in zip(asts, nodes)))
        want = nodes if case['back'] else nodes[::-1]
        ctx.prove(f'{pre}.work_list_order[{label}]', isinstance(stack, list) and len(stack) == len(want) and
                  all(a is b for a, b in zip(stack, want)), info='popped from the end: first node first unless back')
        ctx.prove(f'{pre}.root_not_yielded[{label}]', env.vars.get('self_') is False)

    cases_asts = [dict(n=n, back=b, scope=s) for n in (0, 1, 3) for b in (True, False) for s in (True, False)]
    cases = [dict(recurse=r, scope=s, back=b) for r in (True, False) for s in (True, False) for b in (True, False)]
    cases_lb = [dict(on=o, recurse=r, back=b) for o in ('leave', 'both') for r in (True, False) for b in (True, False)]
    return [Fragment('fst_traverse:walk', prop, 'walk.asts_setup', cases_asts, run_asts, min_obligations=4,
                     native=('k_walk', 'replay_walk'), notes='the `if asts is not None:` block, lists of length 0, 1, 3'),
            Fragment('fst_traverse:walk', prop, 'walk.leave_both_iteration', cases_lb, run_lb, min_obligations=5,
                     native=('k_walk', 'replay_walk'),
                     notes="one iteration of the on='leave' and of the on='both' loop; stack top is an AST to enter or an FST to "
                           "leave; heap havocked at each yield"),
            Fragment('fst_traverse:walk', prop, 'walk.enter_iteration', cases, run, min_obligations=5,
                     native=('k_walk', 'replay_walk'),
                     notes="one iteration of the on='enter' loop; heap havocked at each yield; consumer may send twice")]


def replay_walk(payload):
    """native: the obligations are about one loop iteration with an abstract consumer; a failing input is SEARCHED with
    the bounded walk-under-mutation harness on the real generator (small trees x step x mutation x send)"""
    from contracts import b_walkmod
    r = b_walkmod.main({'tier': 'quick', 'seed': 0})
    f = r.get('failures') or []
    if f:
        return {'reproduced': True, 'failing_input': f[0]}
    return {'reproduced': False, 'note': f'no failing input among {r.get("evaluations")} walk-under-mutation cases'}
