"""C03/B - container semantics of FSTView windows and virtual fields against a Python list model (bounded), plus
deletion / replacement of optional fields and invalid-order puts (C12 material)."""
import ast

from contracts.b_lib import c01_violation, dump, node_paths, follow, sdump

VIRTUAL = {'Call': ['_args'], 'ClassDef': ['_bases', '_body'], 'Dict': ['_all'], 'arguments': ['_all'],
           'Compare': ['_all'], 'MatchMapping': ['_all'], 'FunctionDef': ['_body'], 'Module': ['_body'],
           'MatchClass': ['_all']}


def elems(view):
    out = []
    for x in view:
        a = getattr(x, 'a', None)
        if a is not None and not isinstance(a, ast.AST):
            a = None
        if a is not None:
            out.append(sdump(a).replace('Store()', 'Load()').replace('Del()', 'Load()'))
        else:
            try:
                out.append('SRC:' + ' '.join(x.src.split()))
            except Exception:
                out.append(repr(x))
    return out


def fields_of(f):
    a = f.a
    out = []
    for fld in a._fields:
        v = getattr(a, fld, None)
        if isinstance(v, list) and v and all(isinstance(e, ast.AST) for e in v):
            out.append(fld)
    out.extend(VIRTUAL.get(a.__class__.__name__, []))
    return out


def view_steps(sw, root, quick, rnd):
    targets = []
    for path, f in node_paths(root):
        for fld in fields_of(f):
            try:
                n = len(getattr(f, fld))
            except Exception:
                continue
            if n:
                targets.append((path, fld, n))
    for path, fld, n in targets:
        wins = [(s, e) for s in range(n + 1) for e in range(s, n + 1)]
        if len(wins) > (3 if quick else 10):
            wins = rnd.sample(wins, 3 if quick else 10)
        for s, e in wins:
            w = e - s
            idxs = list(range(-w - 2, w + 3)) + ['end']
            if quick and len(idxs) > 5:
                idxs = rnd.sample(idxs, 5)
            for idx in idxs:
                one_view_op(sw, path, fld, n, s, e, 'insert', idx)
            one_view_op(sw, path, fld, n, s, e, 'append', None)
            one_view_op(sw, path, fld, n, s, e, 'prepend', None)
            if w:
                i = rnd.randrange(-w, w)
                one_view_op(sw, path, fld, n, s, e, 'delitem', i)
                one_view_op(sw, path, fld, n, s, e, 'setitem', i)
                if fld not in ('keys', 'kw_defaults'):   # there None is an element value (`**` unpacking, no default)
                    one_view_op(sw, path, fld, n, s, e, 'setitem_none', i)
                one_view_op(sw, path, fld, n, s, e, 'remove', None)
            one_view_op(sw, path, fld, n, s, e, 'setslice', None)


def one_view_op(sw, path, fld, n, s, e, op, idx):
    root = sw.fresh()
    node = follow(root, path) if path else root
    if not node:
        return
    try:
        full = getattr(node, fld)
        model = elems(full)
        donor = full[0].copy() if hasattr(full[0], 'copy') else None
        donor_d = model[0]
        doc_prefix = []
        if fld == '_body':
            real = elems(node.body)
            doc_prefix = real[:len(real) - len(model)]
    except Exception:
        return
    if donor is None or len(model) != n:
        return
    sw.ev += 1
    slot0 = f'{node.a.__class__.__name__}.{fld}'
    key = f'view@{slot0}:{sw.name}:{path}:[{s}:{e}].{op}({idx!r})'
    src0, d0 = root.src, dump(root.a)
    W = model[s:e]
    exp_err = None
    try:
        if op == 'insert':
            if idx == 'end':
                W.append(donor_d)
            else:
                W.insert(idx, donor_d)
        elif op == 'append':
            W.append(donor_d)
        elif op == 'prepend':
            W.insert(0, donor_d)
        elif op in ('delitem', 'setitem_none'):
            del W[idx]
        elif op == 'setitem':
            W[idx] = donor_d
        elif op == 'remove':
            W = []
        elif op == 'setslice':
            W = [donor_d]
    except IndexError as ex:
        exp_err = ex
    exp = model[:s] + W + model[e:]
    sw.pre_edit(root)
    try:
        sub = full[s:e]
        if op == 'insert':
            sub.insert(donor, idx)
        elif op == 'append':
            sub.append(donor)
        elif op == 'prepend':
            sub.prepend(donor)
        elif op == 'delitem':
            del sub[idx]
        elif op == 'setitem':
            sub[idx] = donor
        elif op == 'setitem_none':
            sub[idx] = None          # the delete form of item assignment
        elif op == 'remove':
            sub.remove()
        else:
            sub[0:len(sub)] = donor
    except Exception as ex:
        sw.counts['refused'] += 1
        sw.distinct.add(('view-refused', path, fld, s, e, op, idx))
        if 'C12' in sw.props:
            sw.check_c12(root, src0, d0, ex, {'program': sw.name, 'path': [list(p) for p in path],
                                               'op': f'view {fld}[{s}:{e}].{op}({idx!r})',
                                               'slot': slot0, 'seq': None})
        return
    sw.counts['ok'] += 1
    sw.distinct.add(('view', path, fld, s, e, op, idx))
    v = c01_violation(root)
    if v:
        sw.fail('C01', key, f'after view op: {v}', src_after=root.src[:300])
        if 'no longer parses' not in v and op in ('insert', 'append', 'prepend', 'setitem'):  # with norm=False an edit may leave an invalid tree; a parsable source that
            # denotes another tree is a container-law violation
            sw.fail('C03', key + ':c01', f'after view op the tree no longer equals its source: {v}', src_after=root.src[:300])
        return
    sw.post_edit(root, key, f'{fld}[{s}:{e}].{op}({idx!r})')
    if 'C03' not in sw.props:
        return
    if exp_err is not None:
        sw.fail('C03', key + ':index', f'a Python list raises IndexError for this index but the view accepted it')
        return
    try:
        node2 = follow(root, path) if path else root
        got = elems(getattr(node2, fld))
        if fld == '_body':
            # `_body` hides a leading docstring, and an edit can turn the first remaining statement INTO the docstring:
            # the list law is judged on the real `body` field (hidden prefix + model)
            got = elems(getattr(node2, 'body'))
            exp = doc_prefix + exp
    except Exception:
        return
    if op == 'setslice':
        return  # donor may be spliced as several elements or one, both documented; judged only through C01 here
    if got != exp:
        sw.fail('C03', key, f'view op result differs from the Python list model: got {len(got)} elements '
                f'{[g[:40] for g in got[:6]]}, expected {len(exp)} {[g[:40] for g in exp[:6]]}',
                src_after=root.src[:300])
        return
    # the view object used for the edit is a live window: afterwards it must show exactly the edited window
    if op in ('delitem', 'setitem', 'setitem_none', 'append', 'prepend', 'insert') and fld != '_body':
        try:
            win = elems(sub)
        except Exception as ex:
            sw.fail('C03', key + ':window', f'after the edit the view object raises {ex!r} when read')
            return
        if win != W:
            sw.fail('C03', key + ':window', f'after the edit the view object shows {len(win)} elements, the list model of '
                    f'its window has {len(W)}', src_after=root.src[:300])
            if 'C02' in sw.props:
                sw.fail('C02', key + ':window', f'view bounds are stale after an edit made through the view: shows {len(win)} '
                        f'elements, a fresh view of the same window shows {len(W)}')


IDENT_FIELDS = {('ExceptHandler', 'name'), ('alias', 'asname'), ('MatchAs', 'name'), ('MatchStar', 'name'), ('MatchMapping', 'rest'),
                ('keyword', 'arg'), ('arg', 'arg'), ('FunctionDef', 'name'), ('AsyncFunctionDef', 'name'), ('ClassDef', 'name'),
                ('Attribute', 'attr'), ('Name', 'id'), ('TypeVar', 'name'), ('ParamSpec', 'name'), ('TypeVarTuple', 'name')}
IDENT_OPTIONAL = {('ExceptHandler', 'name'), ('alias', 'asname'), ('MatchMapping', 'rest')}


def optional_steps(sw, root, quick, rnd):
    """delete / replace every optional single-node field, kind-changing puts through _args/_bases"""
    for path, f in node_paths(root):
        a = f.a
        for fld in a._fields:
            v = getattr(a, fld, None)
            if isinstance(v, ast.AST) and fld not in ('ctx', 'op'):
                for code in (None,):
                    r = sw.fresh()
                    n = follow(r, path) if path else r
                    sw.ev += 1
                    src0, d0 = r.src, dump(r.a)
                    desc = {'program': sw.name, 'path': [list(p) for p in path], 'op': f'put(None, {fld!r})',
                            'slot': f'{a.__class__.__name__}.{fld}', 'seq': None}
                    sw.pre_edit(r)
                    try:
                        n.put(code, field=fld)
                    except Exception as ex:
                        sw.counts['refused'] += 1
                        sw.distinct.add(('opt-refused', path, fld))
                        if 'C12' in sw.props:
                            sw.check_c12(r, src0, d0, ex, desc)
                        continue
                    sw.counts['ok'] += 1
                    sw.distinct.add(('opt', path, fld))
                    key = f'put_None@{a.__class__.__name__}.{fld}:{sw.name}:{path}'
                    vv = c01_violation(r)
                    if vv:
                        sw.fail('C01', key, f'after deleting optional field {fld}: {vv}', src_after=r.src[:300])
                        continue
                    sw.post_edit(r, key, f'put(None, {fld!r})')
        # identifier fields: another identifier is always valid there, so the put must be carried out (C03), and the
        # optional ones can be deleted
        for fld in a._fields:
            if (a.__class__.__name__, fld) not in IDENT_FIELDS or not isinstance(getattr(a, fld, None), str):
                continue
            for code in ('zz_new',) + ((None,) if (a.__class__.__name__, fld) in IDENT_OPTIONAL else ()):
                r = sw.fresh()
                n = follow(r, path) if path else r
                if not n:
                    continue
                sw.ev += 1
                src0, d0 = r.src, dump(r.a)
                desc = {'program': sw.name, 'path': [list(p) for p in path], 'op': f'put({code!r}, {fld!r})',
                        'slot': f'{a.__class__.__name__}.{fld}', 'seq': None}
                key = f'put_identifier@{a.__class__.__name__}.{fld}:{sw.name}:{path}:{code!r}'
                sw.pre_edit(r)
                try:
                    n.put(code, field=fld)
                except Exception as ex:
                    sw.counts['refused'] += 1
                    sw.distinct.add(('ident-refused', path, fld, code))
                    if 'C12' in sw.props:
                        sw.check_c12(r, src0, d0, ex, desc)
                    if code is not None and not isinstance(ex, (NotImplementedError,)) and ex.__class__.__name__ != 'NodeError':
                        sw.fail('C03', key + ':refused', f'put({code!r}, {fld!r}) on {a.__class__.__name__} raised {ex!r}: an '
                                'identifier replaced by another identifier is valid Python and must be carried out')
                    continue
                sw.counts['ok'] += 1
                sw.distinct.add(('ident', path, fld, code))
                vv = c01_violation(r)
                if vv:
                    sw.fail('C01', key, f'after {desc["op"]}: {vv}', src_after=r.src[:300])
                    sw.fail('C03', key + ':c01', f'after {desc["op"]} the tree and its source disagree: {vv}', src_after=r.src[:300])
                    continue
                n2 = follow(r, path) if path else r
                got = getattr(n2.a, fld, '<missing>') if n2 else '<node gone>'
                if got != code:
                    sw.fail('C03', key + ':value', f'after {desc["op"]} the field holds {got!r}')
                sw.post_edit(r, key, desc['op'])
        # code-form agreement of slice puts under raw='auto' (source str vs FST vs pure AST must give the same
        # structure, or all be refused) on argument-like and plain element fields
        for fld in ('args', 'bases', 'elts'):
            lst = getattr(a, fld, None)
            if not isinstance(lst, list) or not lst or 'C03' not in sw.props:
                continue
            for i in range(len(lst)):
                for code in ('*sx', 'px'):
                    results = {}
                    for form in ('str', 'FST', 'AST'):
                        r = sw.fresh()
                        n = follow(r, path) if path else r
                        sw.ev += 1
                        try:
                            c = code if form == 'str' else r.__class__(code, 'expr_arglike')
                            if form == 'AST':
                                c = c.a
                            n.put_slice(c, i, i + 1, fld, one=True, raw='auto')
                            results[form] = ast.dump(ast.parse(r.src)) if not c01_violation(r) else 'C01-VIOLATION'
                        except Exception as ex:
                            results[form] = f'refused: {ex.__class__.__name__}'
                    sw.distinct.add(('forms', path, fld, i, code))
                    ok_forms = {k: v for k, v in results.items() if not v.startswith('refused')}
                    if len(set(results.values())) > 1 and ok_forms and len(ok_forms) < 3 or len(set(ok_forms.values())) > 1:
                        sw.fail('C03', f'codeform@{a.__class__.__name__}.{fld}:{sw.name}:{path}:[{i}]<-{code}',
                                f'put_slice({code!r}, {i}, {i + 1}, {fld!r}, one=True, raw="auto") depends on the form '
                                f'of the code: { {k: v[:40] for k, v in results.items()} }')
            # source given as one string and as a list of lines is the same code: identical outcome for every `one`
            for i in sorted({0, len(lst) - 1}):
                for code in ('px', '[x, y]', '(x,\n y)', 'x, y'):
                    for one in (True, False):
                        results = {}
                        for form in ('str', 'lines'):
                            r = sw.fresh()
                            n = follow(r, path) if path else r
                            sw.ev += 1
                            try:
                                n.put_slice(code if form == 'str' else code.split('\n'), i, i + 1, fld, one=one)
                                results[form] = ast.dump(ast.parse(r.src)) if not c01_violation(r) else 'C01:' + r.src[:60]
                            except Exception as ex:
                                results[form] = f'refused: {ex.__class__.__name__}'
                        sw.distinct.add(('lines_form', path, fld, i, code, one))
                        if results['str'] != results['lines']:
                            sw.fail('C03', f'codeform.lines@{a.__class__.__name__}.{fld}:{sw.name}:{path}:[{i}]<-{code!r}:one={one}',
                                    f'put_slice({code!r} as str / as list of lines, {i}, {i + 1}, {fld!r}, one={one}) gives '
                                    f'different results: { {k: v[:50] for k, v in results.items()} }')
        # kind-changing and order-violating puts through the merged virtual fields
        for vf, codes in (('_args', ['kw=1', '*st', '**dst', 'pos']), ('_bases', ['kw=1', '*st', 'pos']),
                          ('_all', ['*v', 'k=3', '**kk', 'p', 'q: int = 2', '/', '*'])):
            if vf not in VIRTUAL.get(a.__class__.__name__, []):
                continue
            try:
                n_el = len(getattr(f, vf))
            except Exception:
                continue
            for i in range(n_el + 1):
                for code in codes:
                    for mode in ('set', 'ins'):
                        if mode == 'set' and i >= n_el:
                            continue
                        r = sw.fresh()
                        n = follow(r, path) if path else r
                        sw.ev += 1
                        src0, d0 = r.src, dump(r.a)
                        desc = {'program': sw.name, 'path': [list(p) for p in path],
                                'op': f'{vf}[{i}] {mode} {code!r}', 'slot': f'{a.__class__.__name__}.{vf}', 'seq': None}
                        sw.pre_edit(r)
                        try:
                            if mode == 'set':
                                n.put(code, i, field=vf)
                            else:
                                n.put_slice(code, i, i, vf, one=True)
                        except Exception as ex:
                            sw.counts['refused'] += 1
                            sw.distinct.add(('virt-refused', path, vf, i, code, mode))
                            if 'C12' in sw.props:
                                sw.check_c12(r, src0, d0, ex, desc)
                            continue
                        sw.counts['ok'] += 1
                        sw.distinct.add(('virt', path, vf, i, code, mode))
                        key = f'virtual@{a.__class__.__name__}.{vf}:{sw.name}:{path}:[{i}]{mode}:{code}'
                        vv = c01_violation(r)
                        if vv:
                            sw.fail('C01', key, f'after {desc["op"]}: {vv}', src_after=r.src[:300])
                            if 'no longer parses' not in vv:
                                sw.fail('C03', key + ':c01', f'after {desc["op"]} the tree and its source disagree: {vv}',
                                        src_after=r.src[:300])
                            continue
                        sw.post_edit(r, key, desc['op'])
