"""C15 - walking stays sound while the tree is being modified."""
from contracts import k_walk
from pyvc.contract import verify_all
from pyvc import native


def run(rep, tier, seed):
    # P: one iteration of each of the three work-list loops between suspension points, heap havocked at every yield
    verify_all(rep, k_walk.specs('C15'))
    rep.assumptions.append('consumer model at a yield: the yielded node is left unchanged, replaced (its .a is another '
                           'AST whose .f is the node) or deleted (.a is None); at most two send() calls per suspension')
    sec = native.run('b_walkmod', 'main', {'tier': tier, 'seed': seed}, timeout=7200)
    sec['native_entry'] = ('b_walkmod', 'replay')
    rep.bounded(sec)
    rep.remainder = ('termination and "exactly once" under arbitrary interleavings on arbitrary trees (whole-history); '
                     'the first-node prefix, the walk-root epilogue of leave/both and the scope helper functions of walk: '
                     'bounded stand-in only')
