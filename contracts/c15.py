"""C15 - walking stays sound while the tree is being modified (bounded)."""
from pyvc import native


def run(rep, tier, seed):
    sec = native.run('b_walkmod', 'main', {'tier': tier, 'seed': seed}, timeout=7200)
    sec['native_entry'] = ('b_walkmod', 'replay')
    rep.bounded(sec)
    rep.remainder = ('termination and "exactly once" under arbitrary interleavings on arbitrary trees (whole-history); '
                     'the yield-liveness obligations of DESIGN C15/P are not registered in this revision')
