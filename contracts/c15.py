"""C15 - walking stays sound while the tree is being modified."""
from contracts import k_walk, k_links, k_order
from pyvc.contract import verify_all
from pyvc import native


def run(rep, tier, seed):
    # P: one iteration of each of the three work-list loops between suspension points, heap havocked at every yield
    verify_all(rep, k_walk.specs('C15'))
    # the walk tells a removed node from a live one only by the cleared AST<->FST link: the link kernel's contracts
    # (what _set_field / _set_ast unmake) and the cover obligation on every deletion from a field list carry that
    verify_all(rep, [s for s in k_links.specs('C15') if s.name.startswith(('links.set_field', 'links.set_ast'))])
    k_order.unmake_covers_deletion(rep, 'C15')
    rep.assumptions.append('consumer model at a yield: the yielded node is left unchanged, replaced (its .a is another '
                           'AST whose .f is the node) or deleted (.a is None); at most two send() calls per suspension')
    sec = native.run('b_walkmod', 'main', {'tier': tier, 'seed': seed}, timeout=7200)
    sec['native_entry'] = ('b_walkmod', 'replay')
    rep.bounded(sec)
    # every edit of the sweep: nodes taken out of the tree are unmade (what the walk's liveness test relies on)
    sec = native.run('b_edit', 'main', {'props': ['C15'], 'tier': tier, 'seed': seed, 'prepass': False, 'stride': 2,
                                        'ops': ['remove', 'donor', 'slice', 'views', 'optional'], 'norm': True}, timeout=7200)
    sec['name'] += '[detached nodes are unmade]'
    sec['native_entry'] = ('b_edit', 'replay')
    rep.bounded(sec)
    rep.remainder = ('termination and "exactly once" under arbitrary interleavings on arbitrary trees (whole-history); '
                     'the first-node prefix, the walk-root epilogue of leave/both and the scope helper functions of walk: '
                     'bounded stand-in only')
