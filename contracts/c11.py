"""C11 - whitespace-only source edits in offset mode keep every node on its text."""
from contracts import k_offset
from pyvc.contract import verify_all


def run(rep, tier, seed):
    verify_all(rep, k_offset.specs('C11') + k_offset.specs_text('C11'))
