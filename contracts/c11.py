"""C11 - whitespace-only source edits in offset mode keep every node on its text."""
from contracts import k_offset, k_index
from pyvc.contract import verify_all
from pyvc import native


def run(rep, tier, seed):
    clip = [s for s in k_index.specs('C11') if s.name == 'clip_src_loc']   # put_src clips its rectangle first
    verify_all(rep, k_offset.specs('C11') + k_offset.specs_text('C11') + k_offset.specs_entry('C11') + clip)
    k_offset.code_as_lines_finite(rep, 'C11')
    sec = native.run('b_raw', 'main', {'props': ['C11'], 'tier': tier, 'seed': seed, 'ops': ['offset']})
    sec['native_entry'] = ('b_raw', 'replay')
    rep.bounded(sec)
    rep.remainder = ('that each node is visited exactly once by the two walks of put_src(action="offset") (worklist '
                     'completeness): bounded sweep over every inter-token gap of the corpus only')
