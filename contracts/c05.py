"""C05 - parsing is lossless and agrees with Python's parser in every parse mode."""
from contracts import k_parsex
from pyvc.contract import verify_all
from pyvc import native


def run(rep, tier, seed):
    k_parsex.run_structural(rep, 'C05')
    k_parsex.escape_structural(rep, 'C05')
    verify_all(rep, k_parsex.specs('C05'))
    rep.trusted.append('structural obligations are facts about the program text of parsex.py (decided by analysis of its '
                       'AST, for all inputs because they do not depend on inputs); CPython is the parser being wrapped')
    sec = native.run('b_read', 'main', {'props': ['C05'], 'tier': tier, 'seed': seed}, timeout=7200)
    sec['native_entry'] = ('b_read', 'replay')
    rep.bounded(sec)
    rep.remainder = ('acceptance / rejection decisions of each wrapper (_verify_no_close_delimiters, error triage, the '
                     'fix-ups of undelimited sequences): bounded embedding-oracle check only')
