"""Contract for the primitive-constant put (C08: `AST values always equal what the new source text denotes`):
fst_put_one:_put_one_constant together with code:code_as_constant (both interpreted from the real source).

    ensures  refused:  nothing was spliced and the node's value is what it was
             accepted: exactly one splice `_put_src(text, *self.loc, True)`; CPython parses `text` to a Constant whose value
                       has the SAME type and equals the value now stored in the node (so -0.0, inf, complex with a real part,
                       NaN must have been normalised or refused: their repr() is not a literal); under a MatchValue the text
                       is not one of None / True / False (a MatchSingleton for the parser); `kind` is reset
Values are enumerated (one per class of primitive the accessor accepts plus the awkward floats / complexes), the parent is a
plain expression or a MatchValue: shape-enumerated."""
import ast as _ast


VALUES = [('int0', 0), ('int', 7), ('bigint', 10 ** 30), ('float', 1.5), ('float_e', 1e22), ('float_tiny', 2.5e-320),
          ('inf', float('inf')), ('nan', float('nan')), ('negzero', -0.0), ('neg', -1), ('negfloat', -2.5),
          ('imag', 2j), ('complex_real', complex(1, 2)), ('imag_inf', complex(0, float('inf'))), ('imag_negzero', complex(0.0, -0.0)),
          ('imag_neg', complex(0, -2.0)), ('imag_nan', complex(0, float('nan'))),
          ('str', 'text'), ('str_quotes', "it's \"q\""), ('str_nl', 'a\nb'), ('str_empty', ''), ('bytes', b'by\x00tes'),
          ('True', True), ('False', False), ('None', None), ('Ellipsis', ...)]


def specs(prop='C08'):
    from pyvc import frontend
    from pyvc.contract import Fragment
    from pyvc.interp import Interp, IFunc, SObj, PyRaise

    class NodeError(Exception):
        pass
    CONSTANT = (str, bytes, int, float, complex, bool, type(None), type(...))
    MATCHVALUE, OTHER = SObj('MatchValue', {}, __name__='MatchValue'), SObj('BinOp', {}, __name__='BinOp')
    FSTCLS, ASTCLS = SObj('FSTcls', {}), SObj('ASTcls', {})

    def run(ctx, case, loc, pre, label):
        value = dict(VALUES)[case['value']]
        log = []
        a = SObj('a', {}, value='OLD', kind='u', **{'__class__': SObj('Constant', {}, __name__='Constant')})
        parent = SObj('parent', {}, a=SObj('pa', {}, **{'__class__': MATCHVALUE if case['under'] == 'MatchValue' else OTHER}))
        self = SObj('self', {}, a=a, parent=parent, loc=(0, 4, 0, 7), root=SObj('root', {}, _parse_params={}))
        self._set('_put_src', lambda *args: log.append(args), count=False)
        static = SObj('static', {}, restrict=CONSTANT)
        it = Interp({'NodeError': NodeError, 'MatchValue': MATCHVALUE, 'constant': CONSTANT, 'AST': ASTCLS,
                     'fst': SObj('fst', {}, FST=FSTCLS), 'repr': repr, 'hasattr': lambda o, n: n == 'kind',
                     'int': int, 'float': float, 'complex': complex, 'str': str, 'bytes': bytes, 'bool': bool, 'list': list,
                     '_validate_put': lambda *a_, **k: None})

        native = {id(it.globals.get(n)): getattr(__builtins__, n, None) if not isinstance(__builtins__, dict) else __builtins__[n]
                  for n in ('int', 'float', 'complex', 'str', 'bytes', 'bool', 'list', 'tuple')}

        def nat(t):
            if isinstance(t, tuple):
                return tuple(nat(x) for x in t)
            return native.get(id(t), t)

        def isinst(o, t):
            if t is FSTCLS or t is ASTCLS:
                return False
            return isinstance(o, nat(t))
        it.globals['isinstance'] = isinst
        it.globals['code_as_constant'] = IFunc(it, frontend.locate('code:code_as_constant').node, None, 'code_as_constant')
        f = IFunc(it, loc.node, None, '_put_one_constant')
        try:
            r = it.call(f, (self, value, None, 'value', 'OLD', static, {}))
        except PyRaise as pr:
            ctx.notes['outcome'] = f'raise {pr.cls.__name__}'
            ctx.prove(f'{pre}.refusal.nothing_written[{label}]', not log and a._get('value') == 'OLD' and a._get('kind') == 'u')
            return
        ctx.notes['outcome'] = 'return'
        ok_call = len(log) == 1 and len(log[0]) == 6 and tuple(log[0][1:5]) == (0, 4, 0, 7) and log[0][5] is True and \
            isinstance(log[0][0], str)
        ctx.prove(f'{pre}.one_splice_at_the_node[{label}]', ok_call and r is self)
        if not ok_call:
            return
        text = log[0][0]
        stored = a._get('value')
        try:
            back = _ast.parse(text, mode='eval').body
        except SyntaxError:
            back = None
        denotes = isinstance(back, _ast.Constant) and type(back.value) is type(stored) and \
            (back.value == stored or repr(back.value) == repr(stored)) and repr(back.value) == repr(stored)
        ctx.prove(f'{pre}.text_denotes_value[{label}]', denotes,
                  info=f'text {text!r} parses to {(_ast.dump(back) if back is not None else None)}; stored {stored!r}')
        same = type(stored) is type(value) and (stored == value or (stored != stored and value != value) or
                                                (isinstance(value, (float, complex)) and stored == value))
        ctx.prove(f'{pre}.stored_is_the_value_up_to_sign_of_zero[{label}]', same, info=f'{value!r} -> {stored!r}')
        if case['under'] == 'MatchValue':
            ctx.prove(f'{pre}.value_pattern_not_a_singleton[{label}]', text not in ('None', 'True', 'False'))
        ctx.prove(f'{pre}.kind_reset[{label}]', a._get('kind') is None)

    cases = [dict(value=n, under=u) for n, _ in VALUES for u in ('expr', 'MatchValue')]
    return [Fragment('fst_put_one:_put_one_constant', prop, 'constant', cases, run, min_obligations=1, native=('k_constant', 'replay_constant'),
                     notes='code_as_constant is the real function too; _validate_put / _put_src as stubs; 26 values x 2 parents')]


def replay_constant(payload):
    """native: the same values through the public accessor on real trees (plain expression and value pattern)"""
    import ast
    from fst import FST
    n = 0
    for name, v in VALUES:
        for src, get in (('x = 1.5\n', lambda f: f.body[0].value), ('match x:\n case 1: pass\n', lambda f: f.body[0].cases[0].pattern.value)):
            f = FST(src, 'exec')
            node = get(f)
            s0, d0 = f.src, ast.dump(f.a, include_attributes=True)
            n += 1
            try:
                node.value = v
            except Exception as e:
                if f.src != s0 or ast.dump(f.a, include_attributes=True) != d0:
                    return {'reproduced': True, 'source': src, 'call': f'<Constant>.value = {v!r}',
                            'observed': f'raised {e!r} and changed the tree'}
                continue
            try:
                same = ast.dump(ast.parse(f.src)) == ast.dump(f.a)
            except SyntaxError:
                same = False
            if not same and v is not ...:      # Ellipsis: listed finding F-C08-1
                return {'reproduced': True, 'source': src, 'call': f'<Constant>.value = {v!r}', 'observed': f.src,
                        'expected': 'a source that denotes the tree (Constant with that value)'}
    return {'reproduced': False, 'candidates': n}
