"""Read-only bounded runtime contracts: C14 (traversal), C06 (locations), C05 (parse modes).  Scope: corpus programs
(quick) plus standard-library modules (thorough).  Oracles: CPython positions (ast), tokenize, brute-force scans."""
import ast
import io
import itertools
import os
import random
import sysconfig
import tokenize
import zlib

from contracts.b_lib import tree_diff, node_paths, follow, load_corpus


def stdlib_programs(n, seed=0):
    d = sysconfig.get_paths()['stdlib']
    files = sorted(f for f in os.listdir(d) if f.endswith('.py'))
    rnd = random.Random(seed)
    rnd.shuffle(files)
    out = []
    for f in files:
        try:
            src = open(os.path.join(d, f), encoding='utf-8').read()
            ast.parse(src)
        except Exception:
            continue
        if len(src) > 120000:
            continue
        out.append(('stdlib_' + f[:-3], src.rstrip('\n')))
        if len(out) >= n:
            break
    return out


def interleave_programs(bound):
    """every argument-like sequence up to length `bound` over {positional, *starred, keyword=, **unpack} that CPython
    accepts, as a call and as the bases of a decorated generic class: the inputs of the position-merging step
    functions of Call / ClassDef (exhaustive up to the bound)"""
    out, cur, k = [], [], 0
    kinds = ('p{0}', '*s{0}', 'k{0}=v{0}', '**d{0}')
    for n in range(0, bound + 1):
        for combo in itertools.product(kinds, repeat=n):
            args = ', '.join(c.format(i) for i, c in enumerate(combo))
            for stmt in (f'r{k} = fn({args})', f'@deco\nclass C{k}[T]({args}):\n    pass', f'class D{k}({args}): x = 1'):
                try:
                    ast.parse(stmt)
                except SyntaxError:
                    continue
                cur.append(stmt)
                k += 1
                if len(cur) == 60:
                    out.append((f'gen_interleave_{len(out):03d}', '\n'.join(cur)))
                    cur = []
    if cur:
        out.append((f'gen_interleave_{len(out):03d}', '\n'.join(cur)))
    return out


def programs(payload):
    progs = load_corpus()
    if payload.get('interleave'):
        progs += interleave_programs(payload['interleave'])
    if payload.get('tier') == 'thorough':
        progs += stdlib_programs(payload.get('stdlib_n', 40), payload.get('seed', 0))
    return progs


class R:
    def __init__(self, name, src, payload):
        from fst import FST
        self.FST = FST
        self.name, self.src, self.payload = name, src, payload
        self.props = set(payload['props'])
        self.ev = 0
        self.distinct = set()
        self.failures = []
        self.samples = []
        self.root = FST(src, 'exec')
        self.rnd = random.Random(zlib.crc32(f'{payload.get("seed", 0)}:{name}'.encode()))

    def fail(self, prop, key, what, **kw):
        if prop not in self.props:
            return
        from contracts.b_lib import room
        ok, kn = room(self.failures, f'{prop}.B.{key}', 10)
        if ok:
            self.failures.append(dict(key=f'{prop}.B.{key}', what=what, program=self.name, replayed=True, _known=kn, **kw))

    # ---------------------------------------------------------------------------------------------------------------
    # C14
    def ref_children(self, a):
        """children of an ast node: positioned ones sorted by CPython position; unpositioned ones (ctx, operators,
        arguments, comprehension, withitem, match_case, ...) keyed by their first positioned descendant"""
        kids = list(ast.iter_child_nodes(a))

        def pos(n):
            if hasattr(n, 'lineno'):
                return (n.lineno, n.col_offset)
            for d in ast.walk(n):
                if hasattr(d, 'lineno'):
                    best = min((x.lineno, x.col_offset) for x in ast.walk(n) if hasattr(x, 'lineno'))
                    return best
            return None
        return [(k, pos(k)) for k in kids]

    def c14(self):
        root = self.root
        walked = list(root.walk(True))
        self.ev += 1
        ids = [id(f.a) for f in walked]
        ref_set = {id(n) for n in ast.walk(root.a)}
        if len(set(ids)) != len(ids):
            self.fail('C14', f'walk.once:{self.name}', 'walk(all=True) yields some node more than once')
        if set(ids) != ref_set:
            miss = [n.__class__.__name__ for n in ast.walk(root.a) if id(n) not in set(ids)][:5]
            self.fail('C14', f'walk.set:{self.name}', f'walk(all=True) does not yield exactly the reachable nodes; '
                      f'missing e.g. {miss}, extra {len(set(ids) - ref_set)}')
        # parents before children, positioned siblings in source order
        seen = set()
        order = {id(f.a): i for i, f in enumerate(walked)}
        for f in walked:
            if f.parent is not None and id(f.parent.a) not in seen:
                self.fail('C14', f'walk.parent_first:{self.name}:{f.a.__class__.__name__}',
                          'walk yields a child before its parent')
                break
            seen.add(id(f.a))
        for f in walked:
            if f.a.__class__.__name__ in ('JoinedStr', 'TemplateStr', 'FormattedValue', 'Interpolation'):
                continue  # CPython places the debug-text Constant of `{x=}` inside the braces: not a source-order oracle
            kids = [(k, p) for k, p in self.ref_children(f.a) if p is not None and id(k) in order]
            by_pos = sorted(kids, key=lambda kp: kp[1])
            by_walk = sorted(kids, key=lambda kp: order[id(kp[0])])
            # ties in position (e.g. a node and its first child wrapper) are not ordered by this oracle
            if [p for _, p in by_walk] != [p for _, p in by_pos]:
                self.fail('C14', f'walk.order:{self.name}:{f.a.__class__.__name__}@{getattr(f.a, "lineno", "?")}',
                          f'children of {f.a.__class__.__name__} at line {getattr(f.a, "lineno", "?")} are not walked '
                          f'in source order: positions in walk order {[p for _, p in by_walk][:8]}')
                break
        self.distinct.add(('walk', self.name))
        # other walk modes against the enter/forward walk (which was just judged against CPython positions)
        def tree_order(f, back):
            out = [f]
            kids = [c for c in walked if c.parent is f]
            for c in (reversed(kids) if back else kids):
                out.extend(tree_order(c, back))
            return out
        child_map = {}
        for c in walked:
            child_map.setdefault(id(c.parent) if c.parent else None, []).append(c)

        def ref(f, back, on):
            kids = child_map.get(id(f), [])
            if back:
                kids = kids[::-1]
            out = []
            if on in ('enter', 'both'):
                out.append((f, False) if on == 'both' else f)
            for c in kids:
                out.extend(ref(c, back, on))
            if on in ('leave', 'both'):
                out.append((f, True) if on == 'both' else f)
            return out
        for back in (False, True):
            for on in ('enter', 'leave', 'both'):
                self.ev += 1
                got = list(root.walk(True, on, back=back))
                exp = ref(root, back, on)
                same = len(got) == len(exp) and all((g[0] is e[0] and bool(g[1]) == e[1]) if on == 'both' else g is e
                                                    for g, e in zip(got, exp))
                if not same:
                    self.fail('C14', f'walk.mode:{self.name}:back={back},on={on}',
                              f'walk(True, on={on!r}, back={back}) is not the reference order derived from the forward '
                              f'enter walk ({len(got)} vs {len(exp)} yields)')
                self.distinct.add(('mode', self.name, back, on))
        # scope walks: back=True is the mirror image (sibling order reversed at every level) of the forward scope walk
        openers = [f for f in walked if f.a.__class__.__name__ in (
            'Module', 'FunctionDef', 'AsyncFunctionDef', 'Lambda', 'ClassDef', 'ListComp', 'SetComp', 'DictComp',
            'GeneratorExp')]
        if len(openers) > 60:
            openers = self.rnd.sample(openers, 60)
        for f in openers:
            for all_ in (True, False):
                self.ev += 1
                try:
                    fw = list(f.walk(all_, scope=True))
                    bw = list(f.walk(all_, scope=True, back=True))
                except Exception as e:
                    self.fail('C14', f'walk.scope:{self.name}:{f.a.__class__.__name__}@{getattr(f.a, "lineno", "?")}',
                              f'walk(scope=True) raised {e!r}')
                    continue
                yielded = {id(x) for x in fw}
                plain = [x for x in f.walk(all_) if id(x) in yielded]
                if len(yielded) == len(fw) and [id(x) for x in plain] != [id(x) for x in fw]:
                    k = next((i for i, (g, e) in enumerate(zip(fw, plain)) if g is not e), 0)
                    self.fail('C14', f'walk.scope_order:{self.name}:{f.a.__class__.__name__}@{getattr(f.a, "lineno", "?")}:all={all_}',
                              f'walk({all_}, scope=True) from {f.a.__class__.__name__} at line {getattr(f.a, "lineno", "?")} '
                              f'does not yield its nodes in the order of the plain walk (first difference at yield {k}: '
                              f'{fw[k].a.__class__.__name__} {fw[k].src[:20]!r} instead of {plain[k].a.__class__.__name__} '
                              f'{plain[k].src[:20]!r})')
                kids_of = {}
                for x in fw[1:] if fw and fw[0] is f else fw:
                    p_ = x.parent
                    while p_ is not None and id(p_) not in yielded:
                        p_ = p_.parent
                    kids_of.setdefault(id(p_) if p_ is not None else None, []).append(x)

                def mirror(x):
                    out = [x]
                    for c in reversed(kids_of.get(id(x), [])):
                        out.extend(mirror(c))
                    return out
                exp = mirror(f) if fw and fw[0] is f else [y for c in reversed(kids_of.get(None, [])) for y in mirror(c)]
                if [id(x) for x in bw] != [id(x) for x in exp]:
                    k = next((i for i, (g, e) in enumerate(zip(bw, exp)) if g is not e), min(len(bw), len(exp)))
                    self.fail('C14', f'walk.scope_back:{self.name}:{f.a.__class__.__name__}@{getattr(f.a, "lineno", "?")}:all={all_}',
                              f'walk({all_}, scope=True, back=True) from {f.a.__class__.__name__} at line '
                              f'{getattr(f.a, "lineno", "?")} is not the forward scope walk with sibling order reversed '
                              f'({len(bw)} vs {len(exp)} nodes, first difference at yield {k})')
                self.distinct.add(('scope_back', self.name, id(f), all_))
        # self_=False / recurse=False on sampled nodes, filters
        sample = walked if len(walked) < 150 else self.rnd.sample(walked, 150)
        for f in sample:
            self.ev += 1
            kids = child_map.get(id(f), [])
            got = list(f.walk(True, self_=False, recurse=False))
            if [id(x) for x in got] != [id(x) for x in kids]:
                self.fail('C14', f'walk.norecurse:{self.name}:{f.a.__class__.__name__}@{getattr(f.a, "lineno", "?")}',
                          'walk(self_=False, recurse=False) is not the list of direct children in walk order')
            # next/prev chain and inverses
            chain = []
            c = f.first_child(True)
            n = 0
            while c is not None and n < 10000:
                chain.append(c)
                c = c.next(True)
                n += 1
            if [id(x) for x in chain] != [id(x) for x in kids]:
                self.fail('C14', f'next.chain:{self.name}:{f.a.__class__.__name__}@{getattr(f.a, "lineno", "?")}',
                          f'first_child/next chain ({len(chain)} nodes) differs from walk(recurse=False) ({len(kids)})')
            rchain = []
            c = f.last_child(True)
            n = 0
            while c is not None and n < 10000:
                rchain.append(c)
                c = c.prev(True)
                n += 1
            if [id(x) for x in rchain] != [id(x) for x in reversed(kids)]:
                self.fail('C14', f'prev.chain:{self.name}:{f.a.__class__.__name__}@{getattr(f.a, "lineno", "?")}',
                          f'last_child/prev chain ({len(rchain)} nodes) differs from reversed walk(recurse=False)')
            for i, k in enumerate(kids):
                nx = k.next(True)
                if nx is not None and nx.prev(True) is not k:
                    self.fail('C14', f'next.inverse:{self.name}:{f.a.__class__.__name__}@{getattr(f.a, "lineno", "?")}',
                              'prev(next(x)) is not x')
                    break
            # next_child / prev_child
            nc, c = [], None
            while True:
                c = f.next_child(c, True)
                if c is None or len(nc) > 10000:
                    break
                nc.append(c)
            if [id(x) for x in nc] != [id(x) for x in kids]:
                self.fail('C14', f'next_child:{self.name}:{f.a.__class__.__name__}@{getattr(f.a, "lineno", "?")}',
                          'next_child iteration differs from walk(recurse=False)')
            pc, c = [], None
            while True:
                c = f.prev_child(c, True)
                if c is None or len(pc) > 10000:
                    break
                pc.append(c)
            if [id(x) for x in pc] != [id(x) for x in reversed(kids)]:
                self.fail('C14', f'prev_child:{self.name}:{f.a.__class__.__name__}@{getattr(f.a, "lineno", "?")}',
                          'prev_child iteration differs from reversed walk(recurse=False)')
            # paths
            try:
                p = root.child_path(f)
                back_ = root.child_from_path(p)
                ps = root.child_path(f, True)
                back2 = root.child_from_path(ps)
                if back_ is not f or back2 is not f:
                    self.fail('C14', f'path:{self.name}:{f.a.__class__.__name__}@{getattr(f.a, "lineno", "?")}',
                              'child_from_path(child_path(x)) is not x')
            except Exception as e:
                self.fail('C14', f'path:{self.name}:{f.a.__class__.__name__}@{getattr(f.a, "lineno", "?")}',
                          f'child_path/child_from_path raised {e!r}')
            self.distinct.add(('nav', self.name, id(f)))
        # step_fwd / step_back reproduce the walk
        self.ev += 1
        seq = []
        c = root
        n = 0
        while c is not None and n <= len(walked) + 5:
            seq.append(c)
            c = c.step_fwd(True)
            n += 1
        if [id(x) for x in seq] != [id(x) for x in walked]:
            self.fail('C14', f'step_fwd:{self.name}', f'repeated step_fwd() ({len(seq)} nodes) does not reproduce walk '
                      f'order ({len(walked)} nodes)')
        bwalk = list(root.walk(True, back=True))
        seq = []
        c = root
        n = 0
        while c is not None and n <= len(walked) + 5:
            seq.append(c)
            c = c.step_back(True)
            n += 1
        if [id(x) for x in seq] != [id(x) for x in bwalk]:
            self.fail('C14', f'step_back:{self.name}', f'repeated step_back() ({len(seq)} nodes) does not reproduce '
                      f'walk(back=True) order ({len(bwalk)} nodes)')
        # all= filters on leave mode (children of rejected nodes keep their order)
        for flt in (ast.Name, (ast.Name, ast.Constant), 'loc'):
            for on in ('enter', 'leave'):
                self.ev += 1
                got = [id(x) for x in root.walk(flt, on, self_=False)]
                full = [x for x in root.walk(True, on, self_=False)]
                if flt == 'loc':
                    exp = [id(x) for x in full if x.loc is not None]
                else:
                    exp = [id(x) for x in full if isinstance(x.a, flt)]
                if got != exp:
                    self.fail('C14', f'walk.filter:{self.name}:all={getattr(flt, "__name__", flt)},on={on}',
                              f'walk(all=<filter>, on={on!r}) is not the filtered full walk')

    # ---------------------------------------------------------------------------------------------------------------
    # C06
    def c06(self):
        root = self.root
        lines = self.src.split('\n')

        def b2c(lineno, boff):
            return len(lines[lineno - 1].encode()[:boff].decode())
        walked = list(root.walk(True))
        toks = []
        try:
            toks = [t for t in tokenize.generate_tokens(io.StringIO(self.src + '\n').readline)
                    if t.type not in (tokenize.NL, tokenize.NEWLINE, tokenize.INDENT, tokenize.DEDENT,
                                      tokenize.ENDMARKER, tokenize.COMMENT)]
        except Exception:
            pass
        starts = {(t.start[0] - 1, t.start[1]) for t in toks}
        ends = {(t.end[0] - 1, t.end[1]) for t in toks}
        OPS = {'Add': '+', 'Sub': '-', 'Mult': '*', 'MatMult': '@', 'Div': '/', 'Mod': '%', 'Pow': '**',
               'LShift': '<<', 'RShift': '>>', 'BitOr': '|', 'BitXor': '^', 'BitAnd': '&', 'FloorDiv': '//',
               'Invert': '~', 'Not': 'not', 'UAdd': '+', 'USub': '-', 'Eq': '==', 'NotEq': '!=', 'Lt': '<', 'LtE': '<=',
               'Gt': '>', 'GtE': '>=', 'Is': 'is', 'IsNot': 'is not', 'In': 'in', 'NotIn': 'not in', 'And': 'and',
               'Or': 'or'}
        for f in walked:
            a = f.a
            self.ev += 1
            tag = f'{self.name}:{a.__class__.__name__}@{getattr(a, "lineno", "?")}:{getattr(a, "col_offset", "?")}'
            try:
                loc = f.loc
            except Exception as e:
                self.fail('C06', f'loc.raises:{tag}', f'.loc raised {e!r}')
                continue
            if hasattr(a, 'lineno') and hasattr(a, 'end_col_offset'):
                exp = (a.lineno - 1, b2c(a.lineno, a.col_offset), a.end_lineno - 1, b2c(a.end_lineno, a.end_col_offset))
                if loc is None or tuple(loc) != exp:
                    self.fail('C06', f'loc.ast:{tag}', f'.loc {loc and tuple(loc)} is not the CPython extent {exp} in '
                              'character coordinates')
                    continue
                # byte coordinates agree
                try:
                    bc = (f.lineno, f.col_offset, f.end_lineno, f.end_col_offset)
                    if bc != (a.lineno, a.col_offset, a.end_lineno, a.end_col_offset):
                        self.fail('C06', f'loc.bytes:{tag}', f'FST byte coordinates {bc} differ from the AST\'s '
                                  f'{(a.lineno, a.col_offset, a.end_lineno, a.end_col_offset)}')
                except Exception as e:
                    self.fail('C06', f'loc.bytes:{tag}', f'byte coordinate accessors raised {e!r}')
            if loc is not None:
                ln, col, eln, ecol = loc
                inside_str = False
                p = f
                while p is not None:
                    if p.a.__class__.__name__ in ('JoinedStr', 'TemplateStr', 'Constant'):
                        inside_str = True
                    p = p.parent
                augop = f.parent is not None and f.parent.a.__class__.__name__ == 'AugAssign' and f.pfield.name == 'op'
                if (toks and not inside_str and (eln, ecol) != (ln, col) and not augop
                        and a.__class__.__name__ not in ('Module', 'arguments')):
                    if (ln, col) not in starts:
                        self.fail('C06', f'loc.tok_start:{tag}', f'.loc {tuple(loc)} does not start at a token start')
                    elif (eln, ecol) not in ends:
                        self.fail('C06', f'loc.tok_end:{tag}', f'.loc {tuple(loc)} does not end at a token end')
                name = a.__class__.__name__
                if name in OPS and f.parent is not None:
                    try:
                        text = ' '.join(f.src.split())
                    except Exception:
                        text = None
                    if text != OPS[name]:
                        self.fail('C06', f'loc.op:{tag}', f'operator location covers {text!r}, expected {OPS[name]!r}')
                # children inside parents
                if f.parent is not None and f.parent.loc is not None and hasattr(a, 'lineno'):
                    pl = f.parent.bloc or f.parent.loc
                    if not ((pl[0], pl[1]) <= (ln, col) and (eln, ecol) <= (pl[2], pl[3])):
                        self.fail('C06', f'loc.inside:{tag}', f'node {tuple(loc)} is not inside its parent {tuple(pl)}')
                # pars
                try:
                    pr = f.pars()
                    n = getattr(pr, 'n', 0)
                    if pr is not None and n:
                        t = root.get_src(*pr)
                        body = t
                        ok = True
                        for _ in range(n):
                            body = body.strip()
                            if not (body.startswith('(') and body.endswith(')')):
                                ok = False
                                break
                            body = body[1:-1]
                        if not ok:
                            self.fail('C06', f'pars:{tag}', f'pars() reports n={n} but the text {t[:60]!r} is not '
                                      'wrapped in that many balanced parentheses')
                        else:
                            # the parentheses belong to the node: what is inside must still parse as an expression
                            try:
                                ast.parse('(' + body + ')', mode='eval')
                            except SyntaxError:
                                if isinstance(a, ast.expr) and not isinstance(a, (ast.Starred, ast.Slice)):
                                    self.fail('C06', f'pars:{tag}', f'pars() n={n}: the enclosed text {body[:60]!r} is '
                                              'not a balanced expression')
                except Exception as e:
                    self.fail('C06', f'pars:{tag}', f'pars() raised {e!r}')
            # views (real list fields and the virtual combined ones): the view and every element report a location, the
            # elements lie inside the view's extent in order, and the text at an element's location is its own source
            VIRT = {'Call': ['_args'], 'ClassDef': ['_bases'], 'Dict': ['_all'], 'arguments': ['_all'], 'Compare': ['_all'],
                    'MatchMapping': ['_all']}
            vfields = [fl for fl in a._fields if isinstance(getattr(a, fl, None), list) and getattr(a, fl)] + \
                VIRT.get(a.__class__.__name__, [])
            if a.__class__.__name__ in ('JoinedStr', 'TemplateStr'):
                vfields = []   # debug-text Constants of `{x=}` overlap their field by construction
            for vf in vfields:
                try:
                    view = getattr(f, vf)
                    if not hasattr(view, 'loc') or not len(view):
                        continue
                    vloc = view.loc
                    elocs = [x.loc for x in view if hasattr(x, 'loc')]   # None (Dict **spread keys) and str elements have none
                except Exception as e:
                    self.fail('C06', f'view.loc.raises:{tag}:{vf}', f'location of the {vf} view or of one of its elements raised {e!r}')
                    continue
                self.ev += 1
                elocs = [tuple(x)[:4] for x in elocs if x is not None]
                if vloc is not None and elocs:
                    vl = tuple(vloc)[:4]
                    if not ((vl[0], vl[1]) <= (elocs[0][0], elocs[0][1]) and (elocs[-1][2], elocs[-1][3]) <= (vl[2], vl[3])):
                        self.fail('C06', f'view.loc.extent:{tag}:{vf}', f'{vf} view at {vl} does not contain its elements '
                                  f'{elocs[0]} .. {elocs[-1]}')
                    if any((p[2], p[3]) > (q[0], q[1]) for p, q in zip(elocs, elocs[1:])):
                        self.fail('C06', f'view.loc.order:{tag}:{vf}', f'elements of the {vf} view overlap or are out of order: {elocs[:6]}')
            if a.__class__.__name__ in ('FunctionDef', 'AsyncFunctionDef') and toks:
                args = a.args
                has = any([args.posonlyargs, args.args, args.kwonlyargs, args.vararg, args.kwarg])
                if has:
                    # delimiters by tokenize: first '(' after the name (skipping a type parameter list) and its match
                    tl = [t for t in toks if (t.start[0], t.start[1]) >= (a.lineno, a.col_offset)]
                    depth = 0
                    lpar = rpar = None
                    sq = 0
                    for t in tl:
                        if t.string == '[' and lpar is None:
                            sq += 1
                        elif t.string == ']' and lpar is None:
                            sq -= 1
                        elif t.string == '(' and sq == 0:
                            depth += 1
                            if depth == 1 and lpar is None:
                                lpar = t
                        elif t.string == ')' and sq == 0 and lpar is not None:
                            depth -= 1
                            if depth == 0:
                                rpar = t
                                break
                    al = f.args.loc
                    if lpar is not None and rpar is not None and al is not None:
                        exp = (lpar.end[0] - 1, lpar.end[1], rpar.start[0] - 1, rpar.start[1])
                        inner_ok = (exp[0], exp[1]) <= (al[0], al[1]) and (al[2], al[3]) <= (exp[2], exp[3])
                        if not inner_ok:
                            self.fail('C06', f'loc.arguments:{tag}', f'arguments.loc {tuple(al)} does not lie between the '
                                      f'parentheses of the def {exp}')
            self.distinct.add(('loc', self.name, id(f)))
        # siblings ordered and disjoint
        child_map = {}
        for c in walked:
            child_map.setdefault(id(c.parent) if c.parent else None, []).append(c)
        for f in walked:
            prev = None
            if f.a.__class__.__name__ in ('JoinedStr', 'TemplateStr', 'FormattedValue', 'Interpolation'):
                continue
            for c in child_map.get(id(f), []):
                if c.loc is None or not hasattr(c.a, 'lineno'):
                    continue
                if prev is not None and (prev.loc[2], prev.loc[3]) > (c.loc[0], c.loc[1]):
                    self.fail('C06', f'siblings:{self.name}:{f.a.__class__.__name__}@{getattr(f.a, "lineno", "?")}',
                              f'siblings overlap or are out of order: {tuple(prev.loc)} then {tuple(c.loc)}')
                    break
                prev = c
        # find_* against brute force
        pts = sorted(starts | ends)
        rects = []
        for i, p in enumerate(pts):
            for q in pts[i + 1:i + 6]:
                rects.append((p, q))
        k = self.payload.get('find_n', 120 if self.payload.get('tier') != 'thorough' else 500)
        if len(rects) > k:
            rects = self.rnd.sample(rects, k)
        located = [f for f in walked if f.loc is not None]
        # rectangles that share the start and the END COLUMN of a multi-line node but end on an earlier line, and
        # rectangles one column / one line off a node's own extent
        extra = []
        for f in located:
            l = tuple(f.loc)[:4]
            if l[2] > l[0]:
                for el in range(l[0], l[2]):
                    if l[3] <= len(lines[el]) and (el, l[3]) > (l[0], l[1]):
                        extra.append(((l[0], l[1]), (el, l[3])))
            if l[3] > 0 and (l[2], l[3] - 1) > (l[0], l[1]):
                extra.append(((l[0], l[1]), (l[2], l[3] - 1)))
        if len(extra) > k // 2:
            extra = self.rnd.sample(extra, k // 2)
        rects += extra
        order = {id(f): i for i, f in enumerate(walked)}
        def ctxtag(f):
            t = ''
            if f is not None and f.a.__class__.__name__ in ('JoinedStr', 'TemplateStr', 'FormattedValue',
                                                            'Interpolation'):
                t = '[fstring]'
            while f is not None and f.pfield is not None:
                if f.pfield.name == 'decorator_list':
                    t = '[decorator]'
                if f.parent is not None and f.parent.a.__class__.__name__ in ('JoinedStr', 'TemplateStr',
                                                                             'FormattedValue', 'Interpolation'):
                    t = '[fstring]'
                f = f.parent
            return t
        for (ln, col), (eln, ecol) in rects:
            self.ev += 1
            inside = [f for f in located if (ln, col) <= (f.loc[0], f.loc[1]) and (f.loc[2], f.loc[3]) <= (eln, ecol)]
            try:
                got = root.find_in_loc(ln, col, eln, ecol)
            except Exception as e:
                self.fail('C06', f'find_in_loc:{self.name}:{(ln, col, eln, ecol)}', f'find_in_loc raised {e!r}')
                continue
            exp = min(inside, key=lambda f: order[id(f)]) if inside else None
            if (got is None) != (exp is None) or (got is not None and tuple(got.loc) != tuple(exp.loc)):
                self.fail('C06', f'find_in_loc{ctxtag(exp or got)}:{self.name}:{(ln, col, eln, ecol)}',
                          f'find_in_loc returns {got!r}, a brute-force scan gives {exp!r}')
            contains = [f for f in located if (f.loc[0], f.loc[1]) <= (ln, col) and (eln, ecol) <= (f.loc[2], f.loc[3])]
            try:
                got = root.find_contains_loc(ln, col, eln, ecol)
            except Exception as e:
                self.fail('C06', f'find_contains_loc:{self.name}:{(ln, col, eln, ecol)}', f'raised {e!r}')
                continue
            if contains:
                best = min(contains, key=lambda f: ((f.loc[2] - f.loc[0]), 0))
                smallest = [f for f in contains if all(
                    (g.loc[0], g.loc[1]) <= (f.loc[0], f.loc[1]) and (f.loc[2], f.loc[3]) <= (g.loc[2], g.loc[3])
                    for g in contains)]
                if not smallest:   # overlapping, non-nested containers (debug f-string text): any of them will do
                    smallest = contains
                if got is None or not any(tuple(got.loc) == tuple(s.loc) for s in smallest):
                    self.fail('C06', f'find_contains_loc{ctxtag((smallest or contains)[0])}:{self.name}:{(ln, col, eln, ecol)}',
                              f'find_contains_loc returns {got!r}; the innermost containing node by brute force is '
                              f'{smallest[:1]!r}')
            # find_loc is the documented composition: an exact match, else what lies inside, else what contains
            try:
                c = root.find_contains_loc(ln, col, eln, ecol, True)
                if c is not None and tuple(c.loc)[:4] == (ln, col, eln, ecol):
                    want = c
                else:
                    want = root.find_in_loc(ln, col, eln, ecol) or c
                got = root.find_loc(ln, col, eln, ecol)
            except Exception as e:
                self.fail('C06', f'find_loc:{self.name}:{(ln, col, eln, ecol)}', f'find_loc raised {e!r}')
                continue
            if (got is None) != (want is None) or (got is not None and got is not want and tuple(got.loc) != tuple(want.loc)):
                self.fail('C06', f'find_loc{ctxtag(want or got)}:{self.name}:{(ln, col, eln, ecol)}',
                          f'find_loc returns {got!r}; exact match / find_in_loc / find_contains_loc (its documented '
                          f'composition) give {want!r}')
            self.distinct.add(('find', self.name, ln, col, eln, ecol))

    # ---------------------------------------------------------------------------------------------------------------
    # C05
    def c05(self):
        FST = self.FST
        root = self.root
        # whole program: lossless + equal to CPython
        self.ev += 1
        if root.src != self.src:
            self.fail('C05', f'lossless:{self.name}', 'FST(src).src != src')
        v = tree_diff(ast.parse(self.src), root.a)
        if v:
            self.fail('C05', f'exec:{self.name}', f'FST(src, "exec") differs from ast.parse: {v}')
        self.distinct.add(('exec', self.name))
        ptree = ast.parse(self.src)
        lines = self.src.split('\n')

        def seg(n):
            return ast.get_source_segment(self.src, n)

        def rebased(n, first_line_col):
            """copy of n with positions relative to the fragment"""
            import copy
            m = copy.deepcopy(n)
            l0 = n.lineno
            for x in ast.walk(m):
                if hasattr(x, 'lineno'):
                    if x.lineno == l0:
                        x.col_offset -= first_line_col
                    if x.end_lineno == l0:
                        x.end_col_offset -= first_line_col
                    x.lineno -= l0 - 1
                    x.end_lineno -= l0 - 1
            return m
        in_fstr = set()
        for j in ast.walk(ptree):
            if isinstance(j, ast.JoinedStr):
                in_fstr.update(id(x) for x in ast.walk(j) if x is not j)
        slice_tuples = {id(x.slice) for x in ast.walk(ptree) if isinstance(x, ast.Subscript)}
        nodes = [x for x in ast.walk(ptree) if id(x) not in in_fstr and id(x) not in slice_tuples
                 and not getattr(x, 'decorator_list', None)]
        if len(nodes) > 400:
            nodes = self.rnd.sample(nodes, 400)
        for n in nodes:
            if not hasattr(n, 'lineno'):
                continue
            text = seg(n)
            if text is None:
                continue
            mode = None
            if isinstance(n, ast.expr) and not isinstance(n, (ast.Starred, ast.Slice)):
                in_str = False
                mode = 'expr'
            elif isinstance(n, ast.stmt):
                mode = 'stmt' if n.col_offset == 0 else None
            elif isinstance(n, ast.pattern) and not isinstance(n, ast.MatchStar):
                mode = 'pattern'
            elif isinstance(n, ast.arg):
                mode = 'arg'
            elif isinstance(n, ast.keyword):
                mode = 'keyword'
            elif isinstance(n, ast.alias):
                mode = None
            elif isinstance(n, ast.ExceptHandler):
                mode = 'ExceptHandler' if n.col_offset == 0 else None
            if mode is None or text.startswith('elif'):
                continue
            if isinstance(n, ast.expr):
                # fragments inside f-strings have positions relative to the string: skip
                continue_ = False
                for p in ast.walk(ptree):
                    pass
            self.ev += 1
            tag = f'{self.name}:{mode}:{n.__class__.__name__}@{n.lineno}:{n.col_offset}'
            first_col = n.col_offset  # bytes; ast positions are bytes on both sides
            try:
                got = FST(text, mode)
            except Exception as e:
                # a fragment that is valid inside its construct may be invalid alone only for these documented reasons
                if isinstance(n, (ast.Yield, ast.YieldFrom, ast.NamedExpr, ast.Tuple, ast.GeneratorExp, ast.Await)):
                    continue
                self.fail('C05', f'mode.reject:{tag}', f'FST({text[:60]!r}, {mode!r}) raised {e!r} for a fragment taken '
                          'from a valid program')
                continue
            if got.src != text:
                self.fail('C05', f'mode.lossless:{tag}', f'FST(fragment, {mode!r}).src differs from the fragment')
                continue
            exp = rebased(n, first_col)
            ga = got.a
            if isinstance(ga, ast.Module) and len(ga.body) == 1 and mode == 'stmt':
                ga = ga.body[0]
            if isinstance(ga, ast.Expression):
                ga = ga.body
            inside_fstr = False
            vv = tree_diff(exp, ga)
            if vv and 'ctx' in vv:
                vv = tree_diff(exp, ga, pos=True) if False else None  # Store/Del contexts become Load when parsed alone
            if vv:
                self.fail('C05', f'mode.tree:{tag}', f'FST({text[:60]!r}, {mode!r}) differs from the sub-tree of the '
                          f'enclosing parse (positions rebased): {vv}')
            self.distinct.add(('mode', self.name, mode, n.lineno, n.col_offset, n.__class__.__name__))
        if self.name.startswith('p01'):
            self.c05_fragments()
        # invalid text must be rejected, never parsed into something else because of the wrapper
        bad = {'expr': ['a b', 'a,\n)', ')', 'a) + (b', 'x = 1', 'pass', '', 'a #\n+'],
               'pattern': ['a b', ')', 'a) | (b', 'x = 1', ''], 'arg': ['a, b', 'a)', 'a=1', '*a', ''],
               'keyword': ['a', 'a=1, b=2', 'a=1)', ''], 'alias': ['a b', 'a as', 'a, b', ''],
               'withitem': ['a as', 'a, b', 'a) as (b', ''], 'ExceptHandler': ['except', 'except:', 'x = 1'],
               'match_case': ['case', 'case x', 'x = 1'], 'Slice': ['a', 'a:b:c:d', ''],
               'comprehension': ['for a', 'a in b', 'for a in b)', ''], 'arguments': ['a b', 'a,,b', 'a)', '**a, b'],
               'operator': ['', '++', 'a'], 'cmpop': ['', 'is is', '=']}
        for mode, texts in bad.items():
            for t in texts:
                self.ev += 1
                try:
                    got = FST(t, mode)
                except Exception:
                    self.distinct.add(('bad', mode, t))
                    continue
                # accepted: then it must really be valid in the natural embedding
                self.distinct.add(('bad-accepted', mode, t))
                embed = {'expr': '(\n{}\n)', 'pattern': 'match _:\n case (\n{}\n): pass', 'arg': 'def f(\n{}\n): pass',
                         'keyword': 'f(\n{}\n)', 'alias': 'import {}', 'withitem': 'with (\n{}\n): pass',
                         'ExceptHandler': 'try: pass\n{}', 'match_case': 'match _:\n {}', 'Slice': 'a[\n{}\n]',
                         'comprehension': '[_ \n{}\n]', 'arguments': 'def f(\n{}\n): pass', 'operator': 'a {} b',
                         'cmpop': 'a {} b'}[mode]
                try:
                    ast.parse(embed.format(t))
                except SyntaxError:
                    if self.name.startswith('p01'):
                        self.fail('C05', f'mode.accepts_invalid:{mode}:{t!r}',
                                  f'FST({t!r}, {mode!r}) is accepted (-> {got.a.__class__.__name__} {got.src!r}) but the '
                                  'text is invalid inside the natural embedding of that mode')


FRAGS = {
    'expr': ['a', 'a + b', 'a, b', 'a,\n"éé", b, # c', 'a,\n"éé", b # comment', '(a, b)', 'f(x)', 'a if b else c',
             'lambda: x', '[i for i in j]', '"s" "t"', 'a\\\n+ b', 'a  # c', '# c\na', 'é + ü', 'x := 1', 'yield y',
             'a.b[c](d)', '-x ** 2', 'not a', 'a < b < c', '{**k}', 'a,', '*a, b', 'await z', "f'{x=}'",
             '(\na\n)', 'a\n', '\na', 'a b', 'a +', ') + (', 'a)', '(a', '', 'x = 1', 'pass', 'a;', 'a \\\n;', 'a # c\n;',
             'f(x) \\\n ;'],
    'expr_all': ['*a', '*a,', '*a\n ,', '*abc\n  \\\n   ,', '*a # comment\n ,', 'a:b', 'a:b, c', '*a, b:c', 'a', 'a b',
                 'b].c[d', 'b](c)[d'],
    'expr_slice': ['a', 'a:b', 'a:b:c', ':', 'a:b, c', '*a', 'a,', 'a b', '', 'b].c[d', 'b](c)[d', 'b][c'],
    'arg': ['a', 'a: int', 'a: *b', 'a: *b, **c', 'a: *b, c', 'a, b', 'a=1', 'a: int = 1', '*a', '**a', 'a  # c',
            'é: "ü"', 'a:\n int', '', 'a) -> (b', 'a: int) -> (b', 'a): pass\ndef g(b'],
    'keyword': ['a=1', '**a', 'a = (\n1)', 'a=1, b=2', 'a', 'a=1  # c', 'é="ü"', 'a=\n1', '', 'a=1)(b=2', 'x)(a=1', 'a=1)[b'],
    'pattern': ['a', '1', 'a | b', 'a, b', 'a,\n"éé", b, # c', '[a, *b]', '{1: x, **r}', 'C(a, k=b)', 'a as b',
                '*a', '_', 'None', '-1', '1+2j', 'a.b', '(a)', 'a b', 'a |', '', 'a if x', 'a | b if x', 'a, b if x',
                '1 if x'],
    'withitem': ['a', 'a as b', 'a as (b, c)', '(a) as b', 'a, b', 'a as', 'f(x) as y  # c', '', 'yield from g', 'yield g',
                 'x := 1', '(yield from g)', '(yield g) as h', '(x := 1)'],
    'comprehension': ['for a in b', 'for a in b if c', 'async for a in b', 'for a, b in c if d if e',
                      'for a in b for c in d', 'for a', 'for a in b)', 'for é in ü', ''],
}

EMBED = {
    'expr': [('(\n', '\n)', lambda t: t.body[0].value), ('_[\n', '\n]', lambda t: t.body[0].value.slice)],
    'expr_all': [('_[\n', '\n]', lambda t: t.body[0].value.slice)],
    'expr_slice': [('_[\n', '\n]', lambda t: t.body[0].value.slice)],
    'arg': [('def _(\n', '\n): pass', lambda t: _one(t.body[0].args)),
            ('def _(*\n', '\n): pass', lambda t: _onevararg(t.body[0].args))],
    'keyword': [('_(\n', '\n)', lambda t: _onekw(t.body[0].value))],
    'pattern': [('match _:\n case (\n', '\n): pass', lambda t: t.body[0].cases[0].pattern),
                ('match _:\n case \\\n', '\\\n: pass', lambda t: t.body[0].cases[0].pattern),
                ('match _:\n case [\n', '\n]: pass', lambda t: _seq_or_only(t.body[0].cases[0].pattern))],
    'withitem': [('with (\n', '\n): pass', lambda t: _onelist(t.body[0].items))],
    'comprehension': [('[_\n', '\n]', lambda t: _onelist(t.body[0].value.generators))],
}


def _one(args):
    allargs = args.posonlyargs + args.args + args.kwonlyargs + ([args.vararg] if args.vararg else []) + \
        ([args.kwarg] if args.kwarg else [])
    if len(allargs) != 1 or args.defaults or any(d is not None for d in args.kw_defaults) or args.vararg or args.kwarg:
        raise SyntaxError('not exactly one plain arg')
    return allargs[0]


def _onevararg(args):
    if args.posonlyargs or args.args or args.kwonlyargs or args.kwarg or not args.vararg:
        raise SyntaxError('not exactly one vararg')
    return args.vararg


def _seq_or_only(p):
    """`[ frag ]`: a lone `*a` is the MatchStar itself, anything with a comma is the (bracketed) sequence"""
    if len(p.patterns) == 1 and isinstance(p.patterns[0], ast.MatchStar):
        return p.patterns[0]
    p._structure_only = True
    return p


def _sig(src):
    try:
        return [t.string for t in tokenize.generate_tokens(io.StringIO(src + '\n').readline)
                if t.type not in (tokenize.COMMENT, tokenize.NL, tokenize.NEWLINE, tokenize.ENDMARKER,
                                  tokenize.INDENT, tokenize.DEDENT)]
    except Exception:
        return None


def _escaped(full_src, node, frag):
    """did the fragment escape its slot in the embedding (e.g. `) + (`)?  The node must cover exactly the
    significant tokens of the fragment, up to balanced outer parentheses/brackets and a trailing comma"""
    if not hasattr(node, 'lineno'):
        return False   # unpositioned node kinds (withitem, comprehension): the one-element guards do the job
    seg = ast.get_source_segment(full_src, node)
    a, b = _sig(seg or ''), _sig(frag)
    if a is None or b is None:
        return True
    def strip(x):
        x = list(x)
        while len(x) >= 2 and ((x[0], x[-1]) in (('(', ')'), ('[', ']'))):
            x = x[1:-1]
        return x
    return strip(a) != strip(b) and a != b and strip(a) != b and a != strip(b)


def _onekw(call):
    if call.args or len(call.keywords) != 1:
        raise SyntaxError('not exactly one keyword')
    return call.keywords[0]


def _onelist(lst):
    if len(lst) != 1:
        raise SyntaxError('not exactly one element')
    return lst[0]


def _c05_fragments(self):
    """embedding oracle: FST(fragment, mode) equals the sub-tree CPython produces for the fragment inside the natural
    construct of that mode (positions relative to the fragment), and text invalid there is rejected"""
    import copy
    FST = self.FST
    for mode, frags in FRAGS.items():
        for frag in frags:
            self.ev += 1
            exp = None
            nlines_pre = None
            for pre, post, get in EMBED[mode]:
                try:
                    t = ast.parse(pre + frag + post)
                    node = get(t)
                except (SyntaxError, IndexError, AttributeError):
                    continue
                if mode in ('expr',) and isinstance(node, ast.Tuple) and pre.startswith('(') and \
                        not frag.lstrip().startswith('('):
                    continue   # unparenthesised tuple: the parenthesised embedding would include the parentheses
                if mode == 'pattern' and isinstance(node, ast.MatchSequence) and pre.endswith('(\n') and \
                        not frag.lstrip().startswith(('(', '[')):
                    continue
                if mode == 'withitem' and isinstance(getattr(node, 'context_expr', None), (ast.Yield, ast.YieldFrom, ast.NamedExpr)) \
                        and not frag.lstrip().startswith('('):
                    continue   # only valid because of the embedding's own parentheses: `with yield x: pass` is a SyntaxError
                # the embedding must not have let the fragment escape its slot
                if _escaped(pre + frag + post, node, frag) and not getattr(node, '_structure_only', False):
                    continue
                alt = None
                if isinstance(node, ast.Tuple) and len(node.elts) == 1 and isinstance(node.elts[0], ast.Starred) \
                        and ',' not in frag:
                    alt = node        # a lone `*a` in a subscript: Tuple for CPython; pfst may return the Starred
                    node = node.elts[0]
                exp = copy.deepcopy(node)
                exp._alt = copy.deepcopy(alt) if alt is not None else None
                if exp._alt is not None:
                    for x in ast.walk(exp._alt):
                        if hasattr(x, 'lineno'):
                            x.lineno -= pre.count('\n')
                            x.end_lineno -= pre.count('\n')
                exp._structure_only = getattr(node, '_structure_only', False)
                k = pre.count('\n')
                for x in ast.walk(exp):
                    if hasattr(x, 'lineno'):
                        x.lineno -= k
                        x.end_lineno -= k
                break
            tag = f'{mode}:{frag!r}'
            try:
                got = FST(frag, mode)
            except Exception as e:
                if exp is not None and frag.strip() and not isinstance(exp, (ast.Yield, ast.YieldFrom, ast.NamedExpr)):
                    self.fail('C05', f'frag.reject:{tag}', f'FST({frag!r}, {mode!r}) raised {e!r} although the text is a '
                              f'valid {mode} inside its natural embedding')
                self.distinct.add(('frag-rejected', mode, frag))
                continue
            self.distinct.add(('frag', mode, frag))
            if exp is None:
                self.fail('C05', f'frag.accepts_invalid:{tag}', f'FST({frag!r}, {mode!r}) is accepted (-> '
                          f'{got.a.__class__.__name__}) but the text is not a valid {mode} in any natural embedding')
                continue
            if got.src != frag:
                self.fail('C05', f'frag.lossless:{tag}', f'FST({frag!r}, {mode!r}).src is {got.src!r}')
                continue
            ga = got.a
            if isinstance(ga, ast.Expression):
                ga = ga.body
            v = tree_diff(exp, ga, pos=not getattr(exp, '_structure_only', False))
            if v and getattr(exp, '_alt', None) is not None:
                v = tree_diff(exp._alt, ga)
            if v and ': type Store' not in v and 'ctx' not in v:
                self.fail('C05', f'frag.tree:{tag}', f'FST({frag!r}, {mode!r}) differs from what CPython produces for the '
                          f'fragment inside its natural embedding (positions relative to the fragment): {v}')


    # block-level fragments (indent-based wrappers): every expression node of the result must sit exactly on the text
    # that denotes it - judged by CPython on the text at the node's own coordinates
    for mode, frags in BLOCK_FRAGS.items():
        for frag in frags:
            self.ev += 1
            tag = f'{mode}:{frag!r}'
            try:
                got = FST(frag, mode)
            except Exception as e:
                self.fail('C05', f'blockfrag.reject:{tag}', f'FST({frag!r}, {mode!r}) raised {e!r}')
                continue
            self.distinct.add(('blockfrag', mode, frag))
            if got.src != frag:
                self.fail('C05', f'blockfrag.lossless:{tag}', f'FST({frag!r}, {mode!r}).src is {got.src!r}')
                continue
            instr = set()
            for j in ast.walk(got.a):
                if isinstance(j, (ast.JoinedStr,)):
                    instr.update(id(x) for x in ast.walk(j) if x is not j)
            for a in ast.walk(got.a):
                if not isinstance(a, ast.expr) or isinstance(a, (ast.Starred, ast.Slice)) or id(a) in instr:
                    continue
                try:
                    seg = ast.get_source_segment(frag, a)
                    back = ast.parse('(\n' + seg + '\n)', mode='eval').body if seg is not None else None
                except (SyntaxError, ValueError, IndexError):
                    back = None
                want = ast.dump(a).replace('Store()', 'Load()').replace('Del()', 'Load()')
                if back is None or ast.dump(back) != want:
                    self.fail('C05', f'blockfrag.positions:{tag}:{a.__class__.__name__}@{a.lineno}:{a.col_offset}',
                              f'FST({frag!r}, {mode!r}): the {a.__class__.__name__} at ({a.lineno}, {a.col_offset})-'
                              f'({a.end_lineno}, {a.end_col_offset}) does not sit on the text that denotes it '
                              f'(text there: {seg!r})')
                    break


BLOCK_FRAGS = {
    '_match_cases': ['case 1: pass', 'case 1:\n x = """a\nb""", (c,\n  d)\ncase 2: pass',
                     'case 1:\n x = """a\nb""", [c,\n  d], e\n y = g("""p\nq""".r(s,\n   t).u, v)\ncase 2: pass',
                     'case [a, b] if c:\n  y = f("""p\n q""" + r,\n    s)\n  z = 1',
                     'case {1: a}:\n  v = \'\'\'é\né\'\'\', (é,\n é)'],
    'match_case': ['case 1:\n x = """a\nb""", (c,\n  d)', 'case 1:\n x = """a\nb""", [c,\n  d], e', 'case a | b:\n  w = (1,\n 2)'],
    '_ExceptHandlers': ['except E:\n x = """a\nb""", (c,\n  d)\nexcept F as g: pass',
                        'except E:\n x = """a\nb""", [c,\n  d], e\nexcept F as g: pass',
                        'except (A,\n  B): pass'],
    'ExceptHandler': ['except E as e:\n x = """a\nb""", (c,\n  d)'],
    'stmts': ['x = """a\nb""", (c,\n  d)\ny = 2', 'if q:\n x = """a\nb""", [c,\n  d], e', 'if a:\n  x = """a\n b""" + (c,\n d)[0]\nelse:\n  pass'],
    'stmt': ['x = """a\nb""", (c,\n  d)'],
}


R.c05_fragments = _c05_fragments


def work(name, src, payload):
    r = R(name, src, payload)
    for p in payload['props']:
        getattr(r, p.lower())()
    return {'evaluations': r.ev, 'distinct': list(r.distinct), 'failures': r.failures, 'samples': r.samples[:1] or [
        {'program': name, 'nodes': r.ev}], 'counts': {}}


def main(payload):
    from contracts import b_lib
    progs = programs(payload)
    payload = dict(payload, norm=False)
    res = b_lib.run_parallel('b_read', 'work', progs, payload)
    props = ','.join(payload['props'])
    return b_lib.merge(
        f'{props}.B.read_sweep', res,
        rule='every node of every program in scope (all nodes for C14 walk/C06 loc; sampled nodes for navigation, '
             'rectangles and fragments); distinct = distinct (check kind, program, node / rectangle / fragment)',
        scope=f'{len(progs)} programs (corpus; thorough adds standard-library modules from '
              f'{sysconfig.get_paths()["stdlib"]})')


def replay(payload):
    from contracts import b_lib
    rep = payload.get('replay') or payload
    progs = dict(programs({'tier': 'thorough', 'seed': rep.get('seed', 0), 'interleave': 5}))
    name = rep.get('program')
    if name not in progs:
        return {'reproduced': False, 'note': 'program not in scope'}
    prop = rep['key'].split('.')[0]
    r = work(name, progs[name], {'props': [prop], 'tier': 'thorough', 'seed': rep.get('seed', 0)})
    hit = [f for f in r['failures'] if f['key'] == rep['key']]
    return {'reproduced': bool(hit), 'failure': hit[:1]}
