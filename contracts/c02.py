"""C02 - an edited tree is observationally identical to a fresh parse of its own source."""
from pyvc import native
from pyvc.contract import verify_all
from contracts import k_cache, k_links, k_offset, k_view


def run(rep, tier, seed):
    # views are live windows: after an edit made through a view its bounds must describe the same window a fresh view would
    verify_all(rep, k_cache.specs('C02') + k_links.specs('C02') + k_offset.specs_flush('C02') + k_view.specs('C02'))
    k_cache.flush_structural(rep, 'C02')
    rep.trusted.append('b2c / c2b of source lines are uninterpreted here (their contracts are proved under C06)')
    rep.remainder = ('flush-on-write of every position-writing site, the work lists of _make_fst_tree / _unmake_fst_tree / '
                     '_touchall(children) as a whole (their per-node bodies are proved), computed locations: bounded stand-in only')
    sec = native.run('b_edit', 'main', {'props': ['C02'], 'tier': tier, 'seed': seed, 'donor_n': 3, 'stride': 3,
                                        'ops': ['self', 'remove', 'donor', 'slice', 'accessors', 'pars'], 'norm': True})
    sec['native_entry'] = ('b_edit', 'replay')
    rep.bounded(sec)
    sec = native.run('b_raw', 'main', {'props': ['C02'], 'tier': tier, 'seed': seed, 'ops': ['offset']})
    sec['native_entry'] = ('b_raw', 'replay')
    rep.bounded(sec)
