"""C02 - an edited tree is observationally identical to a fresh parse of its own source."""
from pyvc import native


def run(rep, tier, seed):
    sec = native.run('b_edit', 'main', {'props': ['C02'], 'tier': tier, 'seed': seed, 'donor_n': 3, 'stride': 3,
                                        'ops': ['self', 'remove', 'donor', 'slice', 'accessors'], 'norm': True})
    sec['native_entry'] = ('b_edit', 'replay')
    rep.bounded(sec)
    sec = native.run('b_raw', 'main', {'props': ['C02'], 'tier': tier, 'seed': seed, 'ops': ['offset']})
    sec['native_entry'] = ('b_raw', 'replay')
    rep.bounded(sec)
