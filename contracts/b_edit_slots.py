"""slot descriptors used to key bounded findings"""
import ast


def slot_desc(root_ast, path):
    """ParentClass.field[ctx] of the slot designated by path (call-site class used to key findings)"""
    t = root_ast
    parent = None
    for name, idx in path:
        parent = t
        t = getattr(t, name)
        if idx is not None:
            t = t[idx]
    if parent is None:
        return 'root'
    d = f'{parent.__class__.__name__}.{path[-1][0]}'
    ctx = getattr(t, 'ctx', None) or getattr(parent, 'ctx', None)
    if ctx is not None and not isinstance(ctx, ast.Load):
        d += f'[{ctx.__class__.__name__}]'
    return d


def under_fstring(root_ast, path):
    t = root_ast
    for name, idx in path:
        t = getattr(t, name)
        if idx is not None:
            t = t[idx]
        if t.__class__.__name__ in ('JoinedStr', 'TemplateStr'):
            return True
    return False


def _nosimple(d):
    return d.replace('simple=1', 'simple=?').replace('simple=0', 'simple=?')


