"""C01/P - the re-indentation kernel: fst_core._indent_lns, _dedent_lns, _redent_lns.

Each function rewrites the leading whitespace of a set of lines and then tells _offset_lns by how many columns the
nodes on each line have to move.  Contract (for every line x of `lns`, and every line y outside it):

  text      new[x] == P + old[x][c:]    with P a prefix made of the `indent` string only (possibly empty) and the removed
            old[x][:c] leading whitespace only (c <= number of leading blanks) or exactly the `dedent` prefix
  delta     the column delta handed to _offset_lns for x  ==  len(P) - c     (every token of the line moves by exactly the
            amount its nodes are moved: composed with the _offset_lns contract, nodes stay on their text)
  empty     an empty line is left alone and is NOT offset
  frame     new[y] == old[y], y is not offset

The loop is verified with an inductive invariant at one arbitrary (skolem) position j* of the iteration order and one
arbitrary line y* outside the set; the back-fill loop that switches from the uniform delta to per-line deltas
(`dcol_offsets`) has its own invariant.

Abstract domain for line text (stated, not hidden): a line value is  P + orig_i[c:]  represented by (i, len(P), c,
P-is-indentation-only); leading-blank count and `startswith(dedent)` of an ORIGINAL line are uninterpreted (WS0, SW0)
with 0 <= WS0(i) <= LEN0(i) and SW0(i) -> LEN0(i) >= len(dedent).  Indentation strings are assumed ASCII (their byte
length is their length: _indent_lns passes len(indent.encode()), _redent_lns passes character lengths)."""
from pyvc.logic import and_, or_, not_, eq, implies, truth, ite


def specs(prop='C01'):
    import z3
    from pyvc import sym
    from pyvc.contract import Fragment
    from pyvc.interp import Interp, IFunc, SObj
    from pyvc.loops import LoopSpec
    from pyvc.sym import cur, _wrap_bool, _wrap_int, SInt, Unsupported
    from pyvc.values import SDict

    I = z3.IntSort()
    B = z3.BoolSort()
    LEN0 = z3.Function('LEN0', I, I)
    WS0 = z3.Function('WS0', I, I)
    SW0 = z3.Function('SW0', I, B)
    ELEM = z3.Function('LNS_elem', I, I)
    POS = z3.Function('LNS_pos', I, I)
    INS = z3.Function('LNS_in', I, B)

    def zi(v):
        return sym._z(v)

    class IndStr:
        """an indentation string parameter (`indent` / `dedent`) or a prefix of it"""

        def __init__(self, name, length, is_indent):
            self.name, self.length, self.is_indent = name, length, is_indent

        def _sym_len(self):
            return self.length

        def _sym_truth(self):
            return truth(self.length > 0)

        def _sym_eq(self, o):
            if o is self:
                return True
            if isinstance(o, str):
                return eq(self.length, 0) if o == '' else False
            if isinstance(o, IndStr):
                # two different indentation parameters: equal text implies equal length; the converse is not assumed
                b = cur().bool(cur().fresh_name(f'{self.name}=={o.name}'))
                cur().assume(implies(b, eq(self.length, o.length)))
                return b
            return False

        def encode(self):
            class _Bytes:
                def _sym_len(s2):
                    return self.length     # ASCII assumption
            return _Bytes()

        def _sym_getitem(self, idx):
            if isinstance(idx, slice) and idx.start is None and idx.step is None:
                m = idx.stop
                if not truth(m >= 0):
                    raise Unsupported('negative slice bound of an indentation string')
                return IndStr(f'{self.name}[:m]', sym.smin(m, self.length), self.is_indent)
            raise Unsupported('indexing of an indentation string')

        def __add__(self, o):
            if isinstance(o, LineVal):
                return LineVal(o.line, self.length + o.plen, o.cut, o.pre_ok and self.is_indent if truth(self.length > 0)
                               else o.pre_ok, o.orig_len)
            raise Unsupported('indentation + non-line')

    def _unsupported(msg):
        raise Unsupported(msg)

    class LineVal:
        """P + orig_line[cut:]"""

        def __init__(self, line, plen, cut, pre_ok, orig_len):
            self.line, self.plen, self.cut, self.pre_ok, self.orig_len = line, plen, cut, pre_ok, orig_len

        def _sym_len(self):
            return self.plen + self.orig_len - self.cut

        def _sym_truth(self):
            return truth(self._sym_len() > 0)

        def pristine(self):
            return and_(eq(self.plen, 0), eq(self.cut, 0))

        def startswith(self, p):
            if not isinstance(p, IndStr):
                raise Unsupported('startswith(non-indentation)')
            if truth(self.pristine()):
                r = _wrap_bool(SW0(zi(self.line)))
                cur().assume(implies(r, self.orig_len >= p.length))
                return r
            b = cur().bool(cur().fresh_name('startswith'))
            cur().assume(implies(b, self._sym_len() >= p.length))
            return b

        def leading_blanks(self):
            if truth(self.pristine()):
                w = _wrap_int(WS0(zi(self.line)))
                cur().assume(and_(0 <= w, w <= self.orig_len))
                return w
            w = cur().int(cur().fresh_name('ws'))
            cur().assume(and_(0 <= w, w <= self._sym_len()))
            return w

        def _sym_getitem(self, idx):
            if isinstance(idx, slice) and idx.stop is None and idx.step is None:
                c = idx.start
                if not truth(c >= 0):
                    raise Unsupported(f'negative slice start on a line: {c!r}')
                c = sym.smin(c, self._sym_len())
                if truth(c <= self.plen):
                    return LineVal(self.line, self.plen - c, self.cut, self.pre_ok, self.orig_len)
                return LineVal(self.line, 0, self.cut + (c - self.plen), True, self.orig_len)
            raise Unsupported('indexing of a line')

    class Match:
        def __init__(self, v):
            self.v = v

        def end(self):
            return self.v

    class ReEmptyLineStart:
        def match(self, l, pos=0, endpos=None):
            if not isinstance(l, LineVal):
                raise Unsupported('re_empty_line_start.match(non-line)')
            return Match(l.leading_blanks())

    class Lines:
        """root._lines as three arrays over the line number: len(P), cut, P-is-indentation-only"""

        def __init__(self):
            self.plen = z3.K(I, z3.IntVal(0))
            self.cut = z3.K(I, z3.IntVal(0))
            self.ok = z3.K(I, z3.BoolVal(True))
            self.foreign_write = False

        def _sym_getitem(self, i):
            if isinstance(i, slice):
                raise Unsupported('slice of lines')
            L = _wrap_int(LEN0(zi(i)))
            cur().assume(L >= 0)
            return LineVal(i, _wrap_int(z3.Select(self.plen, zi(i))), _wrap_int(z3.Select(self.cut, zi(i))),
                           truth(_wrap_bool(z3.Select(self.ok, zi(i)))), L)

        def _sym_setitem(self, i, v):
            if not isinstance(v, LineVal) or not truth(eq(v.line, i)):
                self.foreign_write = True
                raise Unsupported('a line is assigned text that is not derived from the same line')
            self.plen = z3.Store(self.plen, zi(i), zi(v.plen))
            self.cut = z3.Store(self.cut, zi(i), zi(v.cut))
            self.ok = z3.Store(self.ok, zi(i), z3.BoolVal(True) if v.pre_ok is True else
                               (z3.BoolVal(False) if v.pre_ok is False else zi(v.pre_ok)))

        def havoc(self, tag):
            c = cur()
            self.plen = z3.Const(c.fresh_name(f'{tag}.plen'), z3.ArraySort(I, I))
            self.cut = z3.Const(c.fresh_name(f'{tag}.cut'), z3.ArraySort(I, I))
            self.ok = z3.Const(c.fresh_name(f'{tag}.ok'), z3.ArraySort(I, B))

        def state(self, i):
            return (_wrap_int(z3.Select(self.plen, zi(i))), _wrap_int(z3.Select(self.cut, zi(i))),
                    _wrap_bool(z3.Select(self.ok, zi(i))))

    class SSet:
        def __init__(self):
            self.dom = z3.K(I, z3.BoolVal(False))
            self.nonempty = False

        def add(self, k):
            self.dom = z3.Store(self.dom, zi(k), z3.BoolVal(True))
            self.nonempty = True

        def has(self, k):
            return _wrap_bool(z3.Select(self.dom, zi(k)))

        def _sym_contains(self, k):
            return self.has(k)

        def _sym_truth(self):
            return truth(self.nonempty)

        def havoc(self, tag):
            c = cur()
            self.dom = z3.Const(c.fresh_name(f'{tag}.dont'), z3.ArraySort(I, B))
            self.nonempty = c.bool(c.fresh_name(f'{tag}.dont_nonempty'))

    class Diff:
        def __init__(self, lns, excl):
            self.lns, self.excl = lns, excl

    class Lns:
        """`lns`: a set iterated in some order - a sequence of K pairwise different line numbers"""

        def __init__(self, K):
            self.K = K

        def _sym_len(self):
            return self.K

        def _sym_truth(self):
            return truth(self.K > 0)

        def _sym_getitem(self, k):
            e = _wrap_int(ELEM(zi(k)))
            cur().assume(and_(_wrap_bool(INS(zi(e))), eq(_wrap_int(POS(zi(e))), k), e >= 0))
            return e

        def __sub__(self, o):
            if isinstance(o, SSet):
                return Diff(self, o)
            raise Unsupported('lns - non-set')

    def dval(d, k):
        return _wrap_int(z3.Select(d.val, zi(k)))

    def offset_membership(arg, dcol, x):
        """(is line x offset, by how much) according to what was handed to _offset_lns"""
        inx = _wrap_bool(INS(zi(x)))
        if isinstance(arg, Lns):
            return inx, dcol
        if isinstance(arg, Diff):
            return and_(inx, not_(arg.excl.has(x))), dcol
        if isinstance(arg, SDict):
            return arg.has(x), dval(arg, x)
        raise Unsupported(f'_offset_lns called with {arg!r}')

    # ---------------------------------------------------------------------------------------------------------------
    def run(ctx, case, loc, pre, label):
        fn = case['fn']
        K = ctx.int('K')
        jstar = ctx.int('jstar')
        ystar = ctx.int('ystar')
        lindent, ldedent = ctx.int('len_indent'), ctx.int('len_dedent')
        ctx.assume(and_(K >= 0, 0 <= jstar, jstar < K, ystar >= 0, not_(_wrap_bool(INS(zi(ystar)))),
                        lindent >= 0, ldedent >= 0))
        lns = Lns(K)
        x = lns._sym_getitem(jstar)
        ctx.assume(and_(_wrap_int(LEN0(zi(x))) >= 0, 0 <= _wrap_int(WS0(zi(x))), _wrap_int(WS0(zi(x))) <= _wrap_int(LEN0(zi(x)))))
        lines = Lines()
        indent = IndStr('indent', lindent, True)
        dedent = IndStr('dedent', ldedent, False)
        calls = []
        root = SObj('root', {}, _lines=lines, indent=IndStr('root.indent', ctx.int('len_root_indent'), True))
        self = SObj('self', {}, root=root)
        self._set('_offset_lns', lambda a, d=None: calls.append(('offset', a, d)), count=False)
        self._set('_get_indentable_lns', lambda *a, **k: lns, count=False)
        delegated = []
        self._set('_indent_lns', lambda *a, **k: delegated.append(('indent', a, k)), count=False)
        self._set('_dedent_lns', lambda *a, **k: delegated.append(('dedent', a, k)), count=False)
        it = Interp({'bistr': lambda s: s, 're_empty_line_start': ReEmptyLineStart(), 'set': SSet,
                     '_reparse_docstr_Constants': lambda *a, **k: calls.append(('reparse_docstr',))})
        it.int_is_means_eq = True
        it.empty_dict_factory = lambda: SDict(cur().fresh_name('dcol_offsets'), z3.K(I, z3.BoolVal(False)), z3.K(I, z3.IntVal(0)))
        uniform = {'_indent_lns': lindent, '_dedent_lns': -ldedent, '_redent_lns': lindent - ldedent}[fn]

        def line_ok(env, j_done):
            """what must hold for line x once it has been processed (j* < k), resp. before (j* >= k)"""
            pl, ct, ok = lines.state(x)
            L, W = _wrap_int(LEN0(zi(x))), _wrap_int(WS0(zi(x)))
            dont = env.get('dont_offset')
            dco = env.get('dcol_offsets')
            empty = eq(L, 0)
            if dco is None or not isinstance(dco, SDict):
                delta_ok = eq(pl - ct, uniform)
                in_dict_ok = True
            else:
                delta_ok = and_(dco.has(x), eq(dval(dco, x), pl - ct))
                in_dict_ok = not_(dco.has(x))
            text_ok = and_(ok, pl >= 0, ct >= 0, ct <= L,
                           or_(ct <= W, and_(_wrap_bool(SW0(zi(x))), eq(ct, ldedent))))
            done = ite(empty, and_(eq(pl, 0), eq(ct, 0), dont.has(x) if dont is not None else True, in_dict_ok),
                       and_(text_ok, delta_ok, not_(dont.has(x)) if dont is not None else True))
            todo = and_(eq(pl, 0), eq(ct, 0), ok, not_(dont.has(x)) if dont is not None else True, in_dict_ok)
            return ite(j_done, done, todo)

        def frame_ok(env):
            pl, ct, ok = lines.state(ystar)
            dont = env.get('dont_offset')
            dco = env.get('dcol_offsets')
            return and_(eq(pl, 0), eq(ct, 0), ok, not_(dont.has(ystar)) if dont is not None else True,
                        not_(dco.has(ystar)) if isinstance(dco, SDict) else True)

        def inv_main(k, env):
            dont = env.get('dont_offset')
            c = {'line': line_ok(env, jstar < k), 'frame': frame_ok(env)}
            if dont is not None:
                c['empty_set_flag'] = implies(not_(dont.nonempty), not_(dont.has(x)))
            return c

        def havoc_main(env):
            out = [lines]
            if env.get('dont_offset') is not None:
                out.append(env['dont_offset'])
            if isinstance(env.get('dcol_offsets'), SDict):
                out.append(_DictHavoc(env['dcol_offsets']))
            return out

        class _DictHavoc:
            def __init__(self, d):
                self.d = d

            def havoc(self, tag):
                c = cur()
                self.d.dom = z3.Const(c.fresh_name(f'{tag}.dco_dom'), self.d.dom.sort())
                self.d.val = z3.Const(c.fresh_name(f'{tag}.dco_val'), self.d.val.sort())

        # `dcol_offsets` switches from None to a dict inside the loop: the invariant is stated per mode and the mode is
        # havocked too (kinds: a fresh choice between None and an arbitrary dict)
        def fresh_dco():
            c = cur()
            if truth(c.bool(c.fresh_name('dco_is_none'))):
                return None
            d = SDict(c.fresh_name('dco'))
            d.dom = z3.Const(c.fresh_name('dco_dom'), d.dom.sort())
            d.val = z3.Const(c.fresh_name('dco_val'), d.val.sort())
            return d
        kinds = {'dcol_offsets': fresh_dco, 'l': lambda: None, 'lempty_start': lambda: cur().int(cur().fresh_name('les')),
                 'lindent_': lambda: cur().int(cur().fresh_name('li_'))}
        it.loop_specs[(fn, 0)] = LoopSpec(f'{prop}.{fn}.loop', inv_main, havoc_objs=havoc_main, kinds=kinds)

        if fn != '_indent_lns':
            # back-fill loop: for ln2 in lns: if ln2 is ln: break; if ln2 not in dont_offset: dcol_offsets[ln2] = <uniform>
            def inv_fill(m, env):
                dco = env['dcol_offsets']
                dont = env['dont_offset']
                pl, ct, ok = lines.state(x)
                cur_k = _wrap_int(POS(zi(env['ln'])))
                return {'before_current': m <= cur_k,
                        'filled': implies(and_(jstar < m, not_(dont.has(x))), and_(dco.has(x), eq(dval(dco, x), uniform))),
                        'not_filled': implies(or_(jstar >= m, dont.has(x)), not_(dco.has(x))),
                        'frame': not_(dco.has(ystar))}
            it.loop_specs[(fn, 1)] = LoopSpec(f'{prop}.{fn}.backfill', inv_fill,
                                               havoc_objs=lambda env: [_DictHavoc(env['dcol_offsets'])])

        f = IFunc(it, loc.node, None, fn)
        args = {'_indent_lns': (self, indent, None), '_dedent_lns': (self, dedent, None),
                '_redent_lns': (self, dedent, indent, None)}[fn]
        it.call(f, args)
        ctx.notes['outcome'] = 'return'
        if delegated:
            ctx.prove(f'{pre}.delegates_only_degenerate[{label}]',
                      fn == '_redent_lns' and or_(eq(ldedent, 0), eq(lindent, 0)))
            return
        offs = [c for c in calls if c[0] == 'offset']
        pl, ct, ok = lines.state(x)
        L, W = _wrap_int(LEN0(zi(x))), _wrap_int(WS0(zi(x)))
        if not offs:
            # early return: nothing may have changed
            ctx.prove(f'{pre}.early_return.nothing_changed[{label}]', and_(eq(pl, 0), eq(ct, 0)))
            ctx.prove(f'{pre}.early_return.only_when_noop[{label}]',
                      or_(eq(K, 0), eq(uniform, 0) if fn != '_redent_lns' else _same_strings(ctx, dedent, indent, uniform)))
            return
        ctx.prove(f'{pre}.offsets_once[{label}]', len(offs) == 1)
        _, arg, dcol = offs[0]
        inoff, delta = offset_membership(arg, dcol, x)
        ctx.prove(f'{pre}.empty_line.untouched_and_not_offset[{label}]',
                  implies(eq(L, 0), and_(eq(pl, 0), eq(ct, 0), not_(inoff))))
        ctx.prove(f'{pre}.line.is_offset[{label}]', implies(L > 0, inoff))
        ctx.prove(f'{pre}.line.delta_equals_text_shift[{label}]', implies(L > 0, eq(delta, pl - ct)),
                  info='column delta given to _offset_lns == len(new prefix) - number of removed characters')
        ctx.prove(f'{pre}.line.prefix_is_indentation[{label}]', implies(L > 0, and_(ok, pl >= 0)))
        ctx.prove(f'{pre}.line.removes_only_leading_blanks_or_dedent[{label}]',
                  implies(L > 0, and_(ct >= 0, ct <= L, or_(ct <= W, and_(_wrap_bool(SW0(zi(x))), eq(ct, ldedent))))))
        iny, _ = offset_membership(arg, dcol, ystar)
        py, cy, _ = lines.state(ystar)
        ctx.prove(f'{pre}.frame.other_lines_untouched[{label}]', and_(eq(py, 0), eq(cy, 0), not_(iny)))
        ctx.prove(f'{pre}.docstrings_reparsed_after[{label}]', calls[-1] == ('reparse_docstr',))

    def _same_strings(ctx, a, b, uniform):
        return eq(uniform, 0)

    return [Fragment(f'fst_core:{fn}', prop, f'indent.{fn}', [dict(fn=fn)], run, min_obligations=4,
                     native=('k_indent', 'replay_indent'),
                     notes='loop invariant at a skolem iteration position and a skolem outside line; abstract line text '
                           '(prefix length, cut, prefix kind); ASCII indentation assumed')
            for fn in ('_indent_lns', '_dedent_lns', '_redent_lns')]


def replay_indent(payload):
    """native: the counter-model leaves the line texts uninterpreted, so a failing input is SEARCHED on the real
    function: a bracketed list over 4 lines (any indentation is valid inside brackets) x leading blanks of each line x
    dedent / indent strings; after the call the tree must equal ast.parse of the new source"""
    import ast
    import itertools
    from fst import FST
    info = payload.get('info') or {}
    case = info.get('case', '')
    fns = [f for f in ('_indent_lns', '_dedent_lns', '_redent_lns') if f in case] or ['_indent_lns', '_dedent_lns', '_redent_lns']
    ws_opts = (0, 1, 2, 4, 6)
    strs = ('', ' ', '  ', '    ')
    for fn in fns:
        for w1, w2, w3 in itertools.product(ws_opts, repeat=3):
            for mid in ('b,', ''):
                src = 'x = [\n' + ' ' * w1 + 'a,\n' + (' ' * w2 + mid if mid else '') + '\n' + ' ' * w3 + 'c]\ny = 1'
                for d, i in itertools.product(strs, repeat=2):
                    if fn == '_redent_lns' and (not d or not i):
                        continue   # degenerate arguments are delegated (and the delegation ignores an explicit `lns`)
                    root = FST(src, 'exec')
                    lns = {1, 2, 3}
                    try:
                        if fn == '_indent_lns':
                            root._indent_lns(i, lns)
                        elif fn == '_dedent_lns':
                            root._dedent_lns(d, lns)
                        else:
                            root._redent_lns(d, i, lns)
                    except Exception as e:
                        return {'reproduced': True, 'call': f'{fn}({d!r}, {i!r}, lns={sorted(lns)}) on {src!r}',
                                'observed': repr(e)}
                    try:
                        want = ast.dump(ast.parse(root.src), include_attributes=True)
                    except SyntaxError as e:
                        return {'reproduced': True, 'call': f'{fn}({d!r}, {i!r}, lns={sorted(lns)}) on {src!r}',
                                'observed': f'source no longer parses: {root.src!r}'}
                    if ast.dump(root.a, include_attributes=True) != want:
                        return {'reproduced': True, 'call': f'{fn}({d!r}, {i!r}, lns={sorted(lns)}) on {src!r}',
                                'observed': f'node positions differ from ast.parse of the new source {root.src!r}'}
    return {'reproduced': False, 'note': 'no failing input among 5^3 x 2 line shapes x 16 (dedent, indent) pairs'}
