"""C12 - a failed edit leaves the target tree untouched and still editable."""
from contracts import k_modifying, k_order, k_options, k_view
from pyvc.contract import verify_all
from pyvc import native


def run(rep, tier, seed):
    # the dispatchers: a handler's refusal either propagates or falls back to raw with the code preserved beforehand
    verify_all(rep, k_modifying.specs('C12') + k_view.dispatcher_specs('C12') + k_view.replace_specs('C12'))
    k_modifying.usage_structural(rep, 'C12')
    k_order.c12_handlers(rep, 'C12')
    k_options.validators_finite(rep, 'C12')   # an out-of-range option value is screened before the edit starts
    k_order.c10_order(rep, 'C12')   # the raw path: parse / locate before the first splice into the real tree
    sec = native.run('b_edit', 'main', {'props': ['C12'], 'tier': tier, 'seed': seed,
                                        'ops': ['remove', 'donor', 'slice', 'views', 'optional', 'badopts', 'refusals'], 'norm': True})
    sec['native_entry'] = ('b_edit', 'replay')
    rep.bounded(sec)
    sec = native.run('b_raw', 'main', {'props': ['C12'], 'tier': tier, 'seed': seed, 'ops': ['reparse', 'rawput']})
    sec['native_entry'] = ('b_raw', 'replay')
    rep.bounded(sec)
    rep.remainder = ('raise sites inside handlers for which no order obligation could be generated (listed under '
                     'order_handlers_not_registered), and raise sites inside the mutating helpers themselves after a partial '
                     'splice: only the bounded sweep sees them')
