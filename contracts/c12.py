"""C12 - a failed edit leaves the target tree untouched and still editable."""
from contracts import k_modifying
from pyvc.contract import verify_all


def run(rep, tier, seed):
    verify_all(rep, k_modifying.specs('C12'))
