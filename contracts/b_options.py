"""C20/B - bounded runtime contracts on the real option API (native, /venv/bin/python).  Labelled bounded: the scope is
every global option x a table of valid/invalid values, all ordered pairs of options in one call, nestings of option
blocks of depth <= 3 with and without exceptions, and worker threads that set defaults / run option blocks."""
import itertools
import threading

import ast


def _vals():
    from fst import FST
    good = {
        'raw': [False, True, 'auto'], 'trivia': [True, False, 'all', 'block+1', 3, ('none', 'line'), (), (True, 'all'), (2, 'line+1'), (False, False), ('block-1', 5),
                   ('line',)],
        'coerce': [True, False], 'promote': [True, False, 'identifier', 'all'], 'elif_': [True, False],
        'pep8space': [True, False, 1], 'docstr': [True, False, 'strict'], 'pars': [True, False, 'auto'],
        'pars_walrus': [True, False, None], 'pars_arglike': [True, False, None], 'norm': [True, False, 'star', 'call'],
        'norm_self': [True, False, None, 'star'], 'norm_get': [True, False, None, 'call'],
        'set_norm': ['star', 'call'], 'op_side': ['left', 'right'], 'op': [None, '==', ['<', '>']],
        'args_as': [None, 'pos', 'kw_maybe'],
    }
    bad = {
        'raw': [None, 'x', 2], 'trivia': ['bogus', (1, 2, 3), None, ('line', 'block'), (True, 'bogus'), (False, None), (0, 'all+x'), ('block', 'bogus'),
                                              ('bogus', 'line'), (3, 'block-x'), (None, True), ('bogus',)], 'coerce': [None, 'auto', 1],
        'promote': ['x', None], 'elif_': [None, 'x'], 'pep8space': [2, None, 'x'], 'docstr': ['x', None],
        'pars': ['x', None, 2], 'pars_walrus': ['auto', 3], 'pars_arglike': ['auto', 3], 'norm': [None, 'x'],
        'norm_self': ['x', 4], 'norm_get': ['x', 4], 'set_norm': [True, None, 'x'], 'op_side': [True, 'x', None],
        'op': [3.5, object], 'args_as': ['x', True],
    }
    return good, bad


def main(payload):
    from fst import FST
    good, bad = _vals()
    defaults = FST.get_options()
    ev = 0
    distinct = set()
    failures = []
    samples = []

    def fail(key, what, **kw):
        if len(failures) < 30:
            failures.append(dict(key=key, what=what, **kw))

    def reset():
        FST.set_options(**defaults)

    names = list(defaults)
    if set(names) != set(good):
        fail('C20.B.option_table', f'global options changed: {sorted(set(names) ^ set(good))}')
    # 1. single option: valid accepted and read back / restored; invalid, unknown and call-only rejected, store unchanged
    for n in names:
        for v in good.get(n, []):
            ev += 1
            before = FST.get_options()
            try:
                old = FST.set_options(**{n: v})
            except Exception as e:
                fail(f'C20.B.set_valid[{n}={v!r}]', f'valid value rejected: {e!r}', call=f'set_options({n}={v!r})')
                continue
            now = FST.get_options()
            exp = dict(before, **{n: v})
            if now != exp or old != {n: before[n]} or FST.get_option(n) != v:
                fail(f'C20.B.set_valid[{n}={v!r}]', f'store {now} != {exp} or old {old}', call=f'set_options({n}={v!r})')
            distinct.add(('set', n, repr(v)))
            reset()
        for v in bad.get(n, []):
            ev += 1
            before = FST.get_options()
            try:
                FST.set_options(**{n: v})
                fail(f'C20.B.set_invalid[{n}={v!r}]', 'invalid value accepted', call=f'set_options({n}={v!r})')
            except Exception:   # any exception is a rejection (the property does not fix its type)
                pass
            if FST.get_options() != before:
                fail(f'C20.B.set_invalid.unchanged[{n}={v!r}]', 'store changed by a rejected call',
                     call=f'set_options({n}={v!r})')
            distinct.add(('bad', n, repr(v)))
            reset()
    for extra in ({'nonexistent': 1}, {'to': None}, {'ins_ln': 1}, {'__options_checked': True},
                  {'pars': True, '__options_checked': True}):
        ev += 1
        before = FST.get_options()
        try:
            FST.set_options(**extra)
            fail(f'C20.B.set_unknown[{sorted(extra)}]', 'unknown / call-only / marker option accepted',
                 call=f'set_options(**{extra})')
        except Exception:
            pass
        if FST.get_options() != before:
            fail(f'C20.B.set_unknown.unchanged[{sorted(extra)}]', 'store changed by a rejected call',
                 call=f'set_options(**{extra})')
        distinct.add(('unknown', repr(sorted(extra))))
        reset()
    # 2. two options in one call, one of them invalid/unknown, in both orders: nothing is changed
    for a, b in itertools.permutations(names, 2):
        va = good[a][-1] if good[a][-1] != defaults[a] else good[a][0]
        for badkw in ({b: bad[b][0]}, {'nonexistent': 1}, {'to': None}):
            for order in (0, 1):
                ev += 1
                kw = {a: va, **badkw} if order == 0 else {**badkw, a: va}
                before = FST.get_options()
                try:
                    FST.set_options(**kw)
                    fail(f'C20.B.pair[{list(kw)}]', 'call with a bad option accepted', call=f'set_options(**{kw!r})')
                except Exception:
                    pass
                after = FST.get_options()
                if after != before:
                    fail(f'C20.B.pair.atomic[{list(kw)}]', f'rejected call changed the store: '
                         f'{ {k: after[k] for k in after if after[k] != before[k]} }', call=f'set_options(**{kw!r})',
                         replayed=True)
                    reset()
                # the same through an option block: body must not run, nothing may stick
                try:
                    with FST.options(**kw):
                        fail(f'C20.B.pair.block_entered[{list(kw)}]', 'options() block entered with a bad option')
                except Exception:
                    pass
                if FST.get_options() != before:
                    fail(f'C20.B.pair.block_atomic[{list(kw)}]', 'rejected options() changed the store',
                         call=f'options(**{kw!r})')
                    reset()
                distinct.add(('pair', a, tuple(badkw), order))
    if len(samples) < 3:
        samples.append({'case': 'set_options(pars=True, docstr=<bad>) rejected, store unchanged'})
    # 3. nested option blocks with and without exceptions restore exactly
    trip = [('pars', True), ('raw', 'auto'), ('docstr', False), ('elif_', False)]
    for depth in (1, 2, 3):
        for combo in itertools.permutations(trip, depth):
            for raise_at in range(-1, depth):
                for meddle in (False, True):
                    ev += 1
                    before = FST.get_options()

                    def nest(i):
                        n, v = combo[i]
                        outer = FST.get_options()
                        with FST.options(**{n: v}):
                            if FST.get_option(n) != v:
                                fail(f'C20.B.block.visible[{combo}]', 'option not visible inside its block')
                            if meddle:
                                FST.set_options(**{n: defaults[n]})   # the block changes the managed key itself
                            if i + 1 < depth:
                                nest(i + 1)
                            if raise_at == i:
                                raise KeyError('boom')
                        if FST.get_options() != outer:
                            fail(f'C20.B.block.restore[{combo},raise_at={raise_at},meddle={meddle}]',
                                 'inner block exit did not restore', replayed=True)
                    try:
                        nest(0)
                    except KeyError:
                        pass
                    if FST.get_options() != before:
                        fail(f'C20.B.block.restore[{combo},raise_at={raise_at},meddle={meddle}]',
                             f'store after nested blocks differs: {FST.get_options()} vs {before}', replayed=True)
                        reset()
                    distinct.add(('nest', combo, raise_at, meddle))
    # 4. per-call option does not stick
    from fst import FST as F
    for n, v in (('pars', False), ('trivia', False), ('raw', True)):
        ev += 1
        before = FST.get_options()
        f = F('a = (b)')
        try:
            f.body[0].value.replace('c', **{n: v})
        except Exception:
            pass
        if FST.get_options() != before:
            fail(f'C20.B.per_call[{n}]', 'an option passed to a call changed the thread default')
        distinct.add(('percall', n))
    # 4b. object-valued options (an FST / AST node as `op`): "never consumed" - the same object handed to a sequence of
    #     calls, or installed as a block default, gives every call the result it has alone, and is itself unchanged
    OBJ_CASES = [('a == b', None, 'x', [('end', 'right'), (0, 'left'), ('end', 'right'), (1, 'right'), (1, 'left')], '<', 'cmpop'),
                 ('a == b', None, 'x', [(1, 'left'), ('end', 'right'), (0, 'left')], 'is not', 'cmpop'),
                 ('p < q >= r', None, 'y', [(1, 'right'), (2, 'left'), (1, 'right')], 'in', 'cmpop')]
    for src_o, fld, code_o, edits, opsrc, opmode in OBJ_CASES:
        def one(idx, side, **options):
            g = F(src_o)
            if fld:
                g.put_slice(code_o, idx, idx, fld, op_side=side, **options)
            else:
                g.put_slice(code_o, idx, idx, op_side=side, **options)
            return g.src
        for form in ('FST', 'AST'):
            def mk():
                o = F(opsrc, opmode)
                return o if form == 'FST' else o.a
            try:
                alone = []
                for idx, side in edits:
                    try:
                        alone.append(one(idx, side, op=mk()))
                    except Exception as e:
                        alone.append(f'refused {e.__class__.__name__}')
                op = mk()
                before = op.src if form == 'FST' else ast.dump(op)
                seq = []
                for idx, side in edits:
                    ev += 1
                    try:
                        seq.append(one(idx, side, op=op))
                    except Exception as e:
                        seq.append(f'refused {e.__class__.__name__}')
                after = op.src if form == 'FST' else ast.dump(op)
                key = f'C20.B.option_object[{src_o!r},op={opsrc!r},{form}]'
                if seq != alone:
                    fail(key + '.sequence', f'the same op={opsrc!r} {form} object passed to a sequence of calls: results '
                         f'{seq} differ from the results of each call alone {alone}')
                if after != before:
                    fail(key + '.unchanged', f'the option object was changed by the calls: {before!r} -> {after!r}')
                if form == 'FST':
                    op2 = mk()
                    with FST.options(op=op2):
                        blk = []
                        for idx, side in edits:
                            ev += 1
                            try:
                                blk.append(one(idx, side))
                            except Exception as e:
                                blk.append(f'refused {e.__class__.__name__}')
                    if blk != alone or op2.src != before:
                        fail(key + '.block_default', f'op installed by options(): results {blk} vs alone {alone}; option '
                             f'source afterwards {op2.src!r}')
                distinct.add(('option_object', src_o, opsrc, form))
            except Exception as e:
                fail(f'C20.B.option_object[{src_o!r},op={opsrc!r},{form}].harness', f'{e!r}')
    # 5. threads: defaults set in one thread are not visible in another, blocks in workers do not touch the main store
    main_before = FST.get_options()
    res = {}

    def worker(tag, n, v, use_block, raise_in_block):
        try:
            res[tag, 'start'] = FST.get_options()
            if use_block:
                try:
                    with FST.options(**{n: v}):
                        res[tag, 'inside'] = FST.get_option(n)
                        if raise_in_block:
                            raise KeyError('boom')
                except KeyError:
                    pass
                res[tag, 'after_block'] = FST.get_options()
            else:
                FST.set_options(**{n: v})
                res[tag, 'after_set'] = FST.get_option(n)
        except Exception as e:  # pragma: no cover
            res[tag, 'error'] = repr(e)

    tag = 0
    for n, v in (('pars', False), ('raw', True), ('docstr', 'strict')):
        for use_block in (False, True):
            for raise_in_block in ((False, True) if use_block else (False,)):
                for main_default in (None, good[n][0]):
                    ev += 1
                    tag += 1
                    if main_default is not None:
                        FST.set_options(**{n: main_default})
                    mb = FST.get_options()
                    t = threading.Thread(target=worker, args=(tag, n, v, use_block, raise_in_block))
                    t.start()
                    t.join()
                    key = f'C20.B.thread[{n}={v!r},block={use_block},raise={raise_in_block},main={main_default!r}]'
                    if (tag, 'error') in res:
                        fail(key, f'worker raised {res[tag, "error"]}')
                    if res.get((tag, 'start')) != defaults:
                        fail(key + '.fresh_defaults', f'new thread sees non-default options {res.get((tag, "start"))}',
                             replayed=True)
                    if FST.get_options() != mb:
                        fail(key + '.main_untouched', f'main thread store changed by worker: {FST.get_options()} vs {mb}',
                             replayed=True)
                    if use_block and res.get((tag, 'after_block')) != defaults:
                        fail(key + '.worker_restored', f'worker store not restored after block: '
                             f'{res.get((tag, "after_block"))}', replayed=True)
                    if use_block and res.get((tag, 'inside')) != v:
                        fail(key + '.worker_visible', 'option not visible inside worker block')
                    distinct.add(('thread', n, use_block, raise_in_block, main_default is None))
                    reset()
    # 6. two threads, each reading and editing ITS OWN tree: two root copies of one template share their line objects
    # (lazily indexed bistr).  Thread 2 starts while thread 1 is inside its first position lookup on the shared line.
    import sys
    import time
    n_chars = 150_000 if payload.get('tier', 'quick') == 'quick' else 600_000
    src = 'x = "' + '\u00e9' * n_chars + '"; zz = 1'

    def script(tree, out, delay):
        time.sleep(delay)
        a = tree.body[0].value.loc
        b = tree.body[1].targets[0].loc
        tree.body[1].targets[0].replace('renamed')
        out.append((tuple(a), tuple(b), tree.src[-20:]))
    sw = sys.getswitchinterval()
    sys.setswitchinterval(1e-5)
    try:
        t0 = time.time()
        solo = []
        script(FST(src, 'exec').copy(), solo, 0)
        base = max(time.time() - t0, 0.01)
        for frac in (0.15, 0.3, 0.45, 0.6):
            template = FST(src, 'exec')
            c1, c2 = template.copy(), template.copy()
            o1, o2, errs = [], [], []

            def run(t, o, d):
                try:
                    script(t, o, d)
                except Exception as e:
                    errs.append(repr(e))
            th = [threading.Thread(target=run, args=(c1, o1, 0)), threading.Thread(target=run, args=(c2, o2, base * frac))]
            for t in th:
                t.start()
            for t in th:
                t.join()
            ev += 1
            distinct.add(('shared_lines', frac))
            if errs or o1 != solo or o2 != solo:
                fail(f'C20.B.threads.shared_lines[{frac}]', 'two threads reading and editing two different copies of one '
                     f'tree concurrently do not obtain the results of running alone: errors {errs}, alone '
                     f'{solo}, thread 1 {o1}, thread 2 {o2}', replayed=True)
    finally:
        sys.setswitchinterval(sw)
    if FST.get_options() != defaults:
        fail('C20.B.final', 'store not back to defaults at the end')
    samples.append({'case': "worker thread: with FST.options(pars=False): raise  -> worker and main stores restored"})
    samples.append({'case': "nested blocks (pars, raw, docstr) with exception at depth 1 and the block resetting its "
                            "own key: restored exactly"})
    return {'name': 'C20.B.options_api', 'evaluations': ev, 'distinct_nontrivial': len(distinct),
            'rule': 'every global option x valid/invalid value table; ordered pairs of options with one bad entry via '
                    'set_options and options(); nested blocks depth<=3 x raise position x block meddling; worker '
                    'threads x {set, block, block+raise} x main default; distinct = distinct (kind, option(s), '
                    'position/order) tuples, all non-trivial (each changes or must refuse to change the store); plus 4 '
                    'timed two-thread runs on two copies of one tree sharing a long non-ASCII line (the ONLY concurrent '
                    'execution performed; schedule not controlled)',
            'samples': samples, 'exhaustive': False, 'scope': 'see rule', 'failures': failures}
