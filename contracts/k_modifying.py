"""Contracts for the modification registry (C12): fst_core:_Modifying (the variant that runs on 3.12) with the
process-global `_MODIFYING` as an identity-keyed dict root -> (node, depth)."""
from pyvc.logic import and_, or_, not_, implies, eq, truth


def specs(prop='C12'):
    from pyvc.contract import Fragment
    from pyvc.interp import Interp, IFunc, SObj, Env, PyRaise, ABSENT, _Return
    from pyvc import sym, frontend
    from pyvc.sym import cur

    class ODict:
        """identity-keyed registry; entries materialise lazily (present? -> (node, depth>=1))"""

        def __init__(self, make):
            self.entries = {}
            self.make = make
            self.version = 0
            self.cleared = False

        def _e(self, k):
            if id(k) not in self.entries:
                ctx = cur()
                if truth(ctx.bool(f'registered({k._name})')):
                    self.entries[id(k)] = self.make(k)
                else:
                    self.entries[id(k)] = ABSENT
            return self.entries[id(k)]

        def get(self, k, default=None):
            v = self._e(k)
            return default if v is ABSENT else v

        def _sym_getitem(self, k):
            v = self._e(k)
            if v is ABSENT:
                raise PyRaise(KeyError(k._name))
            return v

        def _sym_setitem(self, k, v):
            self._e(k)
            self.version += 1
            self.entries[id(k)] = v

        def _sym_delitem(self, k):
            if self._e(k) is ABSENT:
                raise PyRaise(KeyError(k._name))
            self.version += 1
            self.entries[id(k)] = ABSENT

        def _sym_contains(self, k):
            return self._e(k) is not ABSENT

        def clear(self):
            self.version += 1
            self.cleared = True
            for k in self.entries:
                self.entries[k] = ABSENT

        def pop(self, k, *d):
            v = self._e(k)
            if v is ABSENT:
                if d:
                    return d[0]
                raise PyRaise(KeyError(k._name))
            self._sym_delitem(k)
            return v

        def state(self, k):
            return self._e(k)

    CHAIN = object()
    NOTCHAIN = object()

    def world(ctx, case):
        root = SObj('root', {})
        root._set('root', root, count=False)
        root._set('parent', None, count=False)
        other_root = SObj('other_root', {})
        fst_ = SObj('fst_', {})
        other = SObj('other_node', {})
        for n in (fst_, other):
            n._set('root', root, count=False)
        # parent chain of concrete length
        chain = case.get('chain', 0)
        cls = CHAIN if case.get('inchain') else NOTCHAIN
        cur_n = fst_
        for i in range(chain):
            p = SObj(f'parent{i}', {})
            p._set('a', SObj(f'pa{i}', {'__class__': CHAIN}), count=False)
            p._set('root', root, count=False)
            cur_n._set('parent', p, count=False)
            cur_n._set('pfield', SObj(f'pf{i}', {'name': 'value', 'idx': None}), count=False)
            cur_n = p
        cur_n._set('parent', None, count=False)
        cur_n._set('pfield', None, count=False)
        fst_._set('a', SObj('a', {'__class__': cls}), count=False)

        def make(k):
            d = ctx.int(f'depth({k._name})')
            ctx.add(d.e >= 1)
            who = fst_ if case.get('holder', 'same') == 'same' else other
            return (who, d)
        reg = ODict(make)
        ghost0 = reg.state(other_root)
        return root, other_root, fst_, other, reg, ghost0

    def interp_for(reg):
        g = {'_MODIFYING': reg, 'ASTS_LEAF_EXPR_CHAIN': frozenset([CHAIN]), '_get_fmtval_interp_strs': lambda c: None,
             'Constant': object()}
        return Interp(g, fuel=8)

    def method(name):
        return frontend.locate(f'fst_core:_Modifying.{name}').node

    def call_method(it, name, self_, *args, **kw):
        f = IFunc(it, method(name), None, name)
        return it.call(f, (self_, *args), kw)

    def frame_ok(reg, other_root, ghost0):
        return (not reg.cleared) and reg.state(other_root) is ghost0

    # enter ----------------------------------------------------------------------------------------------------------
    def run_enter(ctx, case, loc, pre, label):
        root, other_root, fst_, other, reg, ghost0 = world(ctx, case)
        self_ = SObj('self', {})
        self_._set('_params', (fst_, case['field'], case['raw'], case['force']), count=False)
        before = reg.state(root)
        v0 = reg.version
        it = interp_for(reg)
        try:
            r = call_method(it, 'enter', self_)
        except PyRaise as pr:
            ctx.notes['outcome'] = f'raise {pr.cls.__name__}'
            ctx.prove(f'{pre}.reject.only_nested_other_node[{label}]',
                      pr.cls is RuntimeError and before is not ABSENT and before[0] is not fst_ and not case['force'])
            ctx.prove(f'{pre}.reject.registry_unchanged[{label}]', reg.version == v0 and reg.state(root) is before)
            return
        ctx.notes['outcome'] = 'return'
        after = reg.state(root)
        ctx.prove(f'{pre}.returns_self[{label}]', r is self_ and self_._get('root') is root)
        if before is ABSENT:
            ctx.prove(f'{pre}.fresh[{label}]', after is not ABSENT and after[0] is fst_ and eq(after[1], 1) is True)
        else:
            ctx.prove(f'{pre}.nested.allowed[{label}]', before[0] is fst_ or bool(case['force']))
            ctx.prove(f'{pre}.nested.depth_plus_one[{label}]',
                      after is not ABSENT and after[0] is before[0] and eq(after[1], before[1] + 1))
        ctx.prove(f'{pre}.frame.other_roots_untouched[{label}]', frame_ok(reg, other_root, ghost0))

    # success / fail ------------------------------------------------------------------------------------------------
    def run_release(ctx, case, loc, pre, label):
        root, other_root, fst_, other, reg, ghost0 = world(ctx, case)
        self_ = SObj('self', {})
        self_._set('root', root, count=False)
        self_._set('fst', False, count=False)
        before = reg.state(root)
        if before is ABSENT:
            raise sym.PathAbort()  # requires: called after enter (established by C12.mod.usage)
        it = interp_for(reg)
        which = case['which']
        r = call_method(it, which, self_) if which == 'success' else call_method(it, which, self_, None)
        ctx.notes['outcome'] = 'return'
        after = reg.state(root)
        if truth(before[1] > 1):
            ctx.prove(f'{pre}.nested.depth_minus_one[{label}]',
                      after is not ABSENT and after[0] is before[0] and eq(after[1], before[1] - 1))
        else:
            ctx.prove(f'{pre}.outermost.key_removed[{label}]', after is ABSENT)
        ctx.prove(f'{pre}.returns_None[{label}]', r is None)
        ctx.prove(f'{pre}.frame.other_roots_untouched[{label}]', frame_ok(reg, other_root, ghost0))

    # __enter__/__exit__ --------------------------------------------------------------------------------------------
    def run_exit(ctx, case, loc, pre, label):
        calls = []
        self_ = SObj('self', {})
        self_._set('success', lambda *a, **k: calls.append(('success', a, k)), count=False)
        self_._set('fail', lambda *a, **k: calls.append(('fail', a, k)), count=False)
        self_._set('enter', lambda *a, **k: (calls.append(('enter', a, k)), self_)[1], count=False)
        it = Interp({})
        if case['m'] == '__enter__':
            r = call_method(it, '__enter__', self_)
            ctx.prove(f'{pre}.enter_delegates[{label}]', r is self_ and [c[0] for c in calls] == ['enter'])
            return
        exc = RuntimeError('x') if case['exc'] else None
        r = call_method(it, '__exit__', self_, type(exc) if exc else None, exc, None)
        ctx.notes['outcome'] = 'return'
        ctx.prove(f'{pre}.exit.exactly_one_release[{label}]',
                  [c[0] for c in calls] == (['fail'] if case['exc'] else ['success']))
        ctx.prove(f'{pre}.exit.exception_propagates[{label}]', r is False)

    # enter ; release restores the registry exactly -----------------------------------------------------------------
    def run_balanced(ctx, case, loc, pre, label):
        root, other_root, fst_, other, reg, ghost0 = world(ctx, case)
        self_ = SObj('self', {})
        self_._set('_params', (fst_, False, True, case['force']), count=False)
        before = reg.state(root)
        it = interp_for(reg)
        try:
            call_method(it, 'enter', self_)
        except PyRaise:
            ctx.prove(f'{pre}.rejected_enter_leaves_registry[{label}]', reg.state(root) is before)
            return
        if case['which'] == 'success':
            call_method(it, 'success', self_)
        else:
            call_method(it, 'fail', self_, None)
        ctx.notes['outcome'] = 'return'
        after = reg.state(root)
        if before is ABSENT:
            ctx.prove(f'{pre}.restored.absent[{label}]', after is ABSENT)
        else:
            ctx.prove(f'{pre}.restored.same_entry[{label}]',
                      after is not ABSENT and after[0] is before[0] and eq(after[1], before[1]))
        ctx.prove(f'{pre}.frame.other_roots_untouched[{label}]', frame_ok(reg, other_root, ghost0))

    enter_cases = []
    for holder in ('same', 'other'):
        for force in (False, True):
            enter_cases.append(dict(holder=holder, force=force, raw=True, field=False, chain=0, inchain=False))
    for raw in (False, None):
        for inchain, chain in ((False, 0), (False, 1), (True, 0), (True, 1), (True, 2)):
            for field in (False, 'value'):
                enter_cases.append(dict(holder='same', force=False, raw=raw, field=field, chain=chain, inchain=inchain))
    rel_cases = [dict(holder=h, which=w) for h in ('same', 'other') for w in ('success', 'fail')]
    bal_cases = [dict(holder=h, which=w, force=f) for h in ('same', 'other') for w in ('success', 'fail')
                 for f in (False, True)]
    return [
        Fragment('fst_core:_Modifying.enter', prop, 'mod.enter', enter_cases, run_enter, min_obligations=2,
                 native=('k_modifying', 'replay_registry'),
                 notes='registry as identity-keyed dict with lazily materialised (node, depth>=1) entries; the f-string '
                       'bookkeeping loop is unrolled for parent chains of length <= 2 (it never touches the registry)'),
        Fragment('fst_core:_Modifying.success', prop, 'mod.success', [c for c in rel_cases if c['which'] == 'success'],
                 run_release, min_obligations=2, native=('k_modifying', 'replay_registry')),
        Fragment('fst_core:_Modifying.fail', prop, 'mod.fail', [c for c in rel_cases if c['which'] == 'fail'],
                 run_release, min_obligations=2, native=('k_modifying', 'replay_registry')),
        Fragment('fst_core:_Modifying.__exit__', prop, 'mod.exit',
                 [dict(m='__exit__', exc=False), dict(m='__exit__', exc=True)], run_exit),
        Fragment('fst_core:_Modifying.__enter__', prop, 'mod.enter_cm', [dict(m='__enter__')], run_exit),
        Fragment('fst_core:_Modifying.enter', prop, 'mod.balanced', bal_cases, run_balanced, native=('k_modifying', 'replay_registry'),
                 notes='composition of the real enter with the real success/fail restores the registry exactly'),
    ]


def replay_registry(payload):
    """native: drive the real _Modifying against the real process-global registry with the counter-model's state"""
    from fst import FST, fst_core
    m, info = payload['model'], payload['info']
    case = {}
    for part in info.get('case', '').split(','):
        k, _, v = part.partition('=')
        try:
            case[k] = eval(v)
        except Exception:
            case[k] = v
    ob = payload.get('obligation', '') or info.get('obligation', '')
    root, other_root = FST('a = f(b)', 'exec'), FST('c', 'exec')
    node, other = root.body[0].value, root.body[0].targets[0]
    reg = fst_core._MODIFYING
    reg.clear()
    registered = m.get('registered(root)', False)
    depth = max(1, m.get('depth(root)', 1))
    holder = node if case.get('holder', 'same') == 'same' else other
    if registered:
        reg[root] = (holder, depth)
    reg[other_root] = (other_root, 1)
    before = reg.get(root)
    force = bool(case.get('force', False))
    mod = fst_core._Modifying(node, False, True, force)
    which = case.get('which')
    steps = []
    try:
        if 'balanced' in ob or ('enter' in ob and which is None):
            steps.append('enter')
            try:
                mod.enter()
                entered = True
            except RuntimeError:
                entered = False
            if entered and which:
                steps.append(which)
                getattr(mod, which)()
            if which:
                exp = before
            elif not entered:
                exp = before
            elif before is None:
                exp = (node, 1)
            else:
                exp = (before[0], before[1] + 1)
            exp_reject = bool(before is not None and before[0] is not node and not force)
            bad = (reg.get(root) != exp) or (entered == exp_reject)
        else:
            if not registered:
                return {'reproduced': False, 'note': 'release without registration is outside the precondition'}
            mod.root, mod.fst = root, False
            steps.append(which)
            getattr(mod, which)()
            exp = (before[0], before[1] - 1) if before[1] > 1 else None
            bad = reg.get(root) != exp
        bad = bad or reg.get(other_root) != (other_root, 1)
        return {'steps': steps, 'registry_before': str(before), 'registry_after': str(reg.get(root)),
                'expected': str(exp), 'other_root_entry': str(reg.get(other_root)), 'reproduced': bool(bad)}
    finally:
        reg.clear()


def usage_structural(rep, prop='C12'):
    """C12.mod.usage (structural): every use of `_modifying()` in src/fst releases the registry on all paths: it is a
    `with` item (the proved __exit__ releases exactly once and propagates the exception), or a manual
    `<v> = X._modifying(...).enter()` inside a `try` whose bare `except:` calls `<v>.fail()` and re-raises and whose
    `else:` calls `<v>.success()`."""
    import ast
    import glob
    import os
    from pyvc import frontend
    n_sites = 0
    for path in sorted(glob.glob(os.path.join(frontend.SRC, '*.py'))):
        modname = os.path.basename(path)[:-3]
        mod = frontend.module(modname)
        parents = {}
        for p in ast.walk(mod.tree):
            for c in ast.iter_child_nodes(p):
                parents[id(c)] = p
        for n in ast.walk(mod.tree):
            if not (isinstance(n, ast.Call) and isinstance(n.func, ast.Attribute) and n.func.attr == '_modifying'):
                continue
            n_sites += 1
            name = f'{prop}.mod.usage.{modname}.L{n.lineno}'
            p = parents.get(id(n))
            ok, why = False, ''
            if isinstance(p, ast.withitem) and p.context_expr is n:
                ok, why = True, 'with item'
            elif isinstance(p, ast.Attribute) and p.attr == 'enter':
                # find `<v> = ....enter()` and the enclosing try
                q = parents.get(id(p))
                stmt = q
                while stmt is not None and not isinstance(stmt, ast.stmt):
                    stmt = parents.get(id(stmt))
                var = None
                if isinstance(stmt, ast.Assign) and isinstance(stmt.targets[0], ast.Name):
                    var = stmt.targets[0].id
                t = stmt
                while t is not None and not isinstance(t, ast.Try):
                    t = parents.get(id(t))
                if var and isinstance(t, ast.Try):
                    def calls(body, meth):
                        return any(isinstance(c, ast.Call) and isinstance(c.func, ast.Attribute) and c.func.attr == meth
                                   and isinstance(c.func.value, ast.Name) and c.func.value.id == var
                                   for s in body for c in ast.walk(s))
                    bare = [h for h in t.handlers if h.type is None]
                    ok = (len(t.handlers) == 1 and len(bare) == 1 and calls(bare[0].body, 'fail')
                          and isinstance(bare[0].body[-1], ast.Raise) and bare[0].body[-1].exc is None
                          and calls(t.orelse, 'success') and not calls(t.body, 'success'))
                    why = f'manual enter of {var!r} in try/except/else'
                else:
                    why = 'manual enter() outside a try/except/else'
            else:
                why = 'neither a with item nor a guarded manual enter()'
            rep.other('structural', name, ok, detail=why, key=f'{prop}.mod.usage.{modname}',
                      replay={'site': f'{modname}.py:{n.lineno}', 'why': why,
                              'verifier_output': 'structural analysis: a _modifying() use that may not be released on every path'})
    if n_sites < 10:
        rep.checker_error(f'only {n_sites} _modifying() uses found (anchor changed?)')
    rep.extra['modifying_sites'] = n_sites
