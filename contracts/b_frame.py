"""C04/B - formatting and comments outside the edited element are preserved (bounded, token-level frame).

For replace / remove of a node the significant tokens (and all comments) OUTSIDE the element's extent must be exactly
the same, in the same order, before and after - up to the separators, grouping parentheses, elif/else keywords and
placeholder `pass` the move itself may require.  With trivia=False no comment may disappear at all; with the default
trivia only the comment block directly above a statement and the comment on its last line may go with it.  Lines that
lie entirely outside the element's line range must be byte-identical (blank lines next to a statement excepted)."""
import ast
import io
import random
import tokenize
import zlib

from contracts.b_lib import node_paths, follow, c01_violation

IGNORABLE = {',', ';', '(', ')', ':', 'elif', 'else', 'if', 'pass', '\\'}
SKIP_TYPES = (tokenize.NL, tokenize.NEWLINE, tokenize.INDENT, tokenize.DEDENT, tokenize.ENDMARKER)


def toks(src):
    try:
        return [t for t in tokenize.generate_tokens(io.StringIO(src + '\n').readline) if t.type not in SKIP_TYPES]
    except Exception:
        return None


def outside(tokens, loc):
    if loc is None:
        return list(tokens)
    ln, col, eln, ecol = loc
    out = []
    for t in tokens:
        s = (t.start[0] - 1, t.start[1])
        e = (t.end[0] - 1, t.end[1])
        if s >= (ln, col) and e <= (eln, ecol):
            continue
        out.append(t)
    return out


import keyword


def sig(tokens, keep_comments=True, doc_tolerant=False):
    """identifiers, literals and comments: the tokens no separator / keyword / parenthesis repair may touch.
    doc_tolerant: multi-line strings are compared up to the re-indentation of their continuation lines (documented
    behaviour of the default docstr=True for string expression statements)"""
    out = []
    for t in tokens:
        if t.type == tokenize.COMMENT:
            if keep_comments:
                out.append(t.string)
            continue
        if t.type == tokenize.OP or (t.type == tokenize.NAME and keyword.iskeyword(t.string)):
            continue
        if doc_tolerant and t.type == tokenize.STRING and '\n' in t.string:
            out.append('\n'.join(x.lstrip() for x in t.string.split('\n')))
            continue
        out.append(t.string)
    return out


def allowed_comment_loss(lines, loc):
    """comments the default trivia may take with a statement: contiguous comment block directly above, comment on
    the last line"""
    ln, col, eln, ecol = loc
    out = []
    i = ln - 1
    while i >= 0 and lines[i].strip().startswith('#'):
        out.append(lines[i].strip())
        i -= 1
    tail = lines[eln][ecol:]
    if '#' in tail:
        out.append(tail[tail.index('#'):].rstrip())
    return out


def is_subsequence_with_loss(old, new, allowed_loss):
    """new == old with some elements of allowed_loss (a multiset) removed"""
    allowed = list(allowed_loss)
    i = j = 0
    while i < len(old) and j < len(new):
        if old[i] == new[j]:
            i += 1
            j += 1
        elif old[i] in allowed:
            allowed.remove(old[i])
            i += 1
        else:
            return False
    while i < len(old):
        if old[i] in allowed:
            allowed.remove(old[i])
            i += 1
        else:
            return False
    return j == len(new)


DONORS = {'expr': ['x', 'a + b', '(p, q)', 'f(\n  1,\n  2)'], 'stmt': ['pass', 'x = 1', 'if q:\n    r', 'y = [\n  1,\n]']}


def work(name, src, payload):
    from fst import FST
    rnd = random.Random(zlib.crc32(f'{payload.get("seed", 0)}:{name}:frame'.encode()))
    quick = payload.get('tier', 'quick') == 'quick'
    ev = 0
    distinct = set()
    failures = []
    samples = []
    lines0 = src.split('\n')
    root0 = FST(src, 'exec')
    targets = []
    for p, f in node_paths(root0):
        if not p:
            continue
        if isinstance(f.a, ast.stmt):
            targets.append((p, 'stmt'))
        elif isinstance(f.a, ast.expr) and not isinstance(f.a, (ast.Starred, ast.Slice)):
            targets.append((p, 'expr'))
    if quick and len(targets) > 60:
        targets = rnd.sample(targets, 60)
    old_tokens = toks(src)
    if old_tokens is None:
        return {'evaluations': 0, 'distinct': [], 'failures': [], 'samples': [], 'counts': {}}

    def fail(key, what, **kw):
        from contracts.b_lib import room
        if key.startswith('SEQ-FIRST:'):
            return     # the first edit of a sequence was already judged on its own
        ok, kn = room(failures, f'C04.B.{key}', 10)
        if ok:
            failures.append(dict(key=f'C04.B.{key}', what=what, program=name, replayed=True, _known=kn, **kw))

    def attempt(src, lines0, old_tokens, root, path, cat, opt, trivia, opts0, kpfx):
        """one edit judged against the token frame; `root` None = a fresh tree of `src`, else the live tree a previous
        edit left (sequences).  Returns the edited tree when it is consistent (C01) and was judged, else None"""
        nonlocal ev
        RESULT = None
        op, donor = opt[0], opt[1]
        opts = dict(opts0, **(opt[2] if len(opt) > 2 else {}))
        if root is None:
            root = FST(src, 'exec')
        node = follow(root, path)
        if not node:
            return RESULT
        under_str = False
        p = node
        while p is not None:
            if p.a.__class__.__name__ in ('JoinedStr', 'TemplateStr'):
                under_str = True
            p = p.parent
        if under_str:
            return RESULT
        loc = tuple(node.bloc) if cat == 'stmt' else (tuple(node.pars()) if node.pars() else tuple(node.loc))
        loc = loc[:4]
        # comments between the element's own grouping parentheses and the element: the parentheses may go, a
        # comment may not ("no comment is ever lost ... unless selected by the trivia option")
        own_pars_comments = []
        if cat == 'expr' and tuple(node.loc)[:4] != loc:
            il = tuple(node.loc)[:4]
            for t in old_tokens:
                if t.type == tokenize.COMMENT:
                    s_ = (t.start[0] - 1, t.start[1])
                    if (loc[0], loc[1]) <= s_ <= (loc[2], loc[3]) and not ((il[0], il[1]) <= s_ <= (il[2], il[3])):
                        own_pars_comments.append(t.string.rstrip())
        if op == 'remove' and path[-1][1] is None:
            return RESULT   # deleting an optional single field takes its dependent tokens along (`as e`, `from F`)
        ev += 1
        try:
            if op == 'remove':
                node.remove(**opts)
                newloc = None
            elif op == 'insert':
                node.parent.put_slice(donor, path[-1][1], path[-1][1], path[-1][0], **opts)
                loc = None
            elif op == 'insert_into':     # into an EMPTY block field of this statement (orelse / finalbody)
                fld = opts.pop('field')
                node.put_slice(donor, 0, 0, fld, **opts)
                loc = None
                path = path + ((fld, 0),)
            elif op == 'replace':
                node.replace(donor, **opts)
            else:
                node.replace(node.copy(**opts), **opts)
            if op != 'remove':
                n2 = follow(root, path)
                if not n2:
                    return RESULT
                newloc = tuple(n2.bloc) if cat == 'stmt' else (tuple(n2.pars()) if n2.pars() else tuple(n2.loc))
                newloc = newloc[:4]
                if opts.get('one') is False:   # two elements were spliced in: the extent is their union
                    p2 = path[:-1] + ((path[-1][0], path[-1][1] + 1),)
                    n3 = follow(root, p2)
                    if not n3:
                        return RESULT
                    l3 = tuple(n3.pars()) if n3.pars() else tuple(n3.loc)
                    newloc = (newloc[0], newloc[1], l3[2], l3[3])
        except Exception:
            distinct.add(('refused', path, op, donor, trivia, str(opt[2:])))
            return RESULT
        distinct.add(('ok', path, op, donor, trivia, str(opt[2:])))
        key = kpfx + f'{op}@{cat}:{name}:{path}:{donor!r}:trivia={trivia}:{sorted((opt[2] if len(opt) > 2 else {}).items())}'
        tol = 'docstr' not in opts
        if c01_violation(root):
            # tree and source disagree (C01's business), so the new extent is not reliable; what can still be
            # judged soundly: every token/comment outside the OLD extent must survive, in order, somewhere in
            # the new text (compared as text: a broken result may not tokenize)
            o = sig(outside(old_tokens, loc), doc_tolerant=False)
            allowed = [] if trivia == () or loc is None else allowed_comment_loss(lines0, loc)
            pos, text, lost = 0, root.src, None
            for t in o:
                k = text.find(t, pos)
                if k < 0:
                    if t in allowed:
                        allowed.remove(t)
                        continue
                    if '\n' in t:
                        continue   # multi-line strings may be re-indented
                    lost = t
                    break
                pos = k + len(t)
            if lost is not None:
                fail(key + ':lost', f'{op}({donor!r}, trivia={trivia}) at {path}: the token/comment {lost!r} outside '
                     'the element is gone from the source', src_after=root.src[:300])
            return RESULT
        new_tokens = toks(root.src)
        if new_tokens is None:
            return RESULT
        if own_pars_comments and op in ('replace', 'replace_self'):
            have = [t.string.rstrip() for t in new_tokens if t.type == tokenize.COMMENT]
            gone = [c for c in own_pars_comments if c not in have]
            if gone:
                fail(key + ':own_pars_comment', f'{op}({donor!r}, trivia={trivia}) at {path}: the comment {gone[0]!r} between '
                     'the element and its own grouping parentheses is gone', src_after=root.src[:300])
        o = sig(outside(old_tokens, loc), doc_tolerant=tol)
        n = sig(outside(new_tokens, newloc), doc_tolerant=tol)
        allowed = [] if trivia == () or loc is None else allowed_comment_loss(lines0, loc)
        if not is_subsequence_with_loss(o, n, allowed):
            # find first difference for the message
            k = 0
            while k < min(len(o), len(n)) and o[k] == n[k]:
                k += 1
            fail(key + ':tokens', f'{op}({donor!r}, trivia={trivia}) at {path}: tokens/comments outside the element '
                 f'changed: old ...{o[max(0, k - 2):k + 3]} new ...{n[max(0, k - 2):k + 3]}',
                 src_after=root.src[:300])
            return RESULT
        if loc is None:
            return RESULT
        # whole lines outside the element's line range are byte-identical (non-blank ones, in order)
        kw = ('else', 'elif', 'finally')   # block keywords the move itself may add / remove / rewrite
        before = [l for l in lines0[:loc[0]] if l.strip() and not l.strip().startswith(kw)]
        after = [l for l in lines0[loc[2] + 1:] if l.strip() and not l.strip().startswith(kw)]
        nl = [l for l in root.src.split('\n') if l.strip() and not l.strip().startswith(kw)]
        if trivia == () or cat != 'stmt':
            keep_b = before
        else:
            lost = set(allowed)
            keep_b = [l for l in before if l.strip() not in lost]
        if cat == 'stmt' and nl[:len(keep_b)] != keep_b and not any(';' in l for l in lines0[loc[0]:loc[2] + 1]):
            fail(key + ':lines_before', f'{op}({donor!r}) at {path}: a line before the element changed',
                 src_after=root.src[:300])
        elif cat == 'stmt' and after and nl[-len(after):] != after:
            # the element's last line may hold other code (`a; b`): only lines strictly after it are compared
            fail(key + ':lines_after', f'{op}({donor!r}) at {path}: a line after the element changed: '
                 f'{[x for x, y in zip(nl[-len(after):], after) if x != y][:2]}', src_after=root.src[:300])
        if len(samples) < 1:
            samples.append({'program': name, 'path': [list(x) for x in path], 'op': op, 'donor': donor,
                            'trivia': trivia})
        return root

    for path, cat in targets:
        for trivia in ((), None):   # () = ('none', 'none'): nothing but the element itself may go
            opts0 = {} if trivia is None else {'trivia': trivia}
            ops = [('remove', None)] + [('replace', d) for d in DONORS[cat]] + [('replace_self', None)]
            if cat == 'stmt' and path[-1][1] is not None:
                ops += [('insert', d, o) for d in ('x = 1', 'if q:\n    r') for o in ({}, {'docstr': False},
                                                                                 {'docstr': 'strict'})]
            if cat == 'stmt':
                n0 = follow(root0, path)
                for fld in ('orelse', 'finalbody'):
                    if n0 and getattr(n0.a, fld, None) == [] and n0.a.__class__.__name__ in ('If', 'For', 'AsyncFor', 'While', 'Try', 'TryStar'):
                        ops += [('insert_into', 'zz = 1', {'field': fld})]
            if cat == 'expr' and path[-1][1] is not None:
                ops += [('replace', 'f(\n  1,\n  2)[\n 0]', {})]
                par = follow(FST(src, 'exec'), path[:-1]) if len(path) > 1 else None
                if par is not None and par.a.__class__.__name__ in ('Delete', 'Tuple', 'List', 'Set') and \
                        path[-1][0] in ('targets', 'elts'):
                    # a two-line slice of comma-separated elements: an unenclosed statement needs continuation repair
                    ops += [('replace', 'zz[1],\nyy', {'one': False})]
            for opt in ops:
                r1 = attempt(src, lines0, old_tokens, None, path, cat, opt, trivia, opts0, '')
                # sequences of edits: a second edit on the LIVE tree the first one left (stale positions or caches of
                # the first edit show up as damage outside the second element)
                if r1 is None or (quick and rnd.random() > 0.15):
                    continue
                src1 = r1.src
                toks1 = toks(src1)
                if toks1 is None:
                    continue
                cands = []
                for p2, f2 in node_paths(r1):
                    if p2 and isinstance(f2.a, ast.stmt):
                        cands.append((p2, 'stmt'))
                    elif p2 and isinstance(f2.a, ast.expr) and not isinstance(f2.a, (ast.Starred, ast.Slice)):
                        cands.append((p2, 'expr'))
                # second targets whose own extent depends on what the first edit had to shift: the ancestors of the first
                # target, its following sibling, everything that starts later on the same first line
                try:
                    n1 = follow(r1, path) or None
                except Exception:
                    n1 = None
                l1 = tuple(n1.loc)[:2] if n1 is not None and n1.loc is not None else None
                anc = {path[:k] for k in range(1, len(path))}
                nxt = path[:-1] + ((path[-1][0], path[-1][1] + 1),) if path[-1][1] is not None else None
                near = []
                for p2, c2 in cands:
                    try:
                        f2 = follow(r1, p2) or None
                    except Exception:
                        f2 = None
                    if p2 in anc or p2 == nxt or (l1 and f2 is not None and f2.loc is not None and f2.loc[0] == l1[0]
                                                   and (f2.loc[0], f2.loc[1]) > l1 and p2[:len(path)] != path):
                        near.append((p2, c2))
                near = near or [c for c in cands if c[0][:1] == path[:1]] or cands
                for p2, c2 in (rnd.sample(near, 3) if len(near) > 3 else near):
                    for opt2 in (('remove', None), ('replace', DONORS[c2][0])):
                        # replay the first edit on a fresh tree so that every second edit starts from the same live state
                        r2 = attempt(src, lines0, old_tokens, None, path, cat, opt, trivia, opts0, 'SEQ-FIRST:')
                        if r2 is None:
                            break
                        attempt(src1, src1.split('\n'), toks1, r2, p2, c2, opt2, trivia, opts0,
                                f'seq[{opt[0]}({opt[1]!r})@{path}]:')
    return {'evaluations': ev, 'distinct': list(distinct), 'failures': failures, 'samples': samples, 'counts': {}}


def main(payload):
    from contracts import b_lib
    progs = b_lib.load_corpus()
    payload = dict(payload, norm=True)
    res = b_lib.run_parallel('b_frame', 'work', progs, payload)
    return b_lib.merge(
        'C04.B.frame_sweep', res,
        rule='statement and expression nodes (quick: 60 sampled per program) x {remove, replace by 4 donors, replace by '
             'own copy} x trivia in {False, default}; postcondition: significant tokens and comments outside the '
             "element's extent unchanged and in order (separators, parentheses, elif/else, placeholder pass ignored), "
             'lines strictly after the element byte-identical; distinct = distinct (path, op, donor, trivia, outcome)',
        scope=f'{len(progs)} corpus programs')


def replay(payload):
    from contracts import b_lib
    rep = payload.get('replay') or payload
    progs = dict(b_lib.load_corpus())
    name = rep.get('program')
    if name not in progs:
        return {'reproduced': False}
    r = work(name, progs[name], {'tier': 'thorough', 'seed': 0})
    hit = [f for f in r['failures'] if f['key'] == rep['key']]
    return {'reproduced': bool(hit), 'failure': hit[:1]}


# ---------------------------------------------------------------------------------------------------------------------
# leading_trivia over line-class strings: exhaustive up to a bound (labelled bounded).  Every line between the bound
# and the element is one of  E (blank)  C (comment)  K (lone line continuation)  X (code); the selection must never
# include an X line, must respect the mode and the space limit, and must stay between the bound and the element.

def trivia_classes(payload):
    import itertools
    from fst.fst_trivia import leading_trivia
    quick = payload.get('tier', 'quick') == 'quick'
    kmax = 5 if quick else 7
    TEXT = {'E': '   ', 'C': '    # c', 'K': '  \\', 'X': 'code()'}
    failures, ev = [], 0
    distinct = set()

    def fail(key, what):
        if len(failures) < 12:
            failures.append({'key': f'C04.B.leading_trivia:{key}', 'what': what, 'replayed': True})
    for k in range(0, kmax + 1):
        for cls in itertools.product('ECKX', repeat=k):
            lines = ['b = 1'] + [TEXT[c] for c in cls] + ['    x = 2']
            ln, col = k + 1, 4
            bound = (0, len(lines[0]))
            top_ln = 1
            modes = ['none', 'all', 'block'] + list(range(0, k + 2))
            for comments in modes:
                for space in (False, True, 0, 1, 2, 3):
                    ev += 1
                    key = f'{"".join(cls)}:{comments}:{space}'
                    try:
                        text_pos, space_pos, indent = leading_trivia(lines, bound[0], bound[1], ln, col, comments, space)
                    except Exception as e:
                        fail(key, f'leading_trivia raised {e!r} on classes {"".join(cls)!r}, comments={comments!r}, space={space!r}')
                        continue
                    distinct.add((cls, comments, space))
                    first = min(text_pos[0], space_pos[0]) if space_pos else text_pos[0]
                    sel = cls[first - 1:ln - 1] if first <= ln else ()
                    where = f'classes {"".join(cls)!r}, comments={comments!r}, space={space!r}: text {text_pos}, space {space_pos}'
                    if indent != '    ':
                        fail(key, f'indent {indent!r}: {where}')
                    if not ((top_ln, 0) <= tuple(text_pos) <= (ln, col)) or (space_pos and not ((top_ln, 0) <= tuple(space_pos)
                                                                                              <= tuple(text_pos))):
                        fail(key, f'position outside [bound, element]: {where}')
                        continue
                    if 'X' in sel:
                        fail(key, f'a code line is part of the selected trivia: {where}')
                        continue
                    com = cls[text_pos[0] - 1:ln - 1] if text_pos[0] <= ln and tuple(text_pos) != (ln, col) else ()
                    if comments == 'none' and tuple(text_pos) != (ln, col):
                        fail(key, f"comments='none' selects lines above the element: {where}")
                    if comments == 'block' and any(c != 'C' for c in com):
                        fail(key, f"comments='block' selects a non-comment line: {where}")
                    if isinstance(comments, int) and not isinstance(comments, bool) and com and text_pos[0] < max(comments, top_ln):
                        fail(key, f'comment region starts above the requested line: {where}')
                    if space_pos:
                        sp = cls[space_pos[0] - 1:text_pos[0] - 1]
                        if any(c not in 'EK' for c in sp):
                            fail(key, f'the space region contains a non-blank line: {where}')
                        if space is not True and len(sp) > int(space):
                            fail(key, f'more blank lines than requested: {where}')
                        if (space is False or space == 0) and sp:
                            fail(key, f'blank lines returned although none were requested: {where}')
    return {'name': 'C04.B.leading_trivia_classes', 'evaluations': ev, 'distinct_nontrivial': len(distinct),
            'rule': f'every string of <= {kmax} lines over the classes blank / comment / continuation / code between a bound '
                    'and an element x comments in {none, all, block, every line number} x space in {False, True, 0..3}: '
                    'the real leading_trivia never selects a code line, stays inside [bound, element], respects the '
                    'mode and the space limit', 'scope': 'exhaustive up to the line bound; element starts its line',
            'samples': [{'classes': 'ECC', 'comments': 'block', 'space': 1}], 'exhaustive': False, 'failures': failures,
            'harness_errors': []}
