"""C10 - raw source edits are equivalent to re-parsing the whole file, or change nothing."""
from contracts import k_index, k_offset, k_order
from pyvc.contract import verify_all
from pyvc import native


def run(rep, tier, seed):
    # P: clipping of the rectangle and the text splice the raw path is built on
    specs = [s for s in k_index.specs('C10') if s.name == 'clip_src_loc'] + k_offset.specs_text('C10')
    # a raw edit of equal byte length and line count takes the zero-delta path of _offset: everything below must still be
    # flushed, or the NEXT raw edit cuts its statement copy at a stale block end
    verify_all(rep, specs + k_offset.specs_flush('C10'))
    k_order.c10_order(rep, 'C10')
    k_offset.code_as_lines_finite(rep, 'C10')
    sec = native.run('b_raw', 'main', {'props': ['C10'], 'tier': tier, 'seed': seed, 'ops': ['reparse', 'rawput'],
                                       'max_fail': 100000}, timeout=7200)
    sec['native_entry'] = ('b_raw', 'replay')
    rep.bounded(sec)
    rep.remainder = ('correctness of the synthetic wrappers used to reparse a statement in isolation and the order '
                     'parse-before-mutate inside _reparse_raw_*: only the bounded sweep')
