"""C02/B - an edited tree is observationally identical to a fresh parse of its own source (bounded).

`snapshot(root)` evaluates every query of the property's list on every node, in walk order; after an edit the snapshot
of the live tree must equal the snapshot of FST(root.src).  `prepass(root)` evaluates the same queries BEFORE the edit
so that every per-node cache is populated (the "no stale cached answers" half)."""
import ast


def _safe(fn):
    try:
        return fn()
    except Exception as e:  # a query that raises is an answer too (must be the same on the fresh tree)
        return f'raises {e.__class__.__name__}'


def node_queries(f):
    a = f.a
    q = {
        'cls': a.__class__.__name__,
        'loc': _safe(lambda: tuple(f.loc) if f.loc else None),
        'bloc': _safe(lambda: tuple(f.bloc) if f.bloc else None),
        'parsN': _safe(lambda: tuple(f.pars(shared=None)) + (getattr(f.pars(shared=None), 'n', None),)
                       if f.pars(shared=None) else None),
        'parsF': _safe(lambda: tuple(f.pars(shared=False)) + (getattr(f.pars(shared=False), 'n', None),)
                       if f.pars(shared=False) else None),
        'pars': _safe(lambda: tuple(f.pars()) + (getattr(f.pars(), 'n', None),) if f.pars() else None),
        'src': _safe(lambda: f.src if f.loc else None),
        'pfield': _safe(lambda: tuple(f.pfield) if f.pfield else None),
        'parent_ok': _safe(lambda: (f.parent is None) or (f.pfield.get(f.parent.a) is a)),
        'is_root': f.is_root,
        'next': _safe(lambda: (n := f.next()) and (n.a.__class__.__name__, tuple(n.pfield))),
        'prev': _safe(lambda: (n := f.prev()) and (n.a.__class__.__name__, tuple(n.pfield))),
        'first_child': _safe(lambda: (n := f.first_child()) and (n.a.__class__.__name__, tuple(n.pfield))),
        'last_child': _safe(lambda: (n := f.last_child()) and (n.a.__class__.__name__, tuple(n.pfield))),
        'is_stmt': f.is_stmt, 'is_expr': f.is_expr, 'is_block': f.is_block, 'is_elif': _safe(lambda: f.is_elif()),
        'is_parenthesized_tuple': _safe(lambda: f.is_parenthesized_tuple()),
        'whole_loc': _safe(lambda: tuple(f.whole_loc) if f.is_root else None),
    }
    if isinstance(a, (ast.FunctionDef, ast.AsyncFunctionDef, ast.ClassDef, ast.Module)):
        q['docstr'] = _safe(lambda: f.get_docstr())
        q['has_docstr'] = _safe(lambda: f.has_docstr)
    for fld in a._fields:
        v = getattr(a, fld, None)
        if isinstance(v, list):
            q['len_' + fld] = _safe(lambda fld=fld: len(getattr(f, fld)))
    if isinstance(a, ast.stmt):
        q['line_comment'] = _safe(lambda: f.get_line_comment())
    return q


def snapshot(root):
    out = []
    for f in root.walk(True):
        q = node_queries(f)
        q['root_ok'] = f.root is root
        out.append(q)
    return out


def prepass(root):
    snapshot(root)


def compare(root):
    """-> None or description of the first query whose answer differs from the fresh tree's"""
    from fst import FST
    try:
        fresh = FST(root.src, 'exec')
    except Exception as e:
        return None  # C01's business (source does not parse), not judged here
    s1, s2 = snapshot(root), snapshot(fresh)
    if len(s1) != len(s2):
        return f'walk yields {len(s1)} nodes on the edited tree, {len(s2)} on a fresh parse'
    for i, (a, b) in enumerate(zip(s1, s2)):
        if a != b:
            ks = [k for k in a if a.get(k) != b.get(k)]
            k = ks[0]
            return (f'node #{i} {a["cls"]} at {a.get("loc")}: query {k!r} answers {a.get(k)!r} on the edited tree, '
                    f'{b.get(k)!r} on a fresh parse of the same source')
    return None
