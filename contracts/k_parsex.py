"""C05/P - the wrapper discipline of parsex.py (structural obligations over the real source, for all `src`), and the
per-node body of _offset_linenos (symbolic).

Every extended parse mode wraps the fragment in a synthetic construct, e.g.  f'(\\n{src}\\n)'  or
f'match _:\\n case (\\n{src}\\n): pass', parses it with CPython and shifts the line numbers back.  For the positions of
the result to be relative to the fragment - for EVERY fragment, whatever its text - it is necessary and sufficient
that (1) the literal prefix before {src} ends with a newline (columns of the fragment are then unchanged, also for
multi-byte text) and contains exactly k newlines, and (2) the value returned on that path went through
_offset_linenos(., -k).  Both are facts about the program text; they are checked on the AST of the current source."""
import ast

from pyvc.logic import and_, eq, implies, truth


def wrapper_sites(fnode):
    """[(lineno, prefix, suffix)] for every call in fnode whose first argument is an f-string containing {src...}"""
    out = []
    for n in ast.walk(fnode):
        if isinstance(n, ast.Call) and n.args and isinstance(n.args[0], ast.JoinedStr):
            js = n.args[0]
            idx = [i for i, v in enumerate(js.values) if isinstance(v, ast.FormattedValue)
                   and isinstance(v.value, ast.Name) and v.value.id.startswith('src')]
            fname = n.func.id if isinstance(n.func, ast.Name) else getattr(n.func, 'attr', '')
            if len(idx) == 1 and 'parse' in fname:
                pre = ''.join(v.value for v in js.values[:idx[0]] if isinstance(v, ast.Constant))
                post = ''.join(v.value for v in js.values[idx[0] + 1:] if isinstance(v, ast.Constant))
                if all(isinstance(v, ast.Constant) for v in js.values[:idx[0]]):
                    out.append((n.lineno, pre, post, fname))
    return out


def offset_calls(fnode):
    out = []
    for n in ast.walk(fnode):
        if isinstance(n, ast.Call) and isinstance(n.func, ast.Name) and n.func.id == '_offset_linenos':
            d = n.args[1] if len(n.args) > 1 else None
            try:
                val = ast.literal_eval(d)
            except Exception:
                val = None
            out.append((n.lineno, val))
    return out


def run_structural(rep, prop='C05'):
    from pyvc import frontend
    mod = frontend.module('parsex')
    n_sites = 0
    funcs = [n for n in mod.tree.body if isinstance(n, ast.FunctionDef)]

    class _S:
        name = 'wrapper discipline (structural)'
        notes = 'every parse_* function: literal prefix of each wrapper vs delta of _offset_linenos'
    for fn in funcs:
        sites = wrapper_sites(fn)
        if not sites:
            continue
        loc = frontend.locate(f'parsex:{fn.name}')
        rep.function(loc, _S)
        offs = offset_calls(fn)
        ks = set()
        for lineno, pre, post, callee in sites:
            n_sites += 1
            k = pre.count('\n')
            ks.add(k)
            ok = (pre == '' or pre.endswith('\n'))
            rep.other('structural', f'{prop}.wrapper.{fn.name}.L{lineno - fn.lineno}.prefix_ends_with_newline', ok,
                      detail=f'wrapper prefix {pre!r}: the fragment must start in column 0 of its own line so that its '
                             'columns are unchanged for every src',
                      key=f'{prop}.wrapper.{fn.name}.prefix', replay={'function': fn.name, 'prefix': pre, 'line': lineno,
                                                                       'verifier_output': 'structural analysis of parsex.py'})
        deltas = {-(d if d is not None else 10 ** 6) for _, d in offs}
        want = {k for k in ks if k}
        ok = (deltas == want) if want else (deltas <= {0})
        rep.other('structural', f'{prop}.wrapper.{fn.name}.delta_matches_prefix_newlines', ok,
                  detail=f'wrapper prefixes contain {sorted(ks)} newline(s); _offset_linenos deltas are '
                         f'{sorted(-x for x in deltas)} (must be minus the number of prefix newlines on every path)',
                  key=f'{prop}.wrapper.{fn.name}.delta',
                  replay={'function': fn.name, 'prefix_newlines': sorted(ks), 'deltas': [d for _, d in offs],
                          'verifier_output': 'structural analysis of parsex.py'})
        if want and not offs:
            pass
    if n_sites < 40:
        rep.checker_error(f'only {n_sites} wrapper sites found in parsex.py (anchor changed?)')
    rep.extra['wrapper_sites'] = n_sites
    return n_sites


def specs(prop='C05'):
    from pyvc.contract import Fragment
    from pyvc.interp import Interp, IFunc, SObj, IntAttr, OptIntAttr, ABSENT
    from pyvc import sym

    def run_offset_linenos(ctx, case, loc, pre, label):
        """_offset_linenos: the loop body shifts lineno and end_lineno of a positioned node by delta and touches nothing
        else (walk() is replaced by a one-node iteration: the body carries no state between nodes)"""
        a = SObj('a', dict(lineno=IntAttr(), end_lineno=OptIntAttr(), col_offset=IntAttr(), end_col_offset=IntAttr()))
        delta = ctx.int('delta')
        it = Interp({'walk': lambda x: [a]})
        has = a._get('end_lineno') is not ABSENT
        if has:
            ctx.assume(a._get('end_lineno') >= 1)   # 1-based line numbers: a positioned node's end_lineno is never 0
        l0, e0 = a._get('lineno'), (a._get('end_lineno') if has else None)
        c0, ec0 = a._get('col_offset'), a._get('end_col_offset')
        tree = SObj('tree', {})
        r = it.call(IFunc(it, loc.node, None, '_offset_linenos'), (tree, delta))
        ctx.notes['outcome'] = 'return'
        if has:
            ctx.prove(f'{pre}.shifts_both_line_numbers[{label}]',
                      and_(eq(a._get('lineno'), l0 + delta), eq(a._get('end_lineno'), e0 + delta)))
        else:
            ctx.prove(f'{pre}.unpositioned_untouched[{label}]', not a._written)
        ctx.prove(f'{pre}.columns_untouched[{label}]', and_(eq(a._get('col_offset'), c0), eq(a._get('end_col_offset'), ec0)))
        ctx.prove(f'{pre}.returns_tree[{label}]', r is tree)

    return [Fragment('parsex:_offset_linenos', prop, 'offset_linenos', [dict()], run_offset_linenos, min_obligations=2)]


# ---------------------------------------------------------------------------------------------------------------------
# Escape guards: a fragment such as 'a=1)(b=2' closes the wrapper early and the REST of the wrapper parses as something
# else (a second call, a return annotation, a case guard, a subscript chain); the parser then finds a well-formed node
# for a PART of the text.  Each wrapper kind has a tell-tale that the function must test before it returns.

ESCAPE_KINDS = {
    'call': 'the wrapper call `f(...)`: its func must still be the Name f (`<x>.func.__class__ is not Name`)',
    'def': 'the wrapper `def f(...)`: it must not have acquired a return annotation (`<x>.returns`)',
    'case': 'the wrapper `case ...:`: it must not have acquired a guard (guards passed to _ast_parse1_case and tested, or `.guard`)',
    'subscript': 'the wrapper `a[...]`: its value must still be the Name a (`<x>.value.__class__ is not Name`)',
}
BASELINE_ESCAPE = {
    ('parse_expr_arglike', 'call'), ('parse__arglike', 'call'), ('parse__arglikes', 'call'), ('parse_keyword', 'call'),
    ('parse__expr_arglikes', 'call'),
    ('parse__pattern_attrlikes', 'case'),
    ('parse_arguments', 'def'), ('parse_arg', 'def'), ('parse_pattern', 'case'), ('parse__MatchMapping_maybe_undelimited', 'case'),
    ('parse_expr_slice', 'subscript')}


def _escape_kind(pre, post):
    if pre.startswith('f(\n'):
        return 'call'
    if pre.startswith('def f('):
        return 'def'
    if pre.startswith('match _:\n case'):
        return 'case'
    if pre == 'a[\n':
        return 'subscript'
    return None


def _has_guard(fn, kind):
    for n in ast.walk(fn):
        if kind in ('call', 'subscript') and isinstance(n, ast.Compare) and len(n.ops) == 1 and isinstance(n.ops[0], ast.IsNot):
            l, r = n.left, n.comparators[0]
            if (isinstance(l, ast.Attribute) and l.attr == '__class__' and isinstance(l.value, ast.Attribute)
                    and l.value.attr == ('func' if kind == 'call' else 'value') and isinstance(r, ast.Name) and r.id == 'Name'):
                return True
        if kind == 'def' and isinstance(n, (ast.If, ast.BoolOp, ast.IfExp)):
            t = n.test if isinstance(n, (ast.If, ast.IfExp)) else n
            if any(isinstance(x, ast.Attribute) and x.attr == 'returns' for x in ast.walk(t)):
                return True
        if kind == 'case':
            if isinstance(n, ast.If) and any((isinstance(x, ast.Attribute) and x.attr == 'guard') or
                                             (isinstance(x, ast.Name) and x.id == 'guards') for x in ast.walk(n.test)):
                if not any(isinstance(x, ast.Name) and x.id == 'guards' for x in ast.walk(n.test)):
                    return True
                # `guards` is only filled by calls that are handed it: every _ast_parse1_case call of the function must
                calls = [c for c in ast.walk(fn) if isinstance(c, ast.Call) and isinstance(c.func, ast.Name)
                         and c.func.id == '_ast_parse1_case']
                if calls and all(len(c.args) >= 3 and isinstance(c.args[2], ast.Name) and c.args[2].id == 'guards' for c in calls):
                    return True
    return False


def escape_structural(rep, prop='C05'):
    from pyvc import frontend
    mod = frontend.module('parsex')
    found = {}
    for fn in [n for n in mod.tree.body if isinstance(n, ast.FunctionDef)]:
        for lineno, pre, post, callee in wrapper_sites(fn):
            k = _escape_kind(pre, post)
            if k:
                found[(fn.name, k)] = fn
    for key in sorted(BASELINE_ESCAPE):
        name = f'{prop}.escape_guard.{key[0]}.{key[1]}'
        fn = found.get(key)
        if fn is None:
            rep.undecided(name, 'the wrapper registered on the pinned tree is no longer found (function renamed or wrapper '
                          'changed): the obligation can no longer be generated')
            continue
        ok = _has_guard(fn, key[1])
        rep.other('structural', name, ok, detail=('tested: ' if ok else 'NOT tested: ') + ESCAPE_KINDS[key[1]], key=name,
                  replay={'function': f'parsex:{key[0]}', 'kind': key[1], 'verifier_output': 'syntactic guard search'})
    rep.extra['escape_guards_not_registered'] = sorted(f'{a}.{b}' for (a, b) in found if (a, b) not in BASELINE_ESCAPE)
    if len(found) < 8:
        rep.checker_error(f'only {len(found)} escaping-capable wrappers found in parsex.py')
