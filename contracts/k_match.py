"""C17/P - "no state is carried from one match attempt into the next": the rewind / tag-stack discipline of list matching.

Functions under contract (real source of src/fst/match.py):
  _MatchList.next / at_end        cursor protocol: next() returns seq[idx] and advances by one, or the sentinel at the end
                                  without moving; at_end() <=> idx == len
  _MatchState.new_tagss / discard_tagss / pop_merge_tagss
                                  the running list of tag lists is a stack: push one, pop exactly one
  _match__inside_list             for pattern lists of ANY length (loop invariant): on failure both cursors are back at
                                  their entry positions and the tag stack has its entry depth; on success the tag stack
                                  has its entry depth (balanced) - proved against assumed contracts of the callees
                                  (_match__inside_list_quantifier and the per-class match functions: return None or a
                                  mapping, leave the depth of the tag stack as they found it, may move the cursors)

What is NOT proved: _match__inside_list_quantifier itself (its own rewind is the bounded stand-in's business), the leaf
type pre-filter."""
from pyvc.logic import and_, eq, truth


def specs(prop='C17'):
    from pyvc import frontend, values
    from pyvc.contract import Fragment
    from pyvc.interp import Interp, IFunc, SObj
    from pyvc.loops import LoopSpec
    from pyvc.sym import cur

    SENT = SObj('_SENTINEL', {})
    EMPTY = {}

    def choose(name, n):
        c = cur()
        for i in range(n - 1):
            if truth(c.bool(c.fresh_name(f'{name}={i}'))):
                return i
        return n - 1

    class Seq:
        """a pattern / target sequence: elements are opaque; a pattern element is a quantifier or not"""

        def __init__(self, name):
            self.name = name
            self.n = 0

        def _sym_getitem(self, i):
            self.n += 1
            return SObj(f'{self.name}[{self.n}]', {}, is_quant=bool(choose(f'{self.name}.quant', 2)),
                        **{'__class__': SObj('cls', {})})

    def saved_names(fnode):
        """locals that save a cursor position:  <name> = <cursor parameter>.idx  at the top level of the function (found
        structurally, so that renaming them does not disturb the invariant)"""
        import ast as _ast
        out = {}
        for st in fnode.body:
            if (isinstance(st, _ast.Assign) and len(st.targets) == 1 and isinstance(st.targets[0], _ast.Name)
                    and isinstance(st.value, _ast.Attribute) and st.value.attr == 'idx'
                    and isinstance(st.value.value, _ast.Name) and st.value.value.id in ('pat_iter', 'tgt_iter')):
                out[st.targets[0].id] = st.value.value.id
        return out

    def mk_iter(it, ctx, name):
        ln = ctx.int(f'{name}.len')
        idx = ctx.int(f'{name}.idx')
        ctx.assume(and_(0 <= idx, idx <= ln))
        o = SObj(name, {}, seq=Seq(name), len=ln, idx=idx)
        for m in ('next', 'at_end'):
            node = frontend.locate(f'match:_MatchList.{m}').node
            o._set(m, (lambda node=node, m=m: (lambda *a: it.call(IFunc(it, node, None, m), (o, *a))))(), count=False)
        return o, idx, ln

    def mk_state(it, ctx):
        D = ctx.int('depth')
        ctx.assume(D >= 0)
        base = values.ListBase('all_tagss', lambda k: SObj('older_tagss', {}), D)
        st = SObj('mstate', {}, all_tagss=values.SList.of_base(base))
        for m in ('new_tagss', 'discard_tagss', 'pop_merge_tagss'):
            node = frontend.locate(f'match:_MatchState.{m}').node
            st._set(m, (lambda node=node, m=m: (lambda *a: it.call(IFunc(it, node, None, m), (st, *a))))(), count=False)
        return st, D

    def depth(st):
        return st._get('all_tagss')._sym_len()

    class Quants:
        def _sym_contains(self, p):
            return bool(p._get('is_quant'))

    def globals_(it):
        return {'_SENTINEL': SENT, '_EMPTY_DICT': EMPTY, '_QUANTIFIER_STANDALONES': Quants(),
                'MQ': SObj('MQ', {})}

    # ---------------------------------------------------------------------------------------------------------------
    def run_inside_list(ctx, case, loc, pre, label):
        it = Interp({})
        it.globals.update(globals_(it))
        it.globals['isinstance'] = lambda o, t: False     # `p in _QUANTIFIER_STANDALONES or isinstance(p, MQ)`: one flag
        pat, P0, PL = mk_iter(it, ctx, 'pat_iter')
        tgt, T0, TL = mk_iter(it, ctx, 'tgt_iter')
        st, D = mk_state(it, ctx)
        calls = []

        def callee_effect():
            """assumed contract of the callees: cursors may move anywhere inside their sequences, the tag stack depth
            is what it was; result None (no match), an empty mapping, or a non-empty mapping"""
            for o, ln in ((pat, PL), (tgt, TL)):
                v = ctx.int(ctx.fresh_name(f'{o._name}.idx_after_callee'))
                ctx.assume(and_(0 <= v, v <= ln))
                o._set('idx', v, count=False)
            return [None, EMPTY, {'tag': 1}][choose('callee_result', 3)]

        def quantifier(mstate, pat_iter, tgt_iter, p, allow_partial):
            calls.append('quantifier')
            return callee_effect()

        class MatchFuncs:
            def get(self, cls, default=None):
                def f(p, t, mstate):
                    calls.append('match_func')
                    r = [None, EMPTY, {'tag': 1}][choose('match_result', 3)]
                    return r
                return f
        it.globals.update({'_match__inside_list_quantifier': quantifier, '_MATCH_FUNCS': MatchFuncs(),
                           '_match_default': SObj('_match_default', {})})

        class IdxHavoc:
            def __init__(self, o, ln):
                self.o, self.ln = o, ln

            def havoc(self, tag):
                v = ctx.int(ctx.fresh_name(f'{tag}.{self.o._name}.idx'))
                self.o._set('idx', v, count=False)

        def inv(k, env):
            return {'tag_stack_depth': eq(depth(st), D + 1),
                    'pat_cursor_in_range': and_(0 <= pat._get('idx'), pat._get('idx') <= PL),
                    'tgt_cursor_in_range': and_(0 <= tgt._get('idx'), tgt._get('idx') <= TL),
                    'saved_positions': and_(*[eq(env[nm], P0 if which == 'pat_iter' else T0)
                                              for nm, which in saved_names(loc.node).items() if nm in env])}
        it.loop_specs[('_match__inside_list', 0)] = LoopSpec(f'{prop}.inside_list.loop', inv,
                                                             havoc_objs=lambda env: [IdxHavoc(pat, PL), IdxHavoc(tgt, TL)],
                                                             kinds={'p': lambda: None, 't': lambda: None, 'm': lambda: None})
        f = IFunc(it, loc.node, None, '_match__inside_list')
        r = it.call(f, (st, pat, tgt, case['allow_partial']))
        ctx.notes['outcome'] = 'return'
        ctx.prove(f'{pre}.tag_stack_balanced[{label}]', eq(depth(st), D),
                  info='every exit pops exactly the tag list it pushed')
        if r is None:
            ctx.prove(f'{pre}.fail.rewinds_pattern_cursor[{label}]', eq(pat._get('idx'), P0))
            ctx.prove(f'{pre}.fail.rewinds_target_cursor[{label}]', eq(tgt._get('idx'), T0))
        else:
            ctx.prove(f'{pre}.success.returns_mapping[{label}]', isinstance(r, dict))
            if not case['allow_partial'] and 'quantifier' not in calls:
                ctx.prove(f'{pre}.success.whole_target_consumed[{label}]', eq(tgt._get('idx'), TL),
                          info='without a quantifier a full match consumes the whole target list')

    # ---------------------------------------------------------------------------------------------------------------
    def run_matchlist(ctx, case, loc, pre, label):
        it = Interp({})
        it.globals.update(globals_(it))
        o, I0, L = mk_iter(it, ctx, 'it')
        m = case['m']
        if m == 'next':
            r = o.next()
            ctx.notes['outcome'] = 'return'
            if truth(eq(I0, L)):
                ctx.prove(f'{pre}.next.sentinel_at_end[{label}]', r is SENT)
                ctx.prove(f'{pre}.next.end_does_not_move[{label}]', eq(o._get('idx'), I0))
            else:
                ctx.prove(f'{pre}.next.returns_element[{label}]', r is not SENT and isinstance(r, SObj))
                ctx.prove(f'{pre}.next.advances_by_one[{label}]', eq(o._get('idx'), I0 + 1))
        else:
            r = o.at_end()
            ctx.notes['outcome'] = 'return'
            ctx.prove(f'{pre}.at_end.iff_idx_is_len[{label}]', eq(r, eq(I0, L)))
            ctx.prove(f'{pre}.at_end.pure[{label}]', eq(o._get('idx'), I0))

    def run_state(ctx, case, loc, pre, label):
        it = Interp({})
        it.globals.update(globals_(it))
        st, D = mk_state(it, ctx)
        m = case['m']
        if m == 'new_tagss':
            r = st.new_tagss()
            ctx.notes['outcome'] = 'return'
            ctx.prove(f'{pre}.new.pushes_one[{label}]', eq(depth(st), D + 1))
            ctx.prove(f'{pre}.new.returns_the_pushed_empty_list[{label}]', r == [] and st._get('all_tagss')[-1] is r)
            return
        # pop operations need a non-empty stack: push n tag dicts first through the real new_tagss
        tagss = st.new_tagss()
        for i in range(case['n']):
            tagss.append({f'k{i}': i})
        if m == 'discard_tagss':
            r = st.discard_tagss()
            ctx.notes['outcome'] = 'return'
            ctx.prove(f'{pre}.discard.pops_one[{label}]', eq(depth(st), D))
            ctx.prove(f'{pre}.discard.returns_None[{label}]', r is None)
        else:
            r = st.pop_merge_tagss()
            ctx.notes['outcome'] = 'return'
            ctx.prove(f'{pre}.merge.pops_one[{label}]', eq(depth(st), D))
            ctx.prove(f'{pre}.merge.is_union_of_tags[{label}]', dict(r) == {f'k{i}': i for i in range(case['n'])})

    # ---------------------------------------------------------------------------------------------------------------
    def run_quantifier(ctx, case, loc, pre, label):
        """_match__inside_list_quantifier: whatever the quantifier bounds, greediness and the number of attempts, a failed
        match leaves the target cursor at its entry position and the tag stack at its entry depth; a successful one leaves
        the tag stack balanced.  Callees under contracts: _match__inside_list by the contract proved above (on failure its
        cursors are where they were when it was called; depth preserved), per-class match functions (depth preserved)."""
        it = Interp({})
        it.globals.update(globals_(it))
        pat_it, P0, PL = mk_iter(it, ctx, 'pat_iter')
        tgt, T0, TL = mk_iter(it, ctx, 'tgt_iter')
        st, D = mk_state(it, ctx)
        st._set('is_FST', False, count=False)
        qmin, qmax = ctx.int('q_min'), ctx.int('q_max')
        ctx.assume(and_(0 <= qmin, qmin <= qmax))

        class Bag:
            """tagss / matches: an opaque collection (content irrelevant to the rewind / balance obligations): reading an
            element gives any object ever put into it or an unknown one, emptiness is unknown"""
            seen = []

            def append(self, x):
                Bag.seen.append(x)

            def insert(self, i, x):
                Bag.seen.append(x)

            def _sym_delitem(self, i):
                pass

            def _sym_truth(self):
                return truth(ctx.bool(ctx.fresh_name('bag_nonempty')))

            def _sym_getitem(self, i):
                cands = [x for k, x in enumerate(Bag.seen) if not any(x is y for y in Bag.seen[:k])] + [SObj('unknown_elem', {})]
                return cands[choose('bag_elem', len(cands))]
        Bag.seen = []
        bag_states = []
        real_new = st._get('new_tagss')

        def new_tagss():
            real_new()
            b = Bag()
            bag_states.append(b)
            return b
        st._set('new_tagss', new_tagss, count=False)
        real_discard = st._get('discard_tagss')
        # pop_merge_tagss by its contract (proved separately): pops exactly one tag list, returns a mapping
        st._set('pop_merge_tagss', lambda: (real_discard(), {'merged': 1})[1], count=False)
        sublist = case['sublist']
        q_pat = [SObj('qp0', {})] if sublist else SObj('q_pat', {}, **{'__class__': SObj('cls', {})})
        pat = SObj('MQ', {}, pat=q_pat, min=qmin, max=(None if case['unbounded'] else qmax), pat_tag=case['tag'],
                   greedy=case['greedy'], static_tags=({'s': 1} if case['static'] else None))

        def move_tgt():
            v = ctx.int(ctx.fresh_name('tgt.idx_after_callee'))
            ctx.assume(and_(0 <= v, v <= TL))
            tgt._set('idx', v, count=False)

        def inside_list(mstate, p_it, t_it, allow_partial=False):
            before = t_it._get('idx')
            ok = choose('inner_match', 2)
            if ok:
                move_tgt() if t_it is tgt else None
                return {'t': 1}
            t_it._set('idx', before, count=False)     # contract: rewinds on failure
            return None

        class MatchFuncs:
            def get(self, cls, default=None):
                return lambda p, t, mstate: [None, EMPTY, {'tag': 1}][choose('elem_match', 3)]
        it.globals.update({'_match__inside_list': inside_list, '_MATCH_FUNCS': MatchFuncs(),
                           '_match_default': SObj('_match_default', {}), 'FSTMatch': lambda *a: ('FSTMatch',) + a,
                           'FSTView': SObj('FSTView', {}), 'MatchError': IndexError, 'bool': bool})
        it.globals['isinstance'] = lambda o, t: isinstance(o, list) if t is it.globals.get('list') else False
        ml = frontend.locate('match:_MatchList')
        it.globals['_MatchList'] = lambda seq: mk_iter(it, ctx, 'qpat_iter')[0]

        class TgtSeq:
            def _sym_truth(self):
                return truth(TL > 0)

            def _sym_getitem(self, i):
                if isinstance(i, slice):
                    return ['slice']
                return SObj('tgt_elem', {})
        tgt._set('seq', TgtSeq(), count=False)

        class IdxHavoc:
            def havoc(self, tag):
                v = ctx.int(ctx.fresh_name(f'{tag}.tgt.idx'))
                tgt._set('idx', v, count=False)

        def inv(k, env):
            return {'tag_stack_depth': eq(depth(st), D + 1),
                    'saved_position': and_(*[eq(env[nm], T0) for nm, which in saved_names(loc.node).items()
                                             if which == 'tgt_iter' and nm in env])}
        import ast as _ast
        for k_, lp in enumerate(frontend.loops_of(loc.node)):
            if not isinstance(lp, _ast.While):
                continue        # `for count_to in counts`: a concrete tuple of one or two bounds, unrolled
            it.loop_specs[('_match__inside_list_quantifier', k_)] = LoopSpec(
                f'{prop}.quantifier.loop{k_}', inv, havoc_objs=lambda env: [IdxHavoc()],
                kinds={'m': lambda: None, 'count': 'int', 'matches_ins_idx': 'int'})
        it.empty_list_factory = Bag
        f = IFunc(it, loc.node, None, '_match__inside_list_quantifier')
        r = it.call(f, (st, pat_it, tgt, pat, case['partial']))
        ctx.notes['outcome'] = 'return'
        ctx.prove(f'{pre}.tag_stack_balanced[{label}]', eq(depth(st), D))
        if r is None:
            ctx.prove(f'{pre}.fail.rewinds_target_cursor[{label}]', eq(tgt._get('idx'), T0))
        else:
            ctx.prove(f'{pre}.success.returns_mapping[{label}]', isinstance(r, dict))

    # ---------------------------------------------------------------------------------------------------------------
    def run_quantifier_tags(ctx, case, loc, pre, label):
        """_match__inside_list_quantifier, WHAT is collected: with the tag collections as real lists, concrete bounds and a
        concrete target length, for every outcome of every element / rest-of-list attempt (forked):
            success   the tag list handed to the merge is   [tags of the iterations that are part of the final match, in
                      target order]  (wrapped as one {pat_tag: [FSTMatch ...]} entry when the quantifier is tagged),
                      then the static tags exactly once, then the tags of the rest of the list; the number of iterations
                      lies within the bounds; iteration k was matched against target element entry+k; the cursor stands
                      behind the last accepted iteration (the rest stub does not move it)
            failure   None, cursor at its entry position, nothing merged
        Iterations given up while a greedy quantifier backs off, or never accepted, contribute nothing."""
        it = Interp({})
        it.globals.update(globals_(it))
        TLn, T0 = case['tl'], case['t0']
        elems = [SObj(f'tgt{i}', {}) for i in range(TLn)]
        tgt = SObj('tgt_iter', {}, seq=elems, len=TLn, idx=T0)
        for m_ in ('next', 'at_end'):
            node = frontend.locate(f'match:_MatchList.{m_}').node
            tgt._set(m_, (lambda node=node, m_=m_: (lambda *a: it.call(IFunc(it, node, None, m_), (tgt, *a))))(), count=False)
        pat_it = SObj('pat_iter', {}, idx=0, len=0, seq=[])
        stack, merged, discarded = [], [], []

        def new_tagss():
            l = []
            stack.append(l)
            return l

        def pop_merge():
            merged.append(list(stack.pop()))
            return {'merged': len(merged)}

        def discard():
            discarded.append(stack.pop())
            return None
        st = SObj('mstate', {}, is_FST=False)
        st._set('new_tagss', new_tagss, count=False)
        st._set('pop_merge_tagss', pop_merge, count=False)
        st._set('discard_tagss', discard, count=False)
        static = {'s': 1} if case['static'] else None
        q_pat = SObj('q_pat', {}, **{'__class__': SObj('cls', {})})
        pat = SObj('MQ', {}, pat=q_pat, min=case['qmin'], max=case['qmax'], pat_tag=case['tag'], greedy=case['greedy'],
                   static_tags=static)
        attempts = []

        def match_func(p, t, mstate):
            k = next(i for i, e in enumerate(elems) if e is t)
            if choose(f'elem{len(attempts)}', 2):
                m = {'x': k, 'n': len(attempts)}
                attempts.append((k, m))
                return m
            attempts.append((k, None))
            return None
        rest = []

        def inside_list(mstate, p_it, t_it, allow_partial=False):
            if choose(f'rest{len(rest)}', 2):
                m = {'rest': len(rest)}
                rest.append((t_it._get('idx'), m))
                return m
            rest.append((t_it._get('idx'), None))
            return None

        class MatchFuncs:
            def get(self, cls, default=None):
                return match_func
        it.globals.update({'_match__inside_list': inside_list, '_MATCH_FUNCS': MatchFuncs(),
                           '_match_default': SObj('_match_default', {}), 'FSTMatch': lambda *a: ('FSTMatch',) + a,
                           'FSTView': SObj('FSTView', {}), 'MatchError': IndexError, 'bool': bool})
        it.globals['isinstance'] = lambda o, t: False
        f = IFunc(it, loc.node, None, '_match__inside_list_quantifier')
        r = it.call(f, (st, pat_it, tgt, pat, False))
        ctx.notes['outcome'] = 'return'
        qmin, qmax = case['qmin'], case['qmax']
        ctx.prove(f'{pre}.tag_stack_balanced[{label}]', not stack and len(merged) + len(discarded) == 1)
        if r is None:
            ctx.prove(f'{pre}.fail.nothing_merged_cursor_rewound[{label}]', not merged and tgt._get('idx') == T0)
            # completeness: a failure is only possible if no admissible count had a successful rest attempt
            ctx.prove(f'{pre}.fail.no_rest_attempt_succeeded[{label}]', all(m is None for _, m in rest))
            return
        got = merged[0] if merged else None
        ok_rest = bool(rest) and rest[-1][1] is not None and got is not None and len(got) >= 1 and got[-1] is rest[-1][1]
        ctx.prove(f'{pre}.success.rest_tags_last[{label}]', ok_rest)
        count = (rest[-1][0] - T0) if rest else -1
        ctx.prove(f'{pre}.success.count_within_bounds[{label}]', qmin <= count and (qmax is None or count <= qmax) and
                  tgt._get('idx') == T0 + count)
        # the iterations that are part of the final match: the LAST successful attempt on each target T0 .. T0+count-1
        final = []
        for k in range(T0, T0 + max(count, 0)):
            ms = [m for kk, m in attempts if kk == k and m is not None]
            final.append(ms[-1] if ms else None)
        body = got[:-1] if got else []
        want = []
        if case['tag']:
            if not (body and isinstance(body[0], dict) and list(body[0]) == [case['tag']]):
                ctx.prove(f'{pre}.success.iterations_collected[{label}]', False, info=f'got {body}')
                return
            ent = body[0][case['tag']]
            good = len(ent) == len(final) and all(isinstance(e, tuple) and e[0] == 'FSTMatch' and e[1] is q_pat and
                                                  e[2] is elems[T0 + i] and e[3] is final[i] for i, e in enumerate(ent))
            tail = body[1:]
        else:
            good = len(body) >= len(final) and all(a is b for a, b in zip(body[:len(final)], final))
            tail = body[len(final):]
        ctx.prove(f'{pre}.success.iterations_collected[{label}]', good and None not in final,
                  info=f'got {body} want iterations {final}')
        ctx.prove(f'{pre}.success.static_tags_exactly_once[{label}]', tail == ([static] if static else []) and
                  (not static or tail[0] is static), info=f'after the iterations: {tail}')

    # ---------------------------------------------------------------------------------------------------------------
    def run_maybe(ctx, case, loc, pre, label):
        """MMAYBE._match ('p or absent'): the target counts as absent only when it IS None - a falsy value (0, '', [],
        False) is a present value and must be matched against p; a present target is handed to p's match function
        exactly once and rejected iff p rejects it; the tags are p's tags, then the pattern tag bound to the target (to []
        for an absent one), then the static tags."""
        it = Interp({})
        node = SObj('node', {})
        TARGETS = {'None': None, '0': 0, 'empty_str': '', 'empty_list': [], 'False': False, 'zero_float': 0.0, 'node': node,
                   '5': 5, 'x': 'x', 'list1': [node]}
        tgt = TARGETS[case['tgt']]
        child = {'none': None, 'empty': {}, 'tags': {'c': 1}}[case['child']]
        calls = []

        def match_func(p, t, mstate):
            calls.append((p, t))
            return child

        class MatchFuncs:
            def get(self, cls, default=None):
                return match_func
        static = {'s': 1} if case['static'] else {}
        q = SObj('p', {}, **{'__class__': SObj('cls', {})})
        self = SObj('self', {}, pat=q, pat_tag=case['tag'], static_tags=static)
        st = SObj('mstate', {}, is_FST=False)
        it.globals.update({'_MATCH_FUNCS': MatchFuncs(), '_match_default': SObj('d', {}), 'AST': SObj('AST', {}),
                           'MatchError': IndexError, 'dict': dict, 'getattr': lambda o, n, d=None: d})
        it.globals['isinstance'] = lambda o, t: False
        f = IFunc(it, loc.node, None, '_match')
        r = it.call(f, (self, tgt, st))
        ctx.notes['outcome'] = 'return'
        if tgt is None:
            ctx.prove(f'{pre}.absent.matches_without_consulting_p[{label}]', not calls and r is not None and
                      dict(r) == ({case['tag']: [], **static} if case['tag'] else static))
            return
        ctx.prove(f'{pre}.present.p_consulted_once_with_the_target[{label}]', len(calls) == 1 and calls[0][0] is q and
                  calls[0][1] is tgt, info='a falsy target is a present value')
        if child is None:
            ctx.prove(f'{pre}.present.rejected_iff_p_rejects[{label}]', r is None)
            return
        want = dict(child)
        if case['tag']:
            want[case['tag']] = tgt
        want.update(static)
        ctx.prove(f'{pre}.present.tags[{label}]', r is not None and dict(r) == want and
                  (not case['tag'] or r[case['tag']] is tgt), info=f'got {r} want {want}')

    mcases = [dict(tgt=t, child=c, tag=tg, static=s_) for t in ('None', '0', 'empty_str', 'empty_list', 'False', 'zero_float',
                                                                'node', '5', 'x', 'list1')
              for c in ('none', 'empty', 'tags') for tg in (None, 'T') for s_ in (False, True)]
    bools = (False, True)
    tcases = []
    for tl in (0, 1, 2, 3):
        for t0 in range(0, min(tl, 1) + 1):
            for qmin in (0, 1, 2):
                for qmax in (qmin, qmin + 1, 3, None):
                    if qmax is not None and qmax < qmin:
                        continue
                    for g in bools:
                        for tag in (None, 'T'):
                            for st_ in bools:
                                tcases.append(dict(tl=tl, t0=t0, qmin=qmin, qmax=qmax, greedy=g, tag=tag, static=st_))
    seen_, tc2 = set(), []
    for c in tcases:
        k_ = tuple(sorted(c.items(), key=lambda kv: kv[0]))
        if str(k_) not in seen_:
            seen_.add(str(k_))
            tc2.append(c)
    tcases = tc2
    qcases = [dict(greedy=g, tag=t, static=s_, sublist=sl, unbounded=u, partial=False)
              for g in bools for t in (None, 'T') for s_ in bools for sl in bools for u in bools]
    return [
        Fragment('match:_match__inside_list_quantifier', prop, 'quantifier', qcases, run_quantifier, min_obligations=2,
                 native=('k_match', 'replay_match'),
                 notes='loop invariants: tag stack depth and saved cursor; tag collections opaque; callees under contracts'),
        Fragment('match:_match__inside_list_quantifier', prop, 'quantifier.tags', tcases, run_quantifier_tags, min_obligations=2,
                 native=('k_match', 'replay_match'), max_paths=200000,
                 notes='tag collections as real lists; bounds 0..3 / unbounded, target length 0..3, single-element '
                       'quantified pattern; every outcome of every element and rest attempt forked; callees as recording stubs'),
        Fragment('match:MMAYBE._match', prop, 'maybe', mcases, run_maybe, min_obligations=1, native=('k_match', 'replay_match'),
                 notes='target kinds x outcome of the sub-pattern x pattern tag x static tags; match function of p as a '
                       'recording stub'),
        Fragment('match:_match__inside_list', prop, 'inside_list', [dict(allow_partial=a) for a in (False, True)],
                 run_inside_list, min_obligations=3, native=('k_match', 'replay_match'),
                 notes='loop invariant over the pattern cursor; callees under assumed contracts (result kinds, cursor '
                       'movement, tag stack depth preserved)'),
        Fragment('match:_MatchList.next', prop, 'matchlist.next', [dict(m='next')], run_matchlist, min_obligations=2),
        Fragment('match:_MatchList.at_end', prop, 'matchlist.at_end', [dict(m='at_end')], run_matchlist, min_obligations=2),
        Fragment('match:_MatchState.new_tagss', prop, 'tagstack.new', [dict(m='new_tagss')], run_state, min_obligations=2),
        Fragment('match:_MatchState.discard_tagss', prop, 'tagstack.discard', [dict(m='discard_tagss', n=0)], run_state,
                 min_obligations=2),
        Fragment('match:_MatchState.pop_merge_tagss', prop, 'tagstack.merge',
                 [dict(m='pop_merge_tagss', n=n) for n in (0, 1, 2, 3)], run_state, min_obligations=2,
                 notes='merge checked for 0..3 collected tag dicts (the three code paths), stack depth symbolic'),
    ]


def replay_match(payload):
    """native: a failing input is SEARCHED with the bounded quantifier enumeration on the real matcher (findings listed
    as known are not counted)"""
    from contracts import b_match
    from contracts.b_lib import is_known
    r = b_match.main({'tier': 'quick', 'seed': 0})
    f = [x for x in (r.get('failures') or []) if not is_known(x['key'])]
    if f:
        return {'reproduced': True, 'failing_input': f[0]}
    return {'reproduced': False, 'note': f'no new failing input among {r.get("evaluations")} match cases'}


def options_structural(rep, prop='C17'):
    """the `ctx` option of the public entry points reaches the matcher: every `_MatchState(...)` constructed in
    M_Pattern.match / match / search receives the function's own `ctx` parameter as second argument (or ctx=ctx), the
    parameter is not reassigned before, and `_MatchState.__init__` stores it (self.ctx = ctx) and gives it no default that
    a call site could silently fall back to.  sub()/subn() are built on search() and pass their options through."""
    import ast
    from pyvc import frontend
    sites = 0
    for ident in ('match:M_Pattern.match', 'match:match', 'match:search'):
        try:
            loc = frontend.locate(ident)
        except Exception as e:
            rep.undecided(f'{prop}.options.ctx_reaches_matcher.{ident.split(":")[1]}', f'cannot locate {ident}: {e}')
            continue

        class _S:
            name = 'ctx option reaches the match state (structural)'
            notes = ''
        rep.function(loc, _S)
        fn = loc.node
        probs = []
        params = [a.arg for a in fn.args.args + fn.args.kwonlyargs]
        if 'ctx' not in params:
            probs.append('no `ctx` parameter')
        n_here = 0
        for n in ast.walk(fn):
            if isinstance(n, ast.Call) and isinstance(n.func, ast.Name) and n.func.id == '_MatchState':
                n_here += 1
                second = n.args[1] if len(n.args) > 1 else next((k.value for k in n.keywords if k.arg == 'ctx'), None)
                if not (isinstance(second, ast.Name) and second.id == 'ctx'):
                    probs.append(f'line {n.lineno}: _MatchState(...) is not given the caller\'s ctx')
            if isinstance(n, (ast.Assign, ast.AugAssign, ast.NamedExpr)):
                for t in ast.walk(n.targets[0] if isinstance(n, ast.Assign) else n.target):
                    if isinstance(t, ast.Name) and t.id == 'ctx' and isinstance(t.ctx, ast.Store):
                        probs.append(f'line {n.lineno}: ctx is reassigned')
        if not n_here:
            probs.append('constructs no _MatchState (anchor changed?)')
        sites += n_here
        name = f'{prop}.options.ctx_reaches_matcher.{ident.split(":")[1]}'
        rep.other('structural', name, not probs, detail='; '.join(probs[:3]) or f'{n_here} match state(s) constructed with the ctx option',
                  key=name, replay={'function': ident, 'problems': probs, 'verifier_output': 'syntactic data-flow check'})
    loc = frontend.locate('match:_MatchState.__init__')
    fn = loc.node
    probs = []
    names = [a.arg for a in fn.args.args]
    if names[:3] != ['self', 'is_FST', 'ctx']:
        probs.append(f'signature is {names}')
    if fn.args.defaults:
        probs.append('a parameter of _MatchState.__init__ has a default: a call site that drops the option still runs')
    if not any(isinstance(n, ast.Assign) and ast.unparse(n) == 'self.ctx = ctx' for n in fn.body):
        probs.append('self.ctx = ctx not found')
    name = f'{prop}.options.ctx_reaches_matcher._MatchState.__init__'
    rep.other('structural', name, not probs, detail='; '.join(probs) or 'stores ctx, no defaults', key=name,
              replay={'function': 'match:_MatchState.__init__', 'problems': probs, 'verifier_output': 'syntactic check'})
    if sites < 3:
        rep.checker_error(f'{prop}.options: only {sites} _MatchState constructions found in the entry points')
