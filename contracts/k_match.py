"""C17/P - "no state is carried from one match attempt into the next": the rewind / tag-stack discipline of list matching.

Functions under contract (real source of src/fst/match.py):
  _MatchList.next / at_end        cursor protocol: next() returns seq[idx] and advances by one, or the sentinel at the end
                                  without moving; at_end() <=> idx == len
  _MatchState.new_tagss / discard_tagss / pop_merge_tagss
                                  the running list of tag lists is a stack: push one, pop exactly one
  _match__inside_list             for pattern lists of ANY length (loop invariant): on failure both cursors are back at
                                  their entry positions and the tag stack has its entry depth; on success the tag stack
                                  has its entry depth (balanced) - proved against assumed contracts of the callees
                                  (_match__inside_list_quantifier and the per-class match functions: return None or a
                                  mapping, leave the depth of the tag stack as they found it, may move the cursors)

What is NOT proved: _match__inside_list_quantifier itself (its own rewind is the bounded stand-in's business), the leaf
type pre-filter."""
from pyvc.logic import and_, eq, truth


def specs(prop='C17'):
    from pyvc import frontend, values
    from pyvc.contract import Fragment
    from pyvc.interp import Interp, IFunc, SObj
    from pyvc.loops import LoopSpec
    from pyvc.sym import cur

    SENT = SObj('_SENTINEL', {})
    EMPTY = {}

    def choose(name, n):
        c = cur()
        for i in range(n - 1):
            if truth(c.bool(c.fresh_name(f'{name}={i}'))):
                return i
        return n - 1

    class Seq:
        """a pattern / target sequence: elements are opaque; a pattern element is a quantifier or not"""

        def __init__(self, name):
            self.name = name
            self.n = 0

        def _sym_getitem(self, i):
            self.n += 1
            return SObj(f'{self.name}[{self.n}]', {}, is_quant=bool(choose(f'{self.name}.quant', 2)),
                        **{'__class__': SObj('cls', {})})

    def saved_names(fnode):
        """locals that save a cursor position:  <name> = <cursor parameter>.idx  at the top level of the function (found
        structurally, so that renaming them does not disturb the invariant)"""
        import ast as _ast
        out = {}
        for st in fnode.body:
            if (isinstance(st, _ast.Assign) and len(st.targets) == 1 and isinstance(st.targets[0], _ast.Name)
                    and isinstance(st.value, _ast.Attribute) and st.value.attr == 'idx'
                    and isinstance(st.value.value, _ast.Name) and st.value.value.id in ('pat_iter', 'tgt_iter')):
                out[st.targets[0].id] = st.value.value.id
        return out

    def mk_iter(it, ctx, name):
        ln = ctx.int(f'{name}.len')
        idx = ctx.int(f'{name}.idx')
        ctx.assume(and_(0 <= idx, idx <= ln))
        o = SObj(name, {}, seq=Seq(name), len=ln, idx=idx)
        for m in ('next', 'at_end'):
            node = frontend.locate(f'match:_MatchList.{m}').node
            o._set(m, (lambda node=node, m=m: (lambda *a: it.call(IFunc(it, node, None, m), (o, *a))))(), count=False)
        return o, idx, ln

    def mk_state(it, ctx):
        D = ctx.int('depth')
        ctx.assume(D >= 0)
        base = values.ListBase('all_tagss', lambda k: SObj('older_tagss', {}), D)
        st = SObj('mstate', {}, all_tagss=values.SList.of_base(base))
        for m in ('new_tagss', 'discard_tagss', 'pop_merge_tagss'):
            node = frontend.locate(f'match:_MatchState.{m}').node
            st._set(m, (lambda node=node, m=m: (lambda *a: it.call(IFunc(it, node, None, m), (st, *a))))(), count=False)
        return st, D

    def depth(st):
        return st._get('all_tagss')._sym_len()

    class Quants:
        def _sym_contains(self, p):
            return bool(p._get('is_quant'))

    def globals_(it):
        return {'_SENTINEL': SENT, '_EMPTY_DICT': EMPTY, '_QUANTIFIER_STANDALONES': Quants(),
                'MQ': SObj('MQ', {})}

    # ---------------------------------------------------------------------------------------------------------------
    def run_inside_list(ctx, case, loc, pre, label):
        it = Interp({})
        it.globals.update(globals_(it))
        it.globals['isinstance'] = lambda o, t: False     # `p in _QUANTIFIER_STANDALONES or isinstance(p, MQ)`: one flag
        pat, P0, PL = mk_iter(it, ctx, 'pat_iter')
        tgt, T0, TL = mk_iter(it, ctx, 'tgt_iter')
        st, D = mk_state(it, ctx)
        calls = []

        def callee_effect():
            """assumed contract of the callees: cursors may move anywhere inside their sequences, the tag stack depth
            is what it was; result None (no match), an empty mapping, or a non-empty mapping"""
            for o, ln in ((pat, PL), (tgt, TL)):
                v = ctx.int(ctx.fresh_name(f'{o._name}.idx_after_callee'))
                ctx.assume(and_(0 <= v, v <= ln))
                o._set('idx', v, count=False)
            return [None, EMPTY, {'tag': 1}][choose('callee_result', 3)]

        def quantifier(mstate, pat_iter, tgt_iter, p, allow_partial):
            calls.append('quantifier')
            return callee_effect()

        class MatchFuncs:
            def get(self, cls, default=None):
                def f(p, t, mstate):
                    calls.append('match_func')
                    r = [None, EMPTY, {'tag': 1}][choose('match_result', 3)]
                    return r
                return f
        it.globals.update({'_match__inside_list_quantifier': quantifier, '_MATCH_FUNCS': MatchFuncs(),
                           '_match_default': SObj('_match_default', {})})

        class IdxHavoc:
            def __init__(self, o, ln):
                self.o, self.ln = o, ln

            def havoc(self, tag):
                v = ctx.int(ctx.fresh_name(f'{tag}.{self.o._name}.idx'))
                self.o._set('idx', v, count=False)

        def inv(k, env):
            return {'tag_stack_depth': eq(depth(st), D + 1),
                    'pat_cursor_in_range': and_(0 <= pat._get('idx'), pat._get('idx') <= PL),
                    'tgt_cursor_in_range': and_(0 <= tgt._get('idx'), tgt._get('idx') <= TL),
                    'saved_positions': and_(*[eq(env[nm], P0 if which == 'pat_iter' else T0)
                                              for nm, which in saved_names(loc.node).items() if nm in env])}
        it.loop_specs[('_match__inside_list', 0)] = LoopSpec(f'{prop}.inside_list.loop', inv,
                                                             havoc_objs=lambda env: [IdxHavoc(pat, PL), IdxHavoc(tgt, TL)],
                                                             kinds={'p': lambda: None, 't': lambda: None, 'm': lambda: None})
        f = IFunc(it, loc.node, None, '_match__inside_list')
        r = it.call(f, (st, pat, tgt, case['allow_partial']))
        ctx.notes['outcome'] = 'return'
        ctx.prove(f'{pre}.tag_stack_balanced[{label}]', eq(depth(st), D),
                  info='every exit pops exactly the tag list it pushed')
        if r is None:
            ctx.prove(f'{pre}.fail.rewinds_pattern_cursor[{label}]', eq(pat._get('idx'), P0))
            ctx.prove(f'{pre}.fail.rewinds_target_cursor[{label}]', eq(tgt._get('idx'), T0))
        else:
            ctx.prove(f'{pre}.success.returns_mapping[{label}]', isinstance(r, dict))
            if not case['allow_partial'] and 'quantifier' not in calls:
                ctx.prove(f'{pre}.success.whole_target_consumed[{label}]', eq(tgt._get('idx'), TL),
                          info='without a quantifier a full match consumes the whole target list')

    # ---------------------------------------------------------------------------------------------------------------
    def run_matchlist(ctx, case, loc, pre, label):
        it = Interp({})
        it.globals.update(globals_(it))
        o, I0, L = mk_iter(it, ctx, 'it')
        m = case['m']
        if m == 'next':
            r = o.next()
            ctx.notes['outcome'] = 'return'
            if truth(eq(I0, L)):
                ctx.prove(f'{pre}.next.sentinel_at_end[{label}]', r is SENT)
                ctx.prove(f'{pre}.next.end_does_not_move[{label}]', eq(o._get('idx'), I0))
            else:
                ctx.prove(f'{pre}.next.returns_element[{label}]', r is not SENT and isinstance(r, SObj))
                ctx.prove(f'{pre}.next.advances_by_one[{label}]', eq(o._get('idx'), I0 + 1))
        else:
            r = o.at_end()
            ctx.notes['outcome'] = 'return'
            ctx.prove(f'{pre}.at_end.iff_idx_is_len[{label}]', eq(r, eq(I0, L)))
            ctx.prove(f'{pre}.at_end.pure[{label}]', eq(o._get('idx'), I0))

    def run_state(ctx, case, loc, pre, label):
        it = Interp({})
        it.globals.update(globals_(it))
        st, D = mk_state(it, ctx)
        m = case['m']
        if m == 'new_tagss':
            r = st.new_tagss()
            ctx.notes['outcome'] = 'return'
            ctx.prove(f'{pre}.new.pushes_one[{label}]', eq(depth(st), D + 1))
            ctx.prove(f'{pre}.new.returns_the_pushed_empty_list[{label}]', r == [] and st._get('all_tagss')[-1] is r)
            return
        # pop operations need a non-empty stack: push n tag dicts first through the real new_tagss
        tagss = st.new_tagss()
        for i in range(case['n']):
            tagss.append({f'k{i}': i})
        if m == 'discard_tagss':
            r = st.discard_tagss()
            ctx.notes['outcome'] = 'return'
            ctx.prove(f'{pre}.discard.pops_one[{label}]', eq(depth(st), D))
            ctx.prove(f'{pre}.discard.returns_None[{label}]', r is None)
        else:
            r = st.pop_merge_tagss()
            ctx.notes['outcome'] = 'return'
            ctx.prove(f'{pre}.merge.pops_one[{label}]', eq(depth(st), D))
            ctx.prove(f'{pre}.merge.is_union_of_tags[{label}]', dict(r) == {f'k{i}': i for i in range(case['n'])})

    # ---------------------------------------------------------------------------------------------------------------
    def run_quantifier(ctx, case, loc, pre, label):
        """_match__inside_list_quantifier: whatever the quantifier bounds, greediness and the number of attempts, a failed
        match leaves the target cursor at its entry position and the tag stack at its entry depth; a successful one leaves
        the tag stack balanced.  Callees under contracts: _match__inside_list by the contract proved above (on failure its
        cursors are where they were when it was called; depth preserved), per-class match functions (depth preserved)."""
        it = Interp({})
        it.globals.update(globals_(it))
        pat_it, P0, PL = mk_iter(it, ctx, 'pat_iter')
        tgt, T0, TL = mk_iter(it, ctx, 'tgt_iter')
        st, D = mk_state(it, ctx)
        st._set('is_FST', False, count=False)
        qmin, qmax = ctx.int('q_min'), ctx.int('q_max')
        ctx.assume(and_(0 <= qmin, qmin <= qmax))

        class Bag:
            """tagss / matches: an opaque collection (content irrelevant to the rewind / balance obligations): reading an
            element gives any object ever put into it or an unknown one, emptiness is unknown"""
            seen = []

            def append(self, x):
                Bag.seen.append(x)

            def insert(self, i, x):
                Bag.seen.append(x)

            def _sym_delitem(self, i):
                pass

            def _sym_truth(self):
                return truth(ctx.bool(ctx.fresh_name('bag_nonempty')))

            def _sym_getitem(self, i):
                cands = [x for k, x in enumerate(Bag.seen) if not any(x is y for y in Bag.seen[:k])] + [SObj('unknown_elem', {})]
                return cands[choose('bag_elem', len(cands))]
        Bag.seen = []
        bag_states = []
        real_new = st._get('new_tagss')

        def new_tagss():
            real_new()
            b = Bag()
            bag_states.append(b)
            return b
        st._set('new_tagss', new_tagss, count=False)
        real_discard = st._get('discard_tagss')
        # pop_merge_tagss by its contract (proved separately): pops exactly one tag list, returns a mapping
        st._set('pop_merge_tagss', lambda: (real_discard(), {'merged': 1})[1], count=False)
        sublist = case['sublist']
        q_pat = [SObj('qp0', {})] if sublist else SObj('q_pat', {}, **{'__class__': SObj('cls', {})})
        pat = SObj('MQ', {}, pat=q_pat, min=qmin, max=(None if case['unbounded'] else qmax), pat_tag=case['tag'],
                   greedy=case['greedy'], static_tags=({'s': 1} if case['static'] else None))

        def move_tgt():
            v = ctx.int(ctx.fresh_name('tgt.idx_after_callee'))
            ctx.assume(and_(0 <= v, v <= TL))
            tgt._set('idx', v, count=False)

        def inside_list(mstate, p_it, t_it, allow_partial=False):
            before = t_it._get('idx')
            ok = choose('inner_match', 2)
            if ok:
                move_tgt() if t_it is tgt else None
                return {'t': 1}
            t_it._set('idx', before, count=False)     # contract: rewinds on failure
            return None

        class MatchFuncs:
            def get(self, cls, default=None):
                return lambda p, t, mstate: [None, EMPTY, {'tag': 1}][choose('elem_match', 3)]
        it.globals.update({'_match__inside_list': inside_list, '_MATCH_FUNCS': MatchFuncs(),
                           '_match_default': SObj('_match_default', {}), 'FSTMatch': lambda *a: ('FSTMatch',) + a,
                           'FSTView': SObj('FSTView', {}), 'MatchError': IndexError, 'bool': bool})
        it.globals['isinstance'] = lambda o, t: isinstance(o, list) if t is it.globals.get('list') else False
        ml = frontend.locate('match:_MatchList')
        it.globals['_MatchList'] = lambda seq: mk_iter(it, ctx, 'qpat_iter')[0]

        class TgtSeq:
            def _sym_truth(self):
                return truth(TL > 0)

            def _sym_getitem(self, i):
                if isinstance(i, slice):
                    return ['slice']
                return SObj('tgt_elem', {})
        tgt._set('seq', TgtSeq(), count=False)

        class IdxHavoc:
            def havoc(self, tag):
                v = ctx.int(ctx.fresh_name(f'{tag}.tgt.idx'))
                tgt._set('idx', v, count=False)

        def inv(k, env):
            return {'tag_stack_depth': eq(depth(st), D + 1),
                    'saved_position': and_(*[eq(env[nm], T0) for nm, which in saved_names(loc.node).items()
                                             if which == 'tgt_iter' and nm in env])}
        import ast as _ast
        for k_, lp in enumerate(frontend.loops_of(loc.node)):
            if not isinstance(lp, _ast.While):
                continue        # `for count_to in counts`: a concrete tuple of one or two bounds, unrolled
            it.loop_specs[('_match__inside_list_quantifier', k_)] = LoopSpec(
                f'{prop}.quantifier.loop{k_}', inv, havoc_objs=lambda env: [IdxHavoc()],
                kinds={'m': lambda: None, 'count': 'int', 'matches_ins_idx': 'int'})
        it.empty_list_factory = Bag
        f = IFunc(it, loc.node, None, '_match__inside_list_quantifier')
        r = it.call(f, (st, pat_it, tgt, pat, case['partial']))
        ctx.notes['outcome'] = 'return'
        ctx.prove(f'{pre}.tag_stack_balanced[{label}]', eq(depth(st), D))
        if r is None:
            ctx.prove(f'{pre}.fail.rewinds_target_cursor[{label}]', eq(tgt._get('idx'), T0))
        else:
            ctx.prove(f'{pre}.success.returns_mapping[{label}]', isinstance(r, dict))

    bools = (False, True)
    qcases = [dict(greedy=g, tag=t, static=s_, sublist=sl, unbounded=u, partial=False)
              for g in bools for t in (None, 'T') for s_ in bools for sl in bools for u in bools]
    return [
        Fragment('match:_match__inside_list_quantifier', prop, 'quantifier', qcases, run_quantifier, min_obligations=2,
                 native=('k_match', 'replay_match'),
                 notes='loop invariants: tag stack depth and saved cursor; tag collections opaque; callees under contracts'),
        Fragment('match:_match__inside_list', prop, 'inside_list', [dict(allow_partial=a) for a in (False, True)],
                 run_inside_list, min_obligations=3, native=('k_match', 'replay_match'),
                 notes='loop invariant over the pattern cursor; callees under assumed contracts (result kinds, cursor '
                       'movement, tag stack depth preserved)'),
        Fragment('match:_MatchList.next', prop, 'matchlist.next', [dict(m='next')], run_matchlist, min_obligations=2),
        Fragment('match:_MatchList.at_end', prop, 'matchlist.at_end', [dict(m='at_end')], run_matchlist, min_obligations=2),
        Fragment('match:_MatchState.new_tagss', prop, 'tagstack.new', [dict(m='new_tagss')], run_state, min_obligations=2),
        Fragment('match:_MatchState.discard_tagss', prop, 'tagstack.discard', [dict(m='discard_tagss', n=0)], run_state,
                 min_obligations=2),
        Fragment('match:_MatchState.pop_merge_tagss', prop, 'tagstack.merge',
                 [dict(m='pop_merge_tagss', n=n) for n in (0, 1, 2, 3)], run_state, min_obligations=2,
                 notes='merge checked for 0..3 collected tag dicts (the three code paths), stack depth symbolic'),
    ]


def replay_match(payload):
    """native: a failing input is SEARCHED with the bounded quantifier enumeration on the real matcher (findings listed
    as known are not counted)"""
    from contracts import b_match
    from contracts.b_lib import is_known
    r = b_match.main({'tier': 'quick', 'seed': 0})
    f = [x for x in (r.get('failures') or []) if not is_known(x['key'])]
    if f:
        return {'reproduced': True, 'failing_input': f[0]}
    return {'reproduced': False, 'note': f'no new failing input among {r.get("evaluations")} match cases'}
