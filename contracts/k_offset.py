"""Contracts for the position-shift kernel: fst_core:_params_offset, _offset (per-node body + pruning), and the
text splice fst_core:_put_src.

_offset is verified as a *fragment*: the flag definitions that precede the worklist loop and one iteration of the
inner `while stack:` body, selected structurally from the real source on every run.  The specification is the
declarative rule of DESIGN C11 (strictly after the spot => shifted, strictly before => unchanged, at the spot =>
priority rule: well-formedness > False stays > True shifts > None follows).
"""
import ast

from pyvc.logic import *  # noqa: F401,F403
from pyvc.logic import and_, or_, not_, implies, ite, eq, lex_lt, lex_le, truth, slen

TRI = (True, False, None)


# ---------------------------------------------------------------------------------------------------------------------
# spec

def shift(pt, lno, dln, dcol):
    l, c = pt
    return (l + dln, ite(eq(l, lno), c + dcol, c))


def spec_node(S, E, P, dln, dcol, tail, head):
    """Declarative spec of one node: returns (S', E').  S=(lineno,col_offset) E=(end_lineno,end_col_offset) P=(lno,colo)."""
    lno = P[0]
    fwd = or_(dln > 0, and_(eq(dln, 0), dcol >= 0))
    zero = eq(S, E)
    want_end = tail is True
    want_start = head is True
    # at the spot, zero length node: keep S' <= E'; a False endpoint blocks the mover, a None endpoint follows it
    z_end_fwd = want_end or (want_start and tail is None)
    z_start_fwd = want_start and tail is not False
    z_start_bwd = want_start or (want_end and head is None)
    z_end_bwd = want_end and head is not False
    end_at_moves = ite(zero, ite(fwd, z_end_fwd, z_end_bwd), want_end)
    start_at_moves = ite(zero, ite(fwd, z_start_fwd, z_start_bwd), want_start)
    e_moves = or_(lex_lt(P, E), and_(eq(E, P), end_at_moves))
    s_moves = or_(lex_lt(P, S), and_(eq(S, P), start_at_moves))
    return s_moves, e_moves


# ---------------------------------------------------------------------------------------------------------------------
# structural selection of the fragment

def select_offset_fragment(fn):
    """-> (prefix statements [early-return `if` .. before `while stacks`], inner-loop body)"""
    body = fn.body
    i_if = i_wh = None
    for i, s in enumerate(body):
        if isinstance(s, ast.If) and i_if is None:
            names = {n.id for n in ast.walk(s.test) if isinstance(n, ast.Name)}
            if {'dln', 'dcol_offset'} <= names:
                i_if = i
        if isinstance(s, ast.While) and isinstance(s.test, ast.Name) and s.test.id == 'stacks':
            if i_wh is not None:
                raise LookupError('two `while stacks` loops')
            i_wh = i
    if i_if is None or i_wh is None or i_if > i_wh:
        raise LookupError('cannot locate the flag prefix / worklist loop of _offset')
    outer = body[i_wh]
    inner = [s for s in outer.body if isinstance(s, ast.While) and isinstance(s.test, ast.Name) and s.test.id == 'stack']
    if len(inner) != 1:
        raise LookupError('cannot locate the unique inner `while stack:` loop of _offset')
    pops = [s for s in outer.body if s is not inner[0]]
    return body[i_if:i_wh], inner[0].body, pops


# ---------------------------------------------------------------------------------------------------------------------
# symbolic driver

def offset_cases():
    cases = []
    for tail in TRI:
        for head in TRI:
            for excl in ('no', 'no_leaf', 'excluded_offset', 'excluded_skip'):
                for colmode in ('byte', 'char'):
                    for deco in ('none', 'empty', 'some', 'two'):
                        if colmode == 'char' and (excl != 'no' or deco != 'none'):
                            continue
                        if deco != 'none' and excl != 'no':
                            continue
                        cases.append(dict(tail=tail, head=head, excl=excl, col=colmode, deco=deco))
    return cases


def run_offset_node(ctx, case, loc, pre, label):
    from pyvc.interp import Interp, SObj, IFunc, Env, OptIntAttr, IntAttr, _Break, _Continue, _Return, ABSENT
    from pyvc import values, sym

    prefix, loop_body, _ = select_offset_fragment(loc.node)
    tail, head = case['tail'], case['head']

    class Cache:
        def __init__(self):
            self.cleared = False

        def clear(self):
            self.cleared = True

    class Stack:
        def __init__(self, items):
            self.items = items

        def pop(self, *a):
            if a:
                raise sym.Unsupported('stack.pop(i): walk order differs from the verified one')
            return self.items.pop()

        def _sym_truth(self):
            return bool(self.items)

    cache = Cache()
    f = SObj('f', {}, _cache=cache)
    attrs = dict(lineno=IntAttr(), col_offset=IntAttr(), end_lineno=IntAttr(), end_col_offset=OptIntAttr(), f=f,
                 _fields=('x',) if case['excl'] != 'no_leaf' else ())
    if case['deco'] == 'empty':
        attrs['decorator_list'] = []
    elif case['deco'] == 'some':
        d0 = SObj('deco0', dict(lineno=IntAttr()))
        attrs['decorator_list'] = [d0]
    elif case['deco'] == 'two':
        d0 = SObj('deco0', dict(lineno=IntAttr()))
        d1 = SObj('deco1', dict(lineno=IntAttr()))
        attrs['decorator_list'] = [d0, d1]
    a = SObj('a', attrs)
    exclude = f if case['excl'].startswith('excluded') else SObj('other_f', {})
    offset_excluded = case['excl'] != 'excluded_skip'

    lb = values.str_list('L')
    lines = values.SList.of_base(lb)
    touched = []
    root = SObj('root', {}, _lines=lines)
    self_ = SObj('self', {}, root=root)
    self_._set('_touchall', lambda parents=True, self_=True, children=True: touched.append((parents, self_, children)))

    ln, col = ctx.int('ln'), ctx.int('col')
    dln, dcol = ctx.int('dln'), ctx.int('dcol_offset')
    ctx.assume(ln >= 0)
    if case['col'] == 'byte':
        ctx.assume(col <= 0)
    else:
        ctx.assume(col > 0)
    children_marker = object()
    g = {'syntax_ordered_children': lambda x: children_marker}
    it = Interp(g)
    env = Env()
    stack = Stack([a])
    env.vars.update(self=self_, ln=ln, col=col, dln=dln, dcol_offset=dcol, tail=tail, head=head, exclude=exclude,
                    offset_excluded=offset_excluded, self_=True, stack=stack)
    it.func_stack.append(IFunc(it, loc.node, None, '_offset'))
    try:
        it.exec_block(prefix, env)
    except _Return:
        ctx.notes['outcome'] = 'early-return'
        ctx.prove(f'{pre}.noop.only_when_zero_delta[{label}]', and_(eq(dln, 0), eq(dcol, 0)))
        ctx.prove(f'{pre}.noop.flushes_subtree[{label}]', len(touched) == 1 and touched[0][1] is True and touched[0][2] is True,
                  info='with a zero delta the walk is skipped, so self and every node below must be flushed explicitly')
        return
    ctx.prove(f'{pre}.walk.only_when_nonzero_delta[{label}]', or_(dln != 0, dcol != 0))
    lno, colo = env.lookup('lno'), env.lookup('colo')
    ctx.prove(f'{pre}.prefix.lno[{label}]', eq(lno, ln + 1))
    if case['col'] == 'byte':
        ctx.prove(f'{pre}.prefix.colo_is_given_byte_offset[{label}]', eq(colo, -col))
    P = (lno, colo)

    # pre-state of the node (read lazily so that the optional attribute forks inside this run)
    has_loc = a._get('end_col_offset') is not ABSENT
    if has_loc:
        S = (a._get('lineno'), a._get('col_offset'))
        E = (a._get('end_lineno'), a._get('end_col_offset'))
        ctx.assume(and_(S[0] >= 1, S[1] >= 0, E[0] >= 1, E[1] >= 0, lex_le(S, E), colo >= 0))
        if case['deco'] == 'some':
            ctx.assume(and_(d0.lineno >= 1, d0.lineno <= S[0]))
        elif case['deco'] == 'two':  # decorators are in source order, before the def line
            ctx.assume(and_(d0.lineno >= 1, d0.lineno <= d1.lineno, d1.lineno <= S[0]))
    outcome = 'fallthrough'
    try:
        it.exec_block(loop_body, env)
    except _Break:
        outcome = 'break'
    except _Continue:
        outcome = 'continue'
    ctx.notes['outcome'] = outcome

    skipped = case['excl'] == 'excluded_skip'
    if skipped:
        ctx.prove(f'{pre}.excluded.skipped[{label}]', outcome == 'continue' and not cache.cleared
                  and not a._written)
        return
    ctx.prove(f'{pre}.flush.cache_cleared[{label}]', cache.cleared)
    if not has_loc:
        ctx.prove(f'{pre}.noloc.untouched[{label}]', not a._written)
        ctx.prove(f'{pre}.noloc.recurses[{label}]', outcome == 'fallthrough')
    else:
        S2 = (a._get('lineno'), a._get('col_offset'))
        E2 = (a._get('end_lineno'), a._get('end_col_offset'))
        s_moves, e_moves = spec_node(S, E, P, dln, dcol, tail, head)
        ctx.prove(f'{pre}.node.end[{label}]', eq(E2, ite_pt(e_moves, shift(E, lno, dln, dcol), E)))
        ctx.prove(f'{pre}.node.start[{label}]', eq(S2, ite_pt(s_moves, shift(S, lno, dln, dcol), S)))
        if outcome == 'break':
            ctx.prove(f'{pre}.break.node_ends_before_spot[{label}]', lex_lt(E, P))
        if outcome == 'continue':
            # skipping the subtree is sound: node starts on a later line, no line delta, no decorator on/before lno
            c = and_(S[0] > lno, eq(dln, 0))
            if case['deco'] in ('some', 'two'):  # the FIRST decorator (smallest line) must lie after the spot line
                c = and_(c, d0.lineno > lno)
            ctx.prove(f'{pre}.continue.subtree_unaffected[{label}]', c)
    if outcome == 'fallthrough':
        recursed = env.lookup('stack') is children_marker
        want = case['excl'] in ('no',)
        ctx.prove(f'{pre}.recursion[{label}]', recursed == want and (not recursed or env.lookup('stacks')[-1] is stack))


def ite_pt(c, a, b):
    return (ite(c, a[0], b[0]), ite(c, a[1], b[1]))


def run_order_lemmas(ctx, case, loc, pre, label):
    """Pruning soundness: quantifier-free facts about an arbitrary other node b related to the popped node a by the
    tree-order invariant (siblings disjoint and ordered; children inside parents).  The `break`/`continue`
    conditions themselves are proved on the real code in run_offset_node; these lemmas connect them to 'every node
    still on the stack and all their descendants need no update'."""
    def pt(n):
        l, c = ctx.int(n + '.l'), ctx.int(n + '.c')
        return (l, c)
    Sa, Ea, Sb, Eb, Sd, Ed, P = pt('Sa'), pt('Ea'), pt('Sb'), pt('Eb'), pt('Sd'), pt('Ed'), pt('P')
    dln, dcol = ctx.int('dln'), ctx.int('dcol')
    wf = and_(lex_le(Sa, Ea), lex_le(Sb, Eb), lex_le(Sd, Ed))
    ctx.assume(wf)
    if case['lemma'] == 'break':
        # b is an earlier sibling of a (still on the stack because the stack pops the LAST child first), d inside b
        ctx.assume(and_(lex_le(Eb, Sa), lex_le(Sb, Sd), lex_le(Ed, Eb), lex_lt(Ea, P)))
        for name, X in (('b.start', Sb), ('b.end', Eb), ('d.start', Sd), ('d.end', Ed)):
            ctx.prove(f'{pre}.break.{name}.strictly_before_spot[{label}]', lex_lt(X, P))
    else:
        # d is a descendant of a; a starts on a line after the spot line and dln == 0: shift is the identity on d
        ctx.assume(and_(lex_le(Sa, Sd), lex_le(Ed, Ea), Sa[0] > P[0], eq(dln, 0)))
        for name, X in (('d.start', Sd), ('d.end', Ed), ('a.end', Ea)):
            ctx.prove(f'{pre}.continue.{name}.shift_is_identity[{label}]', eq(shift(X, P[0], dln, dcol), X))


# ---------------------------------------------------------------------------------------------------------------------
# _params_offset and _put_src (ropes + piecewise lists)

def P_first(P):
    return P[0]


def params_spec(L, P, ln, col, end_ln, end_col):
    """(ln, col_offset, dln, dcol_offset) such that shifting the END of the replaced span gives the end of the new
    text; byte columns measured on the OLD lines."""
    from pyvc.values import str_blen
    n = slen(P)
    dln = (n - 1) - (end_ln - ln)
    old_end_b = str_blen(L[end_ln][:end_col])
    if truth(eq(n, 1)):
        new_end_b = str_blen(L[ln][:col]) + str_blen(P[0])
    else:
        new_end_b = str_blen(P[n - 1])
    return (end_ln, -old_end_b, dln, new_end_b - old_end_b)


def splice_spec(L, P, ln, col, end_ln, end_col):
    """Uniform specification of the text splice: L[:ln] ++ glue(L[ln][:col], P, L[end_ln][end_col:]) ++ L[end_ln+1:]"""
    head, tailtxt = L[ln][:col], L[end_ln][end_col:]
    n = slen(P)
    if truth(eq(n, 1)):
        return L[:ln] + [head + P[0] + tailtxt] + L[end_ln + 1:]
    return L[:ln] + [head + P[0]] + P[1:n - 1] + [P[n - 1] + tailtxt] + L[end_ln + 1:]


def req_span(L, ln, col, end_ln, end_col):
    """valid source span (staged: the line indices must be in range before the lines are read)"""
    if not truth(and_(0 <= ln, ln <= end_ln, end_ln < slen(L))):
        return False
    return and_(0 <= col, col <= slen(L[ln]), 0 <= end_col, end_col <= slen(L[end_ln]),
                or_(ln < end_ln, col <= end_col))


def run_params_offset(ctx, case, loc, pre, label):
    import collections
    from pyvc.interp import Interp, IFunc
    from pyvc import values
    L = values.SList.of_base(values.str_list('L'))
    P = values.SList.of_base(values.str_list('P'))
    ln, col, end_ln, end_col = ctx.int('ln'), ctx.int('col'), ctx.int('end_ln'), ctx.int('end_col')
    ctx.assume(slen(P) >= 1)
    ctx.assume(req_span(L, ln, col, end_ln, end_col))
    PO = collections.namedtuple('_ParamsOffset', 'ln col_offset dln dcol_offset')
    it = Interp({'_ParamsOffset': PO})
    r = it.call(IFunc(it, loc.node, None, '_params_offset'), (L, P, ln, col, end_ln, end_col))
    exp = params_spec(L, P, ln, col, end_ln, end_col)
    ctx.notes['outcome'] = 'return'
    for i, nm in enumerate(('ln', 'col_offset', 'dln', 'dcol_offset')):
        ctx.prove(f'{pre}.post.{nm}[{label}]', eq(r[i], exp[i]))
    # the property-level reading: shifting the old end gives the new end
    from pyvc.values import str_blen
    old_end = (end_ln, str_blen(L[end_ln][:end_col]))
    n = slen(P)
    if truth(eq(n, 1)):
        new_end = (ln, str_blen(L[ln][:col]) + str_blen(P[0]))
    else:
        new_end = (ln + n - 1, str_blen(P[n - 1]))
    ctx.prove(f'{pre}.post.shift_end_is_new_end[{label}]',
              and_(eq(r[0], old_end[0]), eq(-r[1], old_end[1]), eq(old_end[0] + r[2], new_end[0]),
                   eq(old_end[1] + r[3], new_end[1])))


PUT_SRC_CASES = ([dict(src=s, tail=t, goal=g) for s in ('lines', 'None', "''") for t in ('...', True)
                  for g in ('splice', 'frame_before', 'frame_after')]
                 + [dict(src=s, tail=t, goal='params') for s in ('lines', 'None', "''") for t in ('...', True, False, None)])


def run_put_src(ctx, case, loc, pre, label):
    import collections
    from pyvc import frontend, values, sym
    from pyvc.interp import Interp, IFunc, SObj
    goal = case['goal']
    lb = values.str_list('L')
    lines = values.SList.of_base(lb)
    L0 = lines.copy()
    version0 = lines.version
    ln, col, end_ln, end_col = ctx.int('ln'), ctx.int('col'), ctx.int('end_ln'), ctx.int('end_col')
    ctx.assume(req_span(L0, ln, col, end_ln, end_col))
    if case['src'] == 'lines':
        P = values.SList.of_base(values.str_list('P'))
        ctx.assume(slen(P) >= 1)
        src = P
        P0 = P.copy()
    else:
        src = None if case['src'] == 'None' else ''
        P0 = values.SList([values.ElemSeg([''])])
    tail = ... if case['tail'] == '...' else case['tail']
    calls = []

    def offset_stub(*a, **k):
        calls.append((a, k, lines.version))

    root = SObj('root', {}, _lines=lines)
    root._set('_offset', offset_stub)
    root._set('root', root)
    self_ = SObj('self', {}, root=root)
    exclude = SObj('excl', {})
    PO = collections.namedtuple('_ParamsOffset', 'ln col_offset dln dcol_offset')
    it = Interp({'_ParamsOffset': PO, 'bistr': values.bistr, 'map': values.b_map})
    po = frontend.locate('fst_core:_params_offset')
    it.globals['_params_offset'] = IFunc(it, po.node, None, '_params_offset')
    f = IFunc(it, loc.node, None, '_put_src')
    r = it.call(f, (self_, src, ln, col, end_ln, end_col, tail, True, exclude), {'offset_excluded': False})
    ctx.notes['outcome'] = 'return'
    if goal == 'splice':
        ctx.prove(f'{pre}.same_list_object[{label}]', root._lines is lines)
        exp = splice_spec(L0, P0, ln, col, end_ln, end_col)
        ctx.prove(f'{pre}.splice[{label}]', eq(lines, exp))
        ctx.prove(f'{pre}.frame.len[{label}]', eq(slen(lines), slen(L0) + slen(P0) - 1 - (end_ln - ln)))
    elif goal == 'frame_before':
        # frame (C04): lines before the span are untouched and in order
        k = ctx.int(ctx.fresh_name('sk_before'))
        ctx.assume(and_(0 <= k, k < ln))
        ctx.prove(f'{pre}.frame.before[{label}]', eq(lines[k], L0[k]))
    elif goal == 'frame_after':
        k2 = ctx.int(ctx.fresh_name('sk_after'))
        ctx.assume(and_(end_ln < k2, k2 < slen(L0)))
        ctx.prove(f'{pre}.frame.after[{label}]', eq(lines[k2 + slen(P0) - 1 - (end_ln - ln)], L0[k2]))
    elif tail is ...:
        ctx.prove(f'{pre}.no_offset_requested[{label}]', r is None and not calls)
    else:
        expp = params_spec(L0, P0, ln, col, end_ln, end_col)
        ctx.prove(f'{pre}.returns_params[{label}]', eq(tuple(r), expp) if r is not None else False)
        ok = len(calls) == 1
        ctx.prove(f'{pre}.offset_called_once[{label}]', ok)
        if ok:
            a, kw, ver = calls[0]
            ctx.prove(f'{pre}.offset_before_text_changes[{label}]', ver == version0)
            ctx.prove(f'{pre}.offset_args[{label}]',
                      and_(eq(tuple(a[:4]), expp), len(a) == 7 and a[4] is tail and a[5] is True and a[6] is exclude
                           and kw == {'offset_excluded': False}))


# native replay of the per-node obligations: build a real one-node tree and call the real _offset -------------------

def replay_offset_node(payload):
    import ast as _ast
    from fst import FST
    m, info = payload['model'], payload['info']
    case = {}
    for part in info.get('case', '').split(','):
        k, _, v = part.partition('=')
        case[k] = eval(v) if v not in ('int',) else None
    tail, head = case.get('tail'), case.get('head')
    if case.get('excl') != 'no' or case.get('col') != 'byte' or case.get('deco') != 'none' or not m.get('a.has_end_col_offset', True):
        return {'reproduced': False, 'note': 'native replay implemented for plain nodes with byte columns only'}
    ln, col, dln, dcol = m.get('ln', 0), m.get('col', 0), m.get('dln', 0), m.get('dcol_offset', 0)
    S = (m.get('a.lineno', 1), m.get('a.col_offset', 0))
    E = (m.get('a.end_lineno', 1), m.get('a.end_col_offset', 0))
    f = FST('x', 'exec')
    name = f.a.body[0].value
    name.lineno, name.col_offset, name.end_lineno, name.end_col_offset = S[0], S[1], E[0], E[1]
    name.f._offset(ln, col, dln, dcol, tail, head)
    S2, E2 = (name.lineno, name.col_offset), (name.end_lineno, name.end_col_offset)
    P = (ln + 1, -col)
    s_moves, e_moves = spec_node(S, E, P, dln, dcol, tail, head)
    expS = shift(S, P[0], dln, dcol) if s_moves else S
    expE = shift(E, P[0], dln, dcol) if e_moves else E
    return {'call': f'Name@{S}-{E}._offset({ln}, {col}, {dln}, {dcol}, tail={tail}, head={head})',
            'observed': [S2, E2], 'expected': [expS, expE], 'reproduced': (S2, E2) != (expS, expE)}


def specs_text(prop):
    from pyvc.contract import Fragment
    return [
        Fragment('fst_core:_params_offset', prop, 'params_offset', [dict()], run_params_offset, min_obligations=5,
                 notes='ropes with additive len/UTF-8-byte measures; put lines of any number >= 1'),
        Fragment('fst_core:_put_src', prop, 'put_src', PUT_SRC_CASES, run_put_src, min_obligations=1,
                 notes='piecewise lists compared with the uniform splice specification at a skolem index; '
                       '_params_offset inlined from the real source, root._offset is a recording stub'),
    ]


def specs_flush(prop='C02'):
    """the cache-flush obligations of the _offset walk only (flush.cache_cleared for every visited node, noop path flushes
    the subtree): the same fragment as C11's, on the sub-table of cases with tail = head = None - the flush does not
    depend on the tail / head settings"""
    from pyvc.contract import Fragment
    cases = [c for c in offset_cases() if c['tail'] is None and c['head'] is None]
    return [Fragment('fst_core:_offset', prop, 'offset', cases, run_offset_node, min_obligations=3,
                     native=('k_offset', 'replay_offset_node'),
                     notes='per-node body of the offset walk: every node the walk visits is flushed (memo cleared) before the '
                           'walk decides to stop / skip / descend; the zero-delta path flushes the subtree')]


def specs(prop='C11'):
    from pyvc.contract import Fragment
    return [
        Fragment('fst_core:_offset', prop, 'offset', offset_cases(), run_offset_node, min_obligations=3,
                 native=('k_offset', 'replay_offset_node'),
                 native_pref=lambda info: 0 if ("excl='no',col='byte',deco='none'" in info.get('case', '')) else 1,
                 notes='flag prefix + one iteration of the inner worklist loop, selected structurally; spec = '
                       'declarative shift rule with at-the-spot priority rule'),
        Fragment('fst_core:_offset', prop, 'offset.order', [dict(lemma='break'), dict(lemma='continue')],
                 run_order_lemmas, min_obligations=3,
                 notes='pruning lemmas under the tree-order precondition the code documents'),
    ]


# ---------------------------------------------------------------------------------------------------------------------
# _offset_lns: per-node body (column shift of whole lines, used by indent / dedent)

def specs_offset_lns(prop):
    import z3
    from pyvc.contract import Fragment
    from pyvc.interp import Interp, IFunc, SObj, IntAttr, OptIntAttr, ABSENT
    from pyvc import sym
    from pyvc.sym import _wrap_bool, _wrap_int

    IN = z3.Function('line_in_lns', z3.IntSort(), z3.BoolSort())
    DV = z3.Function('line_delta', z3.IntSort(), z3.IntSort())

    class LineSet:
        def _sym_contains(self, k):
            return _wrap_bool(IN(sym._z(k)))

        def get(self, k, default=None):
            if truth(_wrap_bool(IN(sym._z(k)))):
                return _wrap_int(DV(sym._z(k)))
            return default

    def run(ctx, case, loc, pre, label):
        touched = []
        f = SObj('f', {})
        f._set('_touch', lambda: touched.append('node'), count=False)
        a = SObj('a', dict(lineno=IntAttr(), col_offset=IntAttr(), end_lineno=IntAttr(), end_col_offset=OptIntAttr(), f=f))
        has = a._get('end_col_offset') is not ABSENT
        l0, c0, el0 = a._get('lineno'), a._get('col_offset'), a._get('end_lineno')
        ec0 = a._get('end_col_offset') if has else None
        self_ = SObj('self', {}, a=SObj('root_a', {}))
        self_._set('_touchall', lambda *x: touched.append(('touchall',) + x), count=False)
        lns = LineSet()
        if case['mode'] == 'single':
            d = ctx.int('dcol_offset')
        else:
            d = None
        it = Interp({'walk': lambda x: [a]})
        it.call(IFunc(it, loc.node, None, '_offset_lns'), (self_, lns, d))
        ctx.notes['outcome'] = 'return'

        def delta(line1):
            k = line1 - 1
            inl = _wrap_bool(IN(sym._z(k)))
            if d is not None:
                return ite(inl, d, 0)
            return ite(inl, _wrap_int(DV(sym._z(k))), 0)
        if d is not None and truth(eq(d, 0)):
            ctx.prove(f'{pre}.zero_delta_is_noop[{label}]', not a._written and not touched)
            return
        if has:
            ctx.prove(f'{pre}.node.start[{label}]', eq(a._get('col_offset'), c0 + delta(l0)))
            ctx.prove(f'{pre}.node.end[{label}]', eq(a._get('end_col_offset'), ec0 + delta(el0)))
            ctx.prove(f'{pre}.node.lines_untouched[{label}]', and_(eq(a._get('lineno'), l0), eq(a._get('end_lineno'), el0)))
        else:
            ctx.prove(f'{pre}.noloc.untouched[{label}]', not a._written)
        ctx.prove(f'{pre}.flush.node[{label}]', 'node' in touched, info='every walked node is touched (cache flush)')
        ctx.prove(f'{pre}.flush.parents[{label}]', ('touchall', True, False, False) in touched)

    return [Fragment('fst_core:_offset_lns', prop, 'offset_lns', [dict(mode='single'), dict(mode='per_line')], run,
                     min_obligations=2, notes='per-node body (walk replaced by a one-node iteration); line set / per-line '
                                              'delta map are uninterpreted')]


# ---------------------------------------------------------------------------------------------------------------------
# put_src(action='offset'): entry guard, the two offset phases, and the composition lemma (C11)

def specs_entry(prop='C11'):
    import collections
    from pyvc import frontend, values, sym
    from pyvc.contract import Fragment, INT
    from pyvc.interp import Interp, IFunc, SObj, PyRaise

    FSTLOC = collections.namedtuple('fstloc', 'ln col end_ln end_col')

    def run_entry(ctx, case, loc, pre, label):
        lb = values.str_list('L')
        lines = values.SList.of_base(lb)
        root = SObj('root', {}, _lines=lines)
        root._set('root', root, count=False)
        calls = []
        sl = FSTLOC(ctx.int('s_ln'), ctx.int('s_col'), ctx.int('s_end_ln'), ctx.int('s_end_col'))
        ctx.assume(and_(0 <= sl.ln, sl.ln <= sl.end_ln, sl.end_ln < slen(lines), 0 <= sl.col, 0 <= sl.end_col))
        PARAMS = ('P_ln', 'P_col', 'P_dln', 'P_dcol')
        self = SObj('self', {}, root=root, loc=sl, a=SObj('a', {'__class__': 'Name'}))
        self._set('_put_src', lambda *a, **k: calls.append(('put_src', a, k)) or PARAMS, count=False)
        self._set('_offset', lambda *a, **k: calls.append(('offset', a, k)), count=False)
        self._set('_touchall', lambda *a, **k: calls.append(('touchall', a, k)), count=False)

        class CM:
            def __init__(s2, *a):
                calls.append(('modifying', a, {}))
        cm = SObj('cm', {})
        cm._set('__enter__', lambda: cm, count=False)
        cm._set('__exit__', lambda *a: False, count=False)
        self._set('_modifying', lambda *a, **k: (calls.append(('modifying', a, k)), cm)[1], count=False)
        it = Interp({'ASTS_LEAF_FTSTR_FMT': frozenset(), 'ASTS_LEAF_STMTLIKE': frozenset(),
                     '_code_as_lines': lambda code: ['PUT']})
        it.globals['clip_src_loc'] = IFunc(it, frontend.locate('fst_misc:clip_src_loc').node, None, 'clip_src_loc')
        ln, col, end_ln, end_col = ctx.int('ln'), ctx.int('col'), ctx.int('end_ln'), ctx.int('end_col')
        # requires: already valid coordinates (clip_src_loc's own contract is proved separately)
        ctx.assume(and_(0 <= ln, ln <= end_ln, end_ln < slen(lines), 0 <= col, 0 <= end_col))
        if not truth(and_(col <= slen(lines[ln]), end_col <= slen(lines[end_ln]), or_(ln < end_ln, col <= end_col))):
            raise sym.PathAbort()
        inside = and_(lex_le((sl.ln, sl.col), (ln, col)), lex_le((end_ln, end_col), (sl.end_ln, sl.end_col)))
        f = IFunc(it, loc.node, None, 'put_src')
        try:
            r = it.call(f, (self, 'CODE', ln, col, end_ln, end_col, 'offset'))
        except PyRaise as pr:
            ctx.notes['outcome'] = f'raise {pr.cls.__name__}'
            ctx.prove(f'{pre}.guard.rejects_only_outside[{label}]', and_(pr.cls is ValueError, not_(inside)))
            ctx.prove(f'{pre}.guard.nothing_done[{label}]', not [c for c in calls if c[0] in ('put_src', 'offset')])
            return
        ctx.notes['outcome'] = 'return'
        ctx.prove(f'{pre}.guard.accepts_only_inside[{label}]', inside)
        kinds = [c[0] for c in calls]
        ctx.prove(f'{pre}.phases.order[{label}]', kinds == ['modifying', 'put_src', 'offset'])
        if kinds == ['modifying', 'put_src', 'offset']:
            a1, k1 = calls[1][1], calls[1][2]
            ctx.prove(f'{pre}.phase1.args[{label}]',
                      and_(eq(tuple(a1[1:5]), (ln, col, end_ln, end_col)),
                           len(a1) == 8 and a1[0] == ['PUT'] and a1[5] is True and a1[6] is False and a1[7] is self and not k1),
                      info='root-wide offset: tail=True, head=False, exclude=self (offset_excluded default True)')
            a2, k2 = calls[2][1], calls[2][2]
            ctx.prove(f'{pre}.phase2.args[{label}]',
                      tuple(a2) == PARAMS + (False, True) and k2 == {'self_': False},
                      info='inside self: tail=False, head=True, self_=False, with the parameters returned by phase 1')
        ctx.prove(f'{pre}.returns_end_of_put[{label}]', eq(tuple(r), (ln, col + 3)), info="single put line 'PUT'")

    def run_compose(ctx, case, loc, pre, label):
        """Lemma over the per-node contract of _offset (spec_node): composing phase 1 (tail=True, head=False, on every
        node that is not a proper descendant of self) and phase 2 (tail=False, head=True, on proper descendants) gives
        the property's last sentence, for a replaced span [Sp, P] that is trivia of self."""
        def pt(n):
            return (ctx.int(n + '.l'), ctx.int(n + '.c'))
        S, E, Sp, P = pt('S'), pt('E'), pt('Sp'), pt('P')
        dln, dcol = ctx.int('dln'), ctx.int('dcol')
        ctx.assume(and_(lex_le(S, E), lex_le(Sp, P), not_(eq(S, E))))
        kind = case['kind']
        if kind == 'before_outside':      # sibling / other subtree before self: ends before self starts, i.e. before Sp
            ctx.assume(lex_lt(E, Sp))
            s_m, e_m = spec_node(S, E, P, dln, dcol, True, False)
            ctx.prove(f'{pre}.before.unchanged[{label}]', and_(not_(s_m), not_(e_m)))
        elif kind == 'after_outside':
            ctx.assume(lex_lt(P, S))
            s_m, e_m = spec_node(S, E, P, dln, dcol, True, False)
            ctx.prove(f'{pre}.after.shifted[{label}]', and_(s_m, e_m))
        elif kind == 'containing':        # self and its ancestors: strictly contain the span
            ctx.assume(and_(lex_lt(S, Sp), lex_lt(P, E)))
            s_m, e_m = spec_node(S, E, P, dln, dcol, True, False)
            ctx.prove(f'{pre}.containing.grows_or_shrinks[{label}]', and_(not_(s_m), e_m))
        elif kind == 'desc_before':       # proper descendant before the span (may END exactly at Sp == P for insertion)
            ctx.assume(lex_le(E, Sp))
            s_m, e_m = spec_node(S, E, P, dln, dcol, False, True)
            ctx.prove(f'{pre}.descendant_before.unchanged[{label}]', and_(not_(s_m), not_(e_m)))
        else:                             # proper descendant after the span (may START exactly at P)
            ctx.assume(lex_le(P, S))
            s_m, e_m = spec_node(S, E, P, dln, dcol, False, True)
            ctx.prove(f'{pre}.descendant_after.shifted[{label}]', and_(s_m, e_m))

    return [
        Fragment('fst:FST.put_src', prop, 'entry', [dict()], run_entry, min_obligations=2,
                 notes="action='offset' branch: guard, phase 1 (_put_src with offset) and phase 2 (_offset inside self)"),
        Fragment('fst_core:_offset', prop, 'entry.compose',
                 [dict(kind=k) for k in ('before_outside', 'after_outside', 'containing', 'desc_before', 'desc_after')],
                 run_compose, notes='lemma over the per-node contract of _offset; zero-width nodes on the spot excluded'),
    ]


# ---------------------------------------------------------------------------------------------------------------------
# code text -> lines: the list-of-lines model every source splice works on must reproduce the text exactly

def finite_code_as_lines(payload):
    """native, exhaustive over single separators: for EVERY Unicode code point ch in three contexts, the real
    code._code_as_lines(s) is the unique list with '\\n'.join(lines) == s and no '\\n' inside a line"""
    from fst.code import _code_as_lines as f
    bad = {'join_inverse': [], 'no_newline_in_line': []}
    n = 0
    for cp in range(0x110000):
        if 0xD800 <= cp <= 0xDFFF:
            continue
        ch = chr(cp)
        for s in ('a' + ch + 'b', ch, 'a' + ch):
            n += 1
            try:
                r = f(s)
                ok1 = '\n'.join(r) == s
                ok2 = all('\n' not in x for x in r)
            except Exception as e:   # pragma: no cover
                r, ok1, ok2 = repr(e), False, False
            if not ok1 and len(bad['join_inverse']) < 5:
                bad['join_inverse'].append({'code': s, 'lines': r})
            if not ok2 and len(bad['no_newline_in_line']) < 5:
                bad['no_newline_in_line'].append({'code': s, 'lines': r})
    lst = ['x', 'y']
    other = {'list_is_returned_unchanged': f(lst) is lst, 'none_is_one_empty_line': f(None) == [''],
             'multi': f('a\n\nb\n') == ['a', '', 'b', '']}
    return {'evaluations': n, 'bad': bad, 'other': other}


def code_as_lines_finite(rep, prop):
    from pyvc import native, frontend

    class _S:
        name = 'finite-domain evaluation (every code point as separator)'
        notes = 'str / list / None branches; the AST and FST branches delegate to unparse() / the tree\'s own lines'
    rep.function(frontend.locate('code:_code_as_lines'), _S)
    r = native.run('k_offset', 'finite_code_as_lines', {})
    for name, items in r['bad'].items():
        key = f'{prop}.code_as_lines.{name}'
        rep.other('finite', key, not items,
                  detail=(f'_code_as_lines({items[0]["code"]!r}) = {items[0]["lines"]!r}' if items else
                          f'{r["evaluations"]} strings'), key=key,
                  replay={'failing': items, 'replayed': bool(items), 'native_entry': ('k_offset', 'replay_code_as_lines')})
    for name, ok in r['other'].items():
        rep.other('finite', f'{prop}.code_as_lines.{name}', ok, key=f'{prop}.code_as_lines.{name}')
    if r['evaluations'] < 3000000:
        rep.checker_error('code_as_lines domain shrank')


def replay_code_as_lines(payload):
    from fst.code import _code_as_lines as f
    items = (payload.get('replay') or payload).get('failing') or []
    out = [{'code': i['code'], 'lines': f(i['code'])} for i in items]
    return {'reproduced': any('\n'.join(o['lines']) != o['code'] or any('\n' in x for x in o['lines']) for o in out),
            'now': out}
