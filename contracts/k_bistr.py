"""C06/P - astutil:bistr character <-> byte index maps, with loop invariants.

The string is abstract: per-character UTF-8 widths are given by the prefix-byte function P(k) = bytes of the first k
characters (pyvc.values.StrBase.bp with its axioms: P(0)=0, k2-k1 <= P(k2)-P(k1) <= 4*(k2-k1)).  Contracts:

  c2b(idx) == P(idx)                  for 0 <= idx <= len            (loop invariant  j == P(i), c2b[m] == P(m) for m < i)
  b2c(P(s)) == s                      for 0 <= s <= len              (two loops, invariants below)
  ASCII fast path is the identity     (from the axioms: P(len) == len forces P(k) == k)
  every value stored in a fixed-width array fits its typecode  (array_range obligations raised by the array model)
  the memo protocol: after a call `self.c2b` / `self.b2c` are rebound to the identity or to the lookup functions
"""
from pyvc.logic import and_, or_, not_, implies, eq, truth, slen


def specs(prop='C06'):
    import z3
    from pyvc import frontend, values, sym
    from pyvc.contract import Fragment
    from pyvc.interp import Interp, IFunc, SObj, PyRaise
    from pyvc.loops import LoopSpec
    from pyvc.sym import cur

    class Char:
        def __init__(self, sb, k):
            self.sb, self.k = sb, k

        def encode(self):
            class _B:
                def _sym_len(s2):
                    return self.sb.bp(0, self.k + 1) - self.sb.bp(0, self.k)
            return _B()

    class SBistr(SObj):
        def __init__(self, sb):
            SObj.__init__(self, 'self', {})
            object.__setattr__(self, '_sb', sb)

        def _sym_len(self):
            return self._sb.length(0)

        def _sym_getitem(self, k):
            return Char(self._sb, k)

        def __getitem__(self, k):
            return self._sym_getitem(k)

    def P(sb, k):
        return sb.bp(0, k)

    MAXSIZE = 2 ** 63 - 1   # sys.maxsize: no Python string is longer (assumption, stated in evidence)

    I2I = SObj('_i2i_same', {})
    C2B_LOOKUP, B2C_LOOKUP = SObj('_c2b_lookup', {}), SObj('_b2c_lookup', {})

    def setup(ctx):
        sb = values.StrBase('S')
        self = SBistr(sb)
        it = Interp({})
        mk = frontend.locate('astutil:bistr._make_array')
        make_array = IFunc(it, mk.node, None, '_make_array')
        self._set('_make_array', lambda n, hi: it.call(make_array, (n, hi)), count=False)
        self._set('encode', lambda: values.SBytes(sb.whole(0)), count=False)
        self._set('_c2b_lookup', C2B_LOOKUP, count=False)
        self._set('_b2c_lookup', B2C_LOOKUP, count=False)
        it.globals['bistr'] = SObj('bistr', {}, _i2i_same=I2I)
        return sb, self, it

    # ---------------------------------------------------------------------------------------------------------------
    def run_c2b(ctx, case, loc, pre, label):
        sb, self, it = setup(ctx)
        lc = sb.length(0)
        idx = ctx.int('idx')
        s = ctx.int('s')
        ctx.assume(and_(0 <= idx, idx <= lc, 0 <= s, s <= lc, P(sb, lc) <= MAXSIZE))

        def inv(k, env):
            A = env['c2b']
            return and_(eq(env['j'], P(sb, k)),
                        implies(s < k, eq(A[s], P(sb, s))), implies(idx < k, eq(A[idx], P(sb, idx))),
                        eq(slen(A), lc + 1))
        it.loop_specs[('c2b', 0)] = LoopSpec('C06.c2b.loop', inv, havoc_objs=lambda env: [env['c2b']])
        f = IFunc(it, loc.node, None, 'c2b')
        r = it.call(f, (self, idx))
        ctx.notes['outcome'] = 'return'
        ctx.prove(f'{pre}.post[{label}]', eq(r, P(sb, idx)), info='c2b(idx) == UTF-8 byte length of self[:idx]')
        ascii_ = truth(eq(lc, P(sb, lc)))
        if ascii_:
            ctx.prove(f'{pre}.ascii_fast_path.identity[{label}]', eq(r, idx))
            ctx.prove(f'{pre}.memo.ascii_rebinds_identity[{label}]',
                      self._get('c2b') is I2I and self._get('b2c') is I2I)
        else:
            A = self._get('_c2b')
            ctx.prove(f'{pre}.memo.rebinds_lookup[{label}]', self._get('c2b') is C2B_LOOKUP)
            ctx.prove(f'{pre}.table.content[{label}]', eq(A[s], P(sb, s)), info='_c2b[s] == P(s) for every 0 <= s <= len')
            ctx.prove(f'{pre}.table.length[{label}]', eq(slen(A), lc + 1))

    # ---------------------------------------------------------------------------------------------------------------
    def run_b2c(ctx, case, loc, pre, label):
        sb, self, it = setup(ctx)
        lc = sb.length(0)
        s = ctx.int('s')
        ctx.assume(and_(0 <= s, s <= lc, P(sb, lc) <= MAXSIZE))
        idx = P(sb, s)   # a byte offset on a character boundary

        def c2b_stub(x):
            """contract of c2b (proved above): returns P(x); on the non-ASCII path leaves the table _c2b[m] == P(m)"""
            if not truth(eq(lc, P(sb, lc))):
                self._set('_c2b', values.SArray('_c2b', lc + 1, fn=lambda m: P(sb, m)), count=False)
            return P(sb, x)
        self._set('c2b', c2b_stub, count=False)

        def inv0(k, env):
            B = env['b2c']
            return and_(implies(s < k, eq(B[P(sb, s)], s)), implies(0 < k, eq(B[0], 0)), eq(slen(B), P(sb, lc) + 1))

        def inv1(k, env):
            B = env['b2c']
            return and_(implies(s >= 1, eq(B[P(sb, s)], s)), eq(B[0], 0) if truth(k >= 1) else
                        and_(eq(env['k'], 0), eq(B[0], 0)),
                        0 <= env['k'], env['k'] <= B.maxval, eq(slen(B), P(sb, lc) + 1))
        it.loop_specs[('b2c', 0)] = LoopSpec('C06.b2c.loop0', inv0, havoc_objs=lambda env: [env['b2c']])
        it.loop_specs[('b2c', 1)] = LoopSpec('C06.b2c.loop1', inv1, havoc_objs=lambda env: [env['b2c']])
        f = IFunc(it, loc.node, None, 'b2c')
        r = it.call(f, (self, idx))
        ctx.notes['outcome'] = 'return'
        ctx.prove(f'{pre}.inverse_on_boundaries[{label}]', eq(r, s), info='b2c(c2b(s)) == s for 0 <= s <= len')
        if not truth(eq(lc, P(sb, lc))):
            ctx.prove(f'{pre}.memo.rebinds_lookup[{label}]', self._get('b2c') is B2C_LOOKUP)

    # ---------------------------------------------------------------------------------------------------------------
    def run_make_array(ctx, case, loc, pre, label):
        it = Interp({})
        n, hi = ctx.int('len_array'), ctx.int('highest_value')
        ctx.assume(and_(n >= 0, hi >= 0, hi <= MAXSIZE))
        f = IFunc(it, loc.node, None, '_make_array')
        a = it.call(f, (n, hi))
        ctx.notes['outcome'] = 'return'
        ctx.prove(f'{pre}.length[{label}]', eq(slen(a), n + 1))
        ctx.prove(f'{pre}.typecode_holds_highest_value[{label}]', hi <= a.maxval)

    return [
        Fragment('astutil:bistr.c2b', prop, 'bistr.c2b', [dict()], run_c2b, min_obligations=3, native=('k_bistr', 'replay_bistr'),
                 notes='loop invariant j == P(i) and table prefix; abstract string with prefix-byte function P'),
        Fragment('astutil:bistr.b2c', prop, 'bistr.b2c', [dict()], run_b2c, min_obligations=2, native=('k_bistr', 'replay_bistr'),
                 notes='c2b replaced by its contract; two loops with invariants; proved on character boundaries'),
        Fragment('astutil:bistr._make_array', prop, 'bistr.make_array', [dict()], run_make_array, min_obligations=2,
                 native=('k_bistr', 'replay_bistr')),
    ]


def replay_bistr(payload):
    """native: look for a concrete failing string (the counter-model is over an abstract string): all strings of
    length <= 4 over 1..4-byte characters, plus strings around the typecode boundaries of the index arrays"""
    import itertools
    from fst.astutil import bistr
    alphabet = ['a', 'é', '€', '😀']
    cands = [''.join(t) for n in range(0, 5) for t in itertools.product(alphabet, repeat=n)]
    for nbytes in (254, 255, 256, 257, 65534, 65535, 65536, 65537):
        cands.append('é' + 'a' * (nbytes - 2))
        cands.append('a' * (nbytes - 2) + 'é')
    for s in cands:
        try:
            b = bistr(s)
            for i in range(len(s) + 1):
                exp = len(s[:i].encode())
                got = b.c2b(i)
                if got != exp:
                    return {'string': s[:40], 'len': len(s), 'call': f'c2b({i})', 'observed': got, 'expected': exp,
                            'reproduced': True}
            b = bistr(s)
            for i in range(len(s) + 1):
                t = len(s[:i].encode())
                got = b.b2c(t)
                if got != i:
                    return {'string': s[:40], 'len': len(s), 'call': f'b2c({t})', 'observed': got, 'expected': i,
                            'reproduced': True}
        except Exception as e:
            return {'string': s[:40], 'len': len(s), 'nbytes': len(s.encode()), 'observed': repr(e), 'reproduced': True}
    return {'reproduced': False, 'candidates': len(cands)}


def publication_structural(rep, prop='C20'):
    """C20.shared_lines.publish_after_fill (structural, all paths of bistr.c2b / bistr.b2c): bistr line objects are shared
    by reference between a tree and its copies, so their lazily built index arrays are cross-tree (and cross-thread)
    state.  Obligation: an index array becomes reachable from the instance (self._c2b / self._b2c) and the fast-path
    lookup is installed (self.c2b / self.b2c = self._x_lookup) only AFTER the last store into that array - then every
    array another thread can observe is complete, whatever the interleaving, because a complete array is never
    written again and all complete arrays of one (immutable) string are equal."""
    import ast
    from pyvc import frontend

    class _S:
        name = 'publication order (structural)'
        notes = 'top-level statement order of the function body; the array local is the one assigned from _make_array'
    for meth in ('c2b', 'b2c'):
        ident = f'astutil:bistr.{meth}'
        loc = frontend.locate(ident)
        rep.function(loc, _S)
        body = loc.node.body
        arr = None
        for st in body:
            if isinstance(st, ast.Assign) and isinstance(st.value, ast.Call) and '_make_array' in ast.unparse(st.value.func):
                names = [t.id for t in st.targets if isinstance(t, ast.Name)]
                arr = names[0] if names else None
        if arr is None:
            rep.checker_error(f'{ident}: cannot identify the local index array (anchor changed)')
            continue
        fills, pubs = [], []
        for i, st in enumerate(body):
            for n in ast.walk(st):
                if (isinstance(n, ast.Subscript) and isinstance(n.ctx, ast.Store) and isinstance(n.value, ast.Name)
                        and n.value.id == arr):
                    fills.append(i)
                if isinstance(n, ast.Assign):
                    self_t = [t for t in n.targets if isinstance(t, ast.Attribute) and isinstance(t.value, ast.Name)
                              and t.value.id == 'self']
                    v = n.value
                    is_arr = (isinstance(v, ast.Name) and v.id == arr) or \
                             (isinstance(v, ast.Call) and '_make_array' in ast.unparse(v.func))
                    is_lookup = isinstance(v, ast.Attribute) and v.attr.endswith('_lookup')
                    if self_t and (is_arr or is_lookup):
                        nested = n is not st
                        pubs.append((i, ast.unparse(n)[:60], nested))
        if not fills or not pubs:
            rep.checker_error(f'{ident}: no fill / publication statement recognised (anchor changed)')
            continue
        ok = all(i > max(fills) and not nested for i, _, nested in pubs)
        name = f'{prop}.shared_lines.publish_after_fill.{meth}'
        rep.other('structural', name, ok,
                  detail=f'array local {arr!r}: last store at body statement {max(fills)}, publications '
                         f'{[(i, s) for i, s, _ in pubs]}',
                  key=name, replay={'function': ident, 'array': arr, 'last_fill_stmt': max(fills),
                                    'publications': [(i, s) for i, s, _ in pubs],
                                    'verifier_output': 'a publication precedes (or is nested in) the fill: another thread '
                                                       'sharing this line object can observe a partially filled index'})
