"""C06/P - astutil:bistr character <-> byte index maps, with loop invariants.

The string is abstract: per-character UTF-8 widths are given by the prefix-byte function P(k) = bytes of the first k
characters (pyvc.values.StrBase.bp with its axioms: P(0)=0, k2-k1 <= P(k2)-P(k1) <= 4*(k2-k1)).  Contracts:

  c2b(idx) == P(idx)                  for 0 <= idx <= len            (loop invariant  j == P(i), c2b[m] == P(m) for m < i)
  b2c(P(s)) == s                      for 0 <= s <= len              (two loops, invariants below)
  ASCII fast path is the identity     (from the axioms: P(len) == len forces P(k) == k)
  every value stored in a fixed-width array fits its typecode  (array_range obligations raised by the array model)
  the memo protocol: after a call `self.c2b` / `self.b2c` are rebound to the identity or to the lookup functions
"""
from pyvc.logic import and_, or_, not_, implies, eq, truth, slen


def specs(prop='C06'):
    import z3
    from pyvc import frontend, values, sym
    from pyvc.contract import Fragment
    from pyvc.interp import Interp, IFunc, SObj, PyRaise
    from pyvc.loops import LoopSpec
    from pyvc.sym import cur

    class Char:
        def __init__(self, sb, k):
            self.sb, self.k = sb, k

        def encode(self):
            class _B:
                def _sym_len(s2):
                    return self.sb.bp(0, self.k + 1) - self.sb.bp(0, self.k)
            return _B()

    class SBistr(SObj):
        def __init__(self, sb):
            SObj.__init__(self, 'self', {})
            object.__setattr__(self, '_sb', sb)

        def _sym_len(self):
            return self._sb.length(0)

        def _sym_getitem(self, k):
            return Char(self._sb, k)

        def __getitem__(self, k):
            return self._sym_getitem(k)

    def P(sb, k):
        return sb.bp(0, k)

    MAXSIZE = 2 ** 63 - 1   # sys.maxsize: no Python string is longer (assumption, stated in evidence)

    I2I = SObj('_i2i_same', {})
    C2B_LOOKUP, B2C_LOOKUP = SObj('_c2b_lookup', {}), SObj('_b2c_lookup', {})

    def setup(ctx):
        sb = values.StrBase('S')
        self = SBistr(sb)
        it = Interp({})
        mk = frontend.locate('astutil:bistr._make_array')
        make_array = IFunc(it, mk.node, None, '_make_array')
        self._set('_make_array', lambda n, hi: it.call(make_array, (n, hi)), count=False)
        self._set('encode', lambda: values.SBytes(sb.whole(0)), count=False)
        self._set('_c2b_lookup', C2B_LOOKUP, count=False)
        self._set('_b2c_lookup', B2C_LOOKUP, count=False)
        it.globals['bistr'] = SObj('bistr', {}, _i2i_same=I2I)
        return sb, self, it

    # ---------------------------------------------------------------------------------------------------------------
    def run_c2b(ctx, case, loc, pre, label):
        sb, self, it = setup(ctx)
        lc = sb.length(0)
        idx = ctx.int('idx')
        s = ctx.int('s')
        ctx.assume(and_(0 <= idx, idx <= lc, 0 <= s, s <= lc, P(sb, lc) <= MAXSIZE))

        def inv(k, env):
            A = env['c2b']
            return and_(eq(env['j'], P(sb, k)),
                        implies(s < k, eq(A[s], P(sb, s))), implies(idx < k, eq(A[idx], P(sb, idx))),
                        eq(slen(A), lc + 1))
        it.loop_specs[('c2b', 0)] = LoopSpec('C06.c2b.loop', inv, havoc_objs=lambda env: [env['c2b']])
        f = IFunc(it, loc.node, None, 'c2b')
        r = it.call(f, (self, idx))
        ctx.notes['outcome'] = 'return'
        ctx.prove(f'{pre}.post[{label}]', eq(r, P(sb, idx)), info='c2b(idx) == UTF-8 byte length of self[:idx]')
        ascii_ = truth(eq(lc, P(sb, lc)))
        if ascii_:
            ctx.prove(f'{pre}.ascii_fast_path.identity[{label}]', eq(r, idx))
            ctx.prove(f'{pre}.memo.ascii_rebinds_identity[{label}]',
                      self._get('c2b') is I2I and self._get('b2c') is I2I)
        else:
            A = self._get('_c2b')
            ctx.prove(f'{pre}.memo.rebinds_lookup[{label}]', self._get('c2b') is C2B_LOOKUP)
            ctx.prove(f'{pre}.table.content[{label}]', eq(A[s], P(sb, s)), info='_c2b[s] == P(s) for every 0 <= s <= len')
            ctx.prove(f'{pre}.table.length[{label}]', eq(slen(A), lc + 1))

    # ---------------------------------------------------------------------------------------------------------------
    def run_b2c(ctx, case, loc, pre, label):
        sb, self, it = setup(ctx)
        lc = sb.length(0)
        s = ctx.int('s')
        ctx.assume(and_(0 <= s, s <= lc, P(sb, lc) <= MAXSIZE))
        idx = P(sb, s)   # a byte offset on a character boundary

        def c2b_stub(x):
            """contract of c2b (proved above): returns P(x); on the non-ASCII path leaves the table _c2b[m] == P(m)"""
            if not truth(eq(lc, P(sb, lc))):
                self._set('_c2b', values.SArray('_c2b', lc + 1, fn=lambda m: P(sb, m)), count=False)
            return P(sb, x)
        self._set('c2b', c2b_stub, count=False)

        def inv0(k, env):
            B = env['b2c']
            return and_(implies(s < k, eq(B[P(sb, s)], s)), implies(0 < k, eq(B[0], 0)), eq(slen(B), P(sb, lc) + 1))

        def inv1(k, env):
            B = env['b2c']
            return and_(implies(s >= 1, eq(B[P(sb, s)], s)), eq(B[0], 0) if truth(k >= 1) else
                        and_(eq(env['k'], 0), eq(B[0], 0)),
                        0 <= env['k'], env['k'] <= B.maxval, eq(slen(B), P(sb, lc) + 1))
        it.loop_specs[('b2c', 0)] = LoopSpec('C06.b2c.loop0', inv0, havoc_objs=lambda env: [env['b2c']])
        it.loop_specs[('b2c', 1)] = LoopSpec('C06.b2c.loop1', inv1, havoc_objs=lambda env: [env['b2c']])
        f = IFunc(it, loc.node, None, 'b2c')
        r = it.call(f, (self, idx))
        ctx.notes['outcome'] = 'return'
        ctx.prove(f'{pre}.inverse_on_boundaries[{label}]', eq(r, s), info='b2c(c2b(s)) == s for 0 <= s <= len')
        if not truth(eq(lc, P(sb, lc))):
            ctx.prove(f'{pre}.memo.rebinds_lookup[{label}]', self._get('b2c') is B2C_LOOKUP)

    # ---------------------------------------------------------------------------------------------------------------
    def run_make_array(ctx, case, loc, pre, label):
        it = Interp({})
        n, hi = ctx.int('len_array'), ctx.int('highest_value')
        ctx.assume(and_(n >= 0, hi >= 0, hi <= MAXSIZE))
        f = IFunc(it, loc.node, None, '_make_array')
        a = it.call(f, (n, hi))
        ctx.notes['outcome'] = 'return'
        ctx.prove(f'{pre}.length[{label}]', eq(slen(a), n + 1))
        ctx.prove(f'{pre}.typecode_holds_highest_value[{label}]', hi <= a.maxval)

    return [
        Fragment('astutil:bistr.c2b', prop, 'bistr.c2b', [dict()], run_c2b, min_obligations=3, native=('k_bistr', 'replay_bistr'),
                 notes='loop invariant j == P(i) and table prefix; abstract string with prefix-byte function P'),
        Fragment('astutil:bistr.b2c', prop, 'bistr.b2c', [dict()], run_b2c, min_obligations=2, native=('k_bistr', 'replay_bistr'),
                 notes='c2b replaced by its contract; two loops with invariants; proved on character boundaries'),
        Fragment('astutil:bistr._make_array', prop, 'bistr.make_array', [dict()], run_make_array, min_obligations=2,
                 native=('k_bistr', 'replay_bistr')),
    ]


def replay_bistr(payload):
    """native: look for a concrete failing string (the counter-model is over an abstract string): all strings of
    length <= 4 over 1..4-byte characters, plus strings around the typecode boundaries of the index arrays"""
    import itertools
    from fst.astutil import bistr
    alphabet = ['a', 'é', '€', '😀']
    cands = [''.join(t) for n in range(0, 5) for t in itertools.product(alphabet, repeat=n)]
    for nbytes in (254, 255, 256, 257, 65534, 65535, 65536, 65537):
        cands.append('é' + 'a' * (nbytes - 2))
        cands.append('a' * (nbytes - 2) + 'é')
    for s in cands:
        try:
            b = bistr(s)
            for i in range(len(s) + 1):
                exp = len(s[:i].encode())
                got = b.c2b(i)
                if got != exp:
                    return {'string': s[:40], 'len': len(s), 'call': f'c2b({i})', 'observed': got, 'expected': exp,
                            'reproduced': True}
            b = bistr(s)
            for i in range(len(s) + 1):
                t = len(s[:i].encode())
                got = b.b2c(t)
                if got != i:
                    return {'string': s[:40], 'len': len(s), 'call': f'b2c({t})', 'observed': got, 'expected': i,
                            'reproduced': True}
        except Exception as e:
            return {'string': s[:40], 'len': len(s), 'nbytes': len(s.encode()), 'observed': repr(e), 'reproduced': True}
    return {'reproduced': False, 'candidates': len(cands)}


def publication_structural(rep, prop='C20'):
    """C20.shared_lines.publish_after_fill (structural, all paths of bistr.c2b / bistr.b2c): bistr line objects are shared
    by reference between a tree and its copies, so their lazily built index arrays are cross-tree (and cross-thread)
    state.  Obligation: an index array becomes reachable from the instance (self._c2b / self._b2c) and the fast-path
    lookup is installed (self.c2b / self.b2c = self._x_lookup) only AFTER the last store into that array - then every
    array another thread can observe is complete, whatever the interleaving, because a complete array is never
    written again and all complete arrays of one (immutable) string are equal."""
    import ast
    from pyvc import frontend

    class _S:
        name = 'publication order (structural)'
        notes = 'top-level statement order of the function body; the array local is the one assigned from _make_array'
    for meth in ('c2b', 'b2c'):
        ident = f'astutil:bistr.{meth}'
        loc = frontend.locate(ident)
        rep.function(loc, _S)
        body = loc.node.body
        arr = None
        for st in body:
            if isinstance(st, ast.Assign) and isinstance(st.value, ast.Call) and '_make_array' in ast.unparse(st.value.func):
                names = [t.id for t in st.targets if isinstance(t, ast.Name)]
                arr = names[0] if names else None
        if arr is None:
            rep.checker_error(f'{ident}: cannot identify the local index array (anchor changed)')
            continue
        fills, pubs = [], []
        for i, st in enumerate(body):
            for n in ast.walk(st):
                if (isinstance(n, ast.Subscript) and isinstance(n.ctx, ast.Store) and isinstance(n.value, ast.Name)
                        and n.value.id == arr):
                    fills.append(i)
                if isinstance(n, ast.Assign):
                    self_t = [t for t in n.targets if isinstance(t, ast.Attribute) and isinstance(t.value, ast.Name)
                              and t.value.id == 'self']
                    v = n.value
                    is_arr = (isinstance(v, ast.Name) and v.id == arr) or \
                             (isinstance(v, ast.Call) and '_make_array' in ast.unparse(v.func))
                    is_lookup = isinstance(v, ast.Attribute) and v.attr.endswith('_lookup')
                    if self_t and (is_arr or is_lookup):
                        nested = n is not st
                        pubs.append((i, ast.unparse(n)[:60], nested))
        if not fills or not pubs:
            rep.checker_error(f'{ident}: no fill / publication statement recognised (anchor changed)')
            continue
        ok = all(i > max(fills) and not nested for i, _, nested in pubs)
        name = f'{prop}.shared_lines.publish_after_fill.{meth}'
        rep.other('structural', name, ok,
                  detail=f'array local {arr!r}: last store at body statement {max(fills)}, publications '
                         f'{[(i, s) for i, s, _ in pubs]}',
                  key=name, replay={'function': ident, 'array': arr, 'last_fill_stmt': max(fills),
                                    'publications': [(i, s) for i, s, _ in pubs],
                                    'verifier_output': 'a publication precedes (or is nested in) the fill: another thread '
                                                       'sharing this line object can observe a partially filled index'})


# ---------------------------------------------------------------------------------------------------------------------
# C06.units (structural): AST column fields are BYTE offsets, FST coordinates are CHARACTER columns.  Every value stored
# into a col_offset / end_col_offset field, or handed to _set_start_pos / _set_end_pos as a column, must be a byte
# quantity by construction.

BYTE_PARAM_HINTS = ('col_offset', 'colo', 'col_delta', 'dcol')   # naming convention of byte-valued parameters / locals
ASCII_NAMES = {'quotes', 'op_len'}                                 # lengths of ASCII-only tokens (quotes, operators)


def _is_byte_expr(fn, e, depth=0, visiting=()):
    import ast
    if depth > 6:
        return False
    if isinstance(e, ast.Constant) and isinstance(e.value, int):
        return True
    if isinstance(e, ast.Attribute):
        return e.attr in ('col_offset', 'end_col_offset', 'lenbytes')
    if isinstance(e, ast.Subscript):
        return isinstance(e.slice, ast.Constant) and e.slice.value in ('col_offset', 'end_col_offset')
    if isinstance(e, ast.Call):
        f = e.func
        if isinstance(f, ast.Attribute) and f.attr == 'c2b':
            return True
        if isinstance(f, ast.Name) and f.id == 'getattr' and len(e.args) >= 2 and isinstance(e.args[1], ast.Constant) \
                and e.args[1].value in ('col_offset', 'end_col_offset'):
            return True
        if isinstance(f, ast.Name) and f.id == 'bool':
            return True     # 0 / 1: one ASCII character (a space that is inserted), the same in both units
        if isinstance(f, ast.Name) and f.id == 'len' and e.args:
            a = e.args[0]
            if isinstance(a, ast.Call) and isinstance(a.func, ast.Attribute) and a.func.attr == 'encode':
                return True
            if isinstance(a, ast.Name) and a.id in ASCII_NAMES:
                return True
        return False
    if isinstance(e, ast.BinOp) and isinstance(e.op, (ast.Add, ast.Sub)):
        return _is_byte_expr(fn, e.left, depth + 1, visiting) and _is_byte_expr(fn, e.right, depth + 1, visiting)
    if isinstance(e, ast.NamedExpr):
        return _is_byte_expr(fn, e.value, depth + 1, visiting)
    if isinstance(e, ast.UnaryOp) and isinstance(e.op, (ast.USub, ast.UAdd)):
        return _is_byte_expr(fn, e.operand, depth + 1, visiting)
    if isinstance(e, ast.IfExp):
        return _is_byte_expr(fn, e.body, depth + 1, visiting) and _is_byte_expr(fn, e.orelse, depth + 1, visiting)
    if isinstance(e, ast.Name):
        if e.id in ASCII_NAMES or e.id in visiting:     # x = x + <byte>: inductive in the definitions of x
            return True
        visiting = visiting + (e.id,)
        hinted = any(h in e.id for h in BYTE_PARAM_HINTS)
        params = {a.arg for a in fn.args.posonlyargs + fn.args.args + fn.args.kwonlyargs}
        if hinted and e.id in params:
            return True     # naming convention of byte-valued parameters (assumed)
        defs = []
        for n in ast.walk(fn):
            if isinstance(n, ast.Assign):
                for t in n.targets:
                    if isinstance(t, ast.Name) and t.id == e.id:
                        defs.append(n.value)
                    elif isinstance(t, ast.Tuple) and any(isinstance(x, ast.Name) and x.id == e.id for x in t.elts):
                        defs.append(None)
            elif isinstance(n, ast.NamedExpr) and isinstance(n.target, ast.Name) and n.target.id == e.id:
                defs.append(n.value)
            elif isinstance(n, ast.AugAssign) and isinstance(n.target, ast.Name) and n.target.id == e.id:
                defs.append(n.value if isinstance(n.op, (ast.Add, ast.Sub)) else None)
        if hinted:
            # a LOCAL with a byte-style name is not taken on trust: every definition visible in the function that is an
            # arithmetic expression over names / attributes / len() / c2b() must be a byte expression; tuple-unpacked,
            # closure and container-lookup definitions (x.get(..), x[..], other calls) fall back to the naming convention
            def opaque(d):
                return d is None or (isinstance(d, ast.Call) and not (isinstance(d.func, ast.Name) and d.func.id == 'len')
                                     and not (isinstance(d.func, ast.Attribute) and d.func.attr == 'c2b')) \
                    or isinstance(d, ast.Subscript)
            return all(opaque(d) or _is_byte_expr(fn, d, depth + 1, visiting) for d in defs)
        return bool(defs) and all(d is not None and _is_byte_expr(fn, d, depth + 1, visiting) for d in defs)
    return False


def units_structural(rep, prop='C06'):
    import ast
    import glob
    import os
    from pyvc import frontend
    sites, skipped = [], []
    for path in sorted(glob.glob(os.path.join(frontend.SRC, '*.py'))):
        mod = os.path.basename(path)[:-3]
        if mod == 'asttypes':
            continue       # plain constructors copying their parameters
        tree = frontend.module(mod).tree
        for fn in ast.walk(tree):
            if not isinstance(fn, (ast.FunctionDef, ast.AsyncFunctionDef)):
                continue
            for n in ast.walk(fn):
                vals = []
                if isinstance(n, ast.Assign):
                    if any(isinstance(t, ast.Attribute) and t.attr in ('col_offset', 'end_col_offset') for t in n.targets):
                        vals.append(('store', n.value, n.lineno))
                elif isinstance(n, ast.AugAssign) and isinstance(n.target, ast.Attribute) \
                        and n.target.attr in ('col_offset', 'end_col_offset'):
                    vals.append(('store', n.value, n.lineno))
                elif isinstance(n, ast.Call) and isinstance(n.func, ast.Attribute) \
                        and n.func.attr in ('_set_start_pos', '_set_end_pos') and len(n.args) >= 2:
                    vals.append(('setter', n.args[1], n.lineno))
                    if len(n.args) >= 4:
                        vals.append(('setter_old', n.args[3], n.lineno))
                elif isinstance(n, ast.Call) and isinstance(n.func, ast.Attribute) and n.func.attr == '_offset' \
                        and len(n.args) >= 4 and not any(isinstance(a, ast.Starred) for a in n.args[:4]):
                    vals.append(('offset_dcol', n.args[3], n.lineno))     # _offset(ln, col, dln, dcol_offset, ...): byte delta
                elif isinstance(n, ast.Call) and any(k.arg in ('col_offset', 'end_col_offset') for k in n.keywords):
                    for k in n.keywords:     # Name(id=.., col_offset=..): a node constructed with explicit positions
                        if k.arg in ('col_offset', 'end_col_offset'):
                            vals.append(('ctor_' + k.arg, k.value, n.lineno))
                for kind, v, lineno in vals:
                    sites.append([mod, fn.name, lineno - fn.lineno, kind, ast.unparse(v)[:60], _is_byte_expr(fn, v), lineno])

    class _S:
        name = 'unit discipline (structural): AST column fields receive byte quantities'
        notes = ('byte expression ::= int constant | x.c2b(..) | .col_offset | .end_col_offset | .lenbytes | len(..encode()) | '
                 "loc['..col_offset'] | byte +/- byte | a local all of whose definitions are byte expressions | a name "
                 f'following the naming convention {BYTE_PARAM_HINTS} | lengths of ASCII tokens {sorted(ASCII_NAMES)}')
    seen = set()
    n_ok = 0
    # ordinal of the site within its function, in source order: the identity of a site across edits of its expression
    sites.sort(key=lambda t: (t[0], t[1], t[6]))
    counts = {}
    baseline = _units_baseline()
    for site in sites:
        mod, fname, rel, kind, text, ok, _ = site
        k = (mod, fname)
        counts[k] = counts.get(k, 0) + 1
        ident = f'{mod}.{fname}#{counts[k]}'
        site.append(ident)
        if not ok and ident not in baseline:
            skipped.append((mod, fname, rel, text))
            continue
        key = f'{prop}.units.{ident}'
        if (mod, fname) not in seen:
            seen.add((mod, fname))
            try:
                rep.function(frontend.locate(f'{mod}:{fname}'), _S)
            except Exception:
                pass
        rep.other('structural', key, ok, detail=f'{mod}:{fname} line +{rel}: {kind} of `{text}`', key=key,
                  replay={'site': [mod, fname, rel, kind, text],
                          'verifier_output': 'the value is not a byte quantity by construction (a character column written '
                                             'into an AST byte offset breaks positions on lines with multi-byte text)'})
        n_ok += ok
    present = {t[7] for t in sites}
    for ident in sorted(baseline - present):
        rep.undecided(f'{prop}.units.{ident}', 'a column-field write site of the pinned tree is gone (function renamed or '
                      'restructured): the obligation can no longer be generated')
    rep.extra['units_sites'] = len(sites)
    rep.extra['units_not_registered'] = [list(s) for s in skipped]
    if len(sites) < 40:
        rep.checker_error(f'only {len(sites)} column-field write sites found (anchor changed?)')
    return sites, skipped


def _units_baseline():
    """sites for which the obligation held on the pinned tree (contracts/units_baseline.json, generated by hand with
    `python3-vt -c "from contracts import k_bistr; k_bistr.write_units_baseline()"`): a later failure is a violation"""
    import json
    import os
    p = os.path.join(os.path.dirname(os.path.abspath(__file__)), 'units_baseline.json')
    try:
        with open(p) as f:
            return set(json.load(f))
    except OSError:
        return set()


def write_units_baseline():
    import json
    import os
    from pyvc import report
    rep = report.Report('C06', 'quick', 0, 'proof', 'x')
    sites, _ = units_structural(rep)
    p = os.path.join(os.path.dirname(os.path.abspath(__file__)), 'units_baseline.json')
    with open(p, 'w') as f:
        json.dump(sorted(t[7] for t in sites if t[5]), f, indent=0)
    print(len(sites), 'sites written')
