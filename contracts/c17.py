"""C17 - matching depends only on structure; quantifiers behave like regular expressions (bounded)."""
from pyvc import native


def run(rep, tier, seed):
    sec = native.run('b_match', 'main', {'tier': tier, 'seed': seed}, timeout=7200)
    sec['native_entry'] = ('b_match', 'replay')
    rep.bounded(sec)
