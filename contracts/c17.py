"""C17 - matching depends only on structure; quantifiers behave like regular expressions."""
from contracts import k_match
from pyvc.contract import verify_all
from pyvc import native


def run(rep, tier, seed):
    # P: the rewind / tag-stack discipline of list matching ("no state carried from one attempt into the next")
    verify_all(rep, k_match.specs('C17'))
    k_match.options_structural(rep, 'C17')
    rep.assumptions.append('per-class match functions under an assumed contract: return None or a mapping, leave the tag '
                           'stack depth as found; _match__inside_list and _match__inside_list_quantifier are verified '
                           'against each other\'s contract')
    sec = native.run('b_match', 'main', {'tier': tier, 'seed': seed}, timeout=7200)
    sec['native_entry'] = ('b_match', 'replay')
    rep.bounded(sec)
    rep.remainder = ('quantifier semantics (regular-expression equivalence) and layout independence: decided by the bounded '
                     'enumeration only, which is the property\'s own bound; the leaf-type pre-filter is not under contract')
