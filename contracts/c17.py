"""C17 - matching depends only on structure; quantifiers behave like regular expressions."""
from contracts import k_match
from pyvc.contract import verify_all
from pyvc import native


def run(rep, tier, seed):
    # P: the rewind / tag-stack discipline of list matching ("no state carried from one attempt into the next")
    verify_all(rep, k_match.specs('C17'))
    rep.assumptions.append('callees of _match__inside_list (_match__inside_list_quantifier, per-class match functions) '
                           'under assumed contracts: return None or a mapping, may move both cursors inside their '
                           'sequences, leave the tag stack depth as found')
    sec = native.run('b_match', 'main', {'tier': tier, 'seed': seed}, timeout=7200)
    sec['native_entry'] = ('b_match', 'replay')
    rep.bounded(sec)
    rep.remainder = ('quantifier semantics (regular-expression equivalence) and layout independence: decided by the bounded '
                     'enumeration only, which is the property\'s own bound; _match__inside_list_quantifier and the leaf-type '
                     'pre-filter are not under contract')
