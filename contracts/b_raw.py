"""C10/B and C11/B - bounded runtime contracts on put_src(action='reparse'|'offset'), raw puts and reparse().

C10 postcondition (from the property): either the call raises and source + tree (with positions) are exactly what they
were, or the source equals the requested text splice and the tree equals ast.parse(new source) in structure and all
positions; it succeeds exactly when the new whole source is valid; root keeps its identity.
C11 postcondition: a trivia-only replacement through put_src(action='offset') on the innermost node strictly containing
the spot leaves the tree equal to ast.parse(new source).
"""
import ast
import zlib
import io
import random
import tokenize

from contracts.b_lib import tree_diff, c01_violation, dump, node_paths, follow


def tok_positions(src):
    out = []
    try:
        for t in tokenize.generate_tokens(io.StringIO(src + '\n').readline):
            if t.type in (tokenize.ENDMARKER, tokenize.INDENT, tokenize.DEDENT):
                continue
            out.append(t)
    except (tokenize.TokenError, IndentationError, SyntaxError):
        pass
    return out


def sig_tokens(src):
    """token strings that matter to the parser (no comments, NL)"""
    try:
        return [(t.type, t.string) for t in tokenize.generate_tokens(io.StringIO(src + '\n').readline)
                if t.type not in (tokenize.COMMENT, tokenize.NL, tokenize.ENDMARKER)]
    except (tokenize.TokenError, IndentationError, SyntaxError):
        return None


def splice(lines, text, ln, col, end_ln, end_col):
    src = '\n'.join(lines)
    new = lines[ln][:col] + text + lines[end_ln][end_col:]
    return '\n'.join(lines[:ln] + new.split('\n') + lines[end_ln + 1:])


class Raw:
    def __init__(self, name, src, payload):
        from fst import FST
        import fst.fst_core as core
        self.FST, self.core = FST, core
        self.name, self.src, self.payload = name, src, payload
        self.props = set(payload['props'])
        self.ev = 0
        self.distinct = set()
        self.failures = []
        self.samples = []
        self.counts = {'ok': 0, 'refused': 0, 'skipped': 0}
        self.lines = src.split('\n')
        self.mode = 'expr' if name.startswith('xroot_expr') else 'exec'

    def fresh(self):
        return self.FST(self.src, self.mode)

    def parse(self, text):
        """CPython's parse of a whole new source for this root's kind (SyntaxError if it is not one)"""
        if self.mode == 'expr':
            # "re-parsing the whole file" for an expression root is the library's own expression parse of the whole text
            # (leading blanks / comments / line breaks allowed as in FST(src, 'expr'); that parser is C05's subject)
            try:
                return self.FST(text, 'expr').a
            except Exception as e:
                raise SyntaxError(str(e)) from None
        return ast.parse(text)

    def fail(self, prop, key, what, **kw):
        if prop not in self.props:
            return
        cap = self.payload.get('max_fail', 12)
        if cap >= 100000:   # exhaustive listing (C10: findings are listed by exact input)
            self.failures.append(dict(key=f'{prop}.B.{key}', what=what, program=self.name, replayed=True, **kw))
            return
        from contracts.b_lib import room
        ok, kn = room(self.failures, f'{prop}.B.{key}', cap)
        if ok:
            self.failures.append(dict(key=f'{prop}.B.{key}', what=what, program=self.name, replayed=True, _known=kn, **kw))

    def after_raise(self, root, src0, d0, exc, key, desc):
        for prop in ('C10', 'C12'):
            if root.src != src0:
                self.fail(prop, key + ':raise.src', f'{desc} raised {exc!r} but the source changed',
                          src_after=root.src[:300])
            elif dump(root.a) != d0:
                self.fail(prop, key + ':raise.tree', f'{desc} raised {exc!r} but the tree changed')
        if self.core._MODIFYING:
            self.fail('C12', key + ':raise.lock', f'{desc} raised {exc!r} and left a modification lock behind')
            self.fail('C10', key + ':raise.lock', f'{desc} raised {exc!r} and left a modification lock behind')
            self.core._MODIFYING.clear()
            return
        if 'C12' in self.props:
            try:
                root.append('pass')
                v = c01_violation(root)
                if v:
                    self.fail('C12', key + ':next_c01', f'after the failed {desc} the next valid edit broke C01: {v}')
            except Exception as e2:
                self.fail('C12', key + ':next', f'after the failed {desc} the next valid edit raised {e2!r}')

    # C10 --------------------------------------------------------------------------------------------------------
    def reparse_sweep(self, quick, rnd):
        toks = [t for t in tok_positions(self.src) if t.type not in (tokenize.NL, tokenize.NEWLINE)]
        pts = sorted({(t.start[0] - 1, t.start[1]) for t in toks} | {(t.end[0] - 1, t.end[1]) for t in toks})
        rects = []
        for i, a in enumerate(pts):
            for b in pts[i:i + 7]:
                rects.append((a, b))
        nrect = 40 if quick else 400
        if len(rects) > nrect:
            rects = rnd.sample(rects, nrect)
        # a few off-boundary rectangles
        for _ in range(5 if quick else 30):
            ln = rnd.randrange(len(self.lines))
            if self.lines[ln]:
                c1 = rnd.randrange(len(self.lines[ln]) + 1)
                c2 = rnd.randrange(c1, len(self.lines[ln]) + 1)
                rects.append(((ln, c1), (ln, c2)))
        # block headers: a space after every compound-statement keyword (header-only reparse paths), both tiers
        for t in toks:
            if t.type == tokenize.NAME and t.string in ('try', 'else', 'finally', 'except', 'elif', 'if', 'while', 'for',
                                                        'with', 'def', 'class', 'match', 'case'):
                self.one_reparse(t.end[0] - 1, t.end[1], t.end[0] - 1, t.end[1], ' ')
        for (ln, col), (eln, ecol) in rects:
            old = splice(self.lines, '\0', ln, col, eln, ecol)
            same = '\n'.join(self.lines[ln:eln + 1])
            same = same[col:len(same) - (len(self.lines[eln]) - ecol)]
            texts = ['', same, 'x', 'pass', '(', ' ', 'é + 1', same + '  # c' if '\n' not in same else same, '# c', 'wh # c:',
                     'if z:\n' + ' ' * col + '    y']
            if self.mode != 'exec':
                texts += ['] = [1', ' = 1', 'b + 1', 'x;', ' and ']     # texts that change what the whole source is
            elif quick:
                texts = [same] + rnd.sample(texts, 3)
            for text in texts:
                self.one_reparse(ln, col, eln, ecol, text)

    def one_reparse(self, ln, col, eln, ecol, text):
        root = self.fresh()
        self.ev += 1
        src0, d0 = root.src, dump(root.a)
        exp = splice(self.lines, text, ln, col, eln, ecol)
        try:
            self.parse(exp)
            valid = True
        except (SyntaxError, ValueError):    # CPython raises ValueError for some malformed f-strings
            valid = False
        key = f'reparse:{self.name}:({ln},{col},{eln},{ecol}):{text!r}'
        desc = f'put_src({text!r}, {ln}, {col}, {eln}, {ecol}, "reparse")'
        rid = id(root)
        try:
            root.put_src(text, ln, col, eln, ecol, 'reparse')
        except Exception as e:
            self.counts['refused'] += 1
            self.distinct.add(('reparse-refused', ln, col, eln, ecol, text))
            self.after_raise(root, src0, d0, e, key, desc)
            if valid:
                self.fail('C10', key + ':refused_valid', f'{desc} raised {e!r} although the new whole source is valid '
                          f'Python', new_source=exp[:300])
            return
        self.counts['ok'] += 1
        self.distinct.add(('reparse', ln, col, eln, ecol, text))
        if len(self.samples) < 2:
            self.samples.append({'program': self.name, 'call': desc, 'valid': valid})
        if root.src != exp:
            self.fail('C10', key + ':src', f'{desc} succeeded but the source is not the requested splice',
                      got=root.src[:300], expected=exp[:300])
            return
        if not valid:
            self.fail('C10', key + ':accepted_invalid', f'{desc} succeeded although the new whole source is not valid '
                      f'Python', new_source=exp[:300])
            return
        v = tree_diff(self.parse(exp), root.a)
        if v:
            self.fail('C10', key + ':tree', f'{desc} succeeded but the tree differs from a from-scratch parse: {v}',
                      new_source=exp[:300])
            return
        if self.core._MODIFYING:
            self.fail('C12', key + ':lock', f'{desc} succeeded and left a modification lock behind')
            self.core._MODIFYING.clear()
        if 'C02' in self.props:
            from contracts import b_query
            q = b_query.compare(root)
            if q:
                self.fail('C02', key, f'after {desc}: {q}')

    def raw_puts(self, quick, rnd):
        """raw=True replace of nodes, and whole-tree reparse()"""
        root = self.fresh()
        paths = [(p, f.a.__class__.__name__) for p, f in node_paths(root) if p and isinstance(f.a, (ast.expr, ast.stmt))]
        arglike = [(p, c) for p, c in paths if p[-1][0] in ('args', 'bases', 'keywords')]
        if len(paths) > (25 if quick else 200):
            paths = rnd.sample(paths, 25 if quick else 200)
        paths = paths + [x for x in arglike if x not in paths]
        for path, cls in paths:
            for code in ('zz', 'a + b', 'pass', '(', '*sx'):
                for rawopt in (True, 'auto'):
                    r = self.fresh()
                    n = follow(r, path)
                    if not n:
                        continue
                    self.ev += 1
                    src0, d0 = r.src, dump(r.a)
                    key = f'rawput:{self.name}:{path}:{code!r}:raw={rawopt}'
                    desc = f'replace({code!r}, raw={rawopt!r}) at {path}'
                    try:
                        n.replace(code, raw=rawopt)
                    except Exception as e:
                        self.counts['refused'] += 1
                        self.distinct.add(('raw-refused', path, code, rawopt))
                        self.after_raise(r, src0, d0, e, key, desc)
                        continue
                    self.counts['ok'] += 1
                    self.distinct.add(('raw', path, code, rawopt))
                    v = c01_violation(r)
                    if v:
                        self.fail('C10', key + ':tree', f'{desc} succeeded but {v}', src_after=r.src[:300])
                    elif self.core._MODIFYING:
                        self.fail('C12', key + ':lock', f'{desc} left a modification lock behind')
                        self.core._MODIFYING.clear()
                    # FST code form must behave like the source form (C03: equivalent entry points / code forms)
                    if rawopt == 'auto' and 'C03' in self.props and isinstance(n.a if n.a else None, ast.expr):
                        r2 = self.fresh()
                        n2 = follow(r2, path)
                        self.ev += 1
                        try:
                            n2.replace(self.FST(code, 'expr'), raw='auto')
                            if ast.dump(r2.a) != ast.dump(r.a):
                                self.fail('C03', key + ':fst_form', f'{desc}: FST code form gives a different result '
                                          'than the source form', src=r.src[:200], fst=r2.src[:200])
                        except Exception as e:
                            if not isinstance(e, SyntaxError):
                                self.fail('C03', key + ':fst_form', f'{desc} succeeds with source code but raises {e!r} '
                                          'with the same code as an FST')

    def raw_puts_to(self, quick, rnd):
        """raw replace from one node up to and including another node (`to=`): source == the requested splice and tree ==
        a from-scratch parse of it, or nothing changes"""
        root = self.fresh()
        nodes = [(p, f) for p, f in node_paths(root) if p and isinstance(f.a, (ast.expr, ast.stmt)) and f.loc is not None]
        pairs = []
        for i, (p, f) in enumerate(nodes):
            for q, g in nodes[i + 1:i + 40]:
                if (g.ln, g.col) >= (f.end_ln, f.end_col) and isinstance(g.a, ast.expr) == isinstance(f.a, ast.expr):
                    pairs.append((p, q))
        def reconverge(p, q):   # paths that diverge and then agree again at a deeper level (common-ancestor computation)
            d = [x == y for x, y in zip(p[:-1], q[:-1])]
            return False in d and True in d[d.index(False):]
        special = [pq for pq in pairs if reconverge(*pq)]
        k = 25 if quick else 250
        if len(pairs) > k:
            pairs = rnd.sample(pairs, k)
        pairs += [pq for pq in special[:8 if quick else 60] if pq not in pairs]
        for p, q in pairs:
            for code in ('zz', 'pass'):
                r = self.fresh()
                a, b = follow(r, p), follow(r, q)
                if not a or not b:
                    continue
                self.ev += 1
                src0, d0 = r.src, dump(r.a)
                try:   # the designated text runs from the start of `a` to the end of `b`, both with their own parentheses
                    pa, pb = a.pars(), b.pars()   # (a generator expression that shares the call's parentheses: inside them)
                    starts = {(pa[0], pa[1])} | ({(a.ln, a.col + 1)} if isinstance(a.a, ast.GeneratorExp) else set())
                    ends = {(pb[2], pb[3])} | ({(b.end_ln, b.end_col - 1)} if isinstance(b.a, ast.GeneratorExp) else set())
                    exps = [splice(self.lines, code, s[0], s[1], e[0], e[1]) for s in starts for e in ends]
                    exp = exps[0]
                except Exception:
                    continue
                key = f'rawput_to:{self.name}:{p}->{q}:{code!r}'
                desc = f'replace({code!r}, raw=True, to=<node at {q}>) at {p}'
                try:
                    a.replace(code, raw=True, to=b)
                except Exception as e:
                    self.counts['refused'] += 1
                    self.distinct.add(('rawto-refused', p, q, code))
                    self.after_raise(r, src0, d0, e, key, desc)
                    valid = True
                    for x in exps:
                        try:
                            ast.parse(x)
                        except (SyntaxError, ValueError):
                            valid = False
                    if valid:
                        self.fail('C10', key + ':refused_valid', f'{desc} raised {e!r} although the new whole source is '
                                  'valid Python', new_source=exp[:300])
                    continue
                self.counts['ok'] += 1
                self.distinct.add(('rawto', p, q, code))
                if r.src not in exps:
                    self.fail('C10', key + ':src', f'{desc} succeeded but the source is not the requested splice',
                              got=r.src[:300], expected=exp[:300])
                    continue
                try:
                    ast.parse(r.src)
                except (SyntaxError, ValueError):
                    self.fail('C10', key + ':accepted_invalid', f'{desc} succeeded although the new whole source is not '
                              'valid Python', new_source=r.src[:300])
                    continue
                v = c01_violation(r)
                if v:
                    self.fail('C10', key + ':tree', f'{desc} succeeded but {v}', src_after=r.src[:300])

    # C11 --------------------------------------------------------------------------------------------------------
    def offset_sweep(self, quick, rnd):
        root = self.fresh()
        toks = tok_positions(self.src)
        gaps = []
        for a, b in zip(toks, toks[1:]):
            if a.type in (tokenize.NEWLINE, tokenize.NL, tokenize.COMMENT) or b.type in (tokenize.NEWLINE, tokenize.NL,
                                                                                         tokenize.COMMENT):
                continue
            if a.end[0] != b.start[0]:
                continue
            if a.type == tokenize.FSTRING_MIDDLE or b.type == tokenize.FSTRING_MIDDLE or \
                    a.type == tokenize.FSTRING_START or b.type == tokenize.FSTRING_END:
                continue
            gaps.append((a.end[0] - 1, a.end[1], b.start[1]))
        if len(gaps) > (60 if quick else 100000):
            gaps = rnd.sample(gaps, 60)
        old_sig = sig_tokens(self.src)
        for ln, c1, c2 in gaps:
            for text in (' ', '', '   ', ' \\\n ', '  # c\n ', '\t'):
                new = splice(self.lines, text, ln, c1, ln, c2)
                if new == self.src or sig_tokens(new) != old_sig:
                    continue  # not a trivia-only change (tokens merge / split): outside the property's precondition
                try:
                    fresh_tree = ast.parse(new)
                except (SyntaxError, ValueError):
                    continue
                self.one_offset(ln, c1, c2, text, new, fresh_tree)
        # same-length token-preserving re-bracketing ` a ` -> `(a)`: a legal offset edit that moves no node
        import re
        n = 0
        for ln, line in enumerate(self.lines):
            for m in re.finditer(r'(?<=[\[(,=]) ([A-Za-z_]\w*) (?=[,)\]])', line):
                c1, c2 = m.start(), m.end()
                text = '(' + m.group(1) + ')'
                new = splice(self.lines, text, ln, c1, ln, c2)
                try:
                    fresh_tree = ast.parse(new)
                except (SyntaxError, ValueError):
                    continue
                if ast.dump(fresh_tree, include_attributes=True) != ast.dump(ast.parse(self.src), include_attributes=True):
                    continue
                self.one_offset(ln, c1, c2, text, new, fresh_tree, kind='rebracket')
                n += 1

    def innermost(self, root, ln, col, end_col):
        best = None
        for f in root.walk(True):
            loc = f.loc
            if not loc or not f.a or not hasattr(f.a, 'lineno'):
                continue
            if (loc.ln, loc.col) < (ln, col) and (ln, end_col) < (loc.end_ln, loc.end_col):
                best = f   # walk order is parents first: the last hit is the innermost
        return best

    def one_offset(self, ln, c1, c2, text, new, fresh_tree, kind='trivia'):
        root = self.fresh()
        node = self.innermost(root, ln, c1, c2)
        if node is None:
            self.counts['skipped'] += 1
            return
        p = node
        in_fstr = False
        while p is not None:
            if p.a.__class__.__name__ in ('JoinedStr', 'TemplateStr'):
                in_fstr = True
            p = p.parent
        self.ev += 1
        key = f'offset{"[fstr-ml]" if in_fstr and chr(10) in text else ""}:{self.name}:({ln},{c1},{c2}):{text!r}'
        desc = f'{node.a.__class__.__name__}.put_src({text!r}, {ln}, {c1}, {ln}, {c2}, "offset")'
        src0, d0 = root.src, dump(root.a)
        if 'C02' in self.props:
            from contracts import b_query
            b_query.prepass(root)
        try:
            node.put_src(text, ln, c1, ln, c2, 'offset')
        except Exception as e:
            self.counts['refused'] += 1
            self.distinct.add(('offset-refused', ln, c1, c2, text))
            self.after_raise(root, src0, d0, e, key, desc)
            return
        self.counts['ok'] += 1
        self.distinct.add(('offset', ln, c1, c2, text))
        if len(self.samples) < 2:
            self.samples.append({'program': self.name, 'call': desc})
        if root.src != new:
            if in_fstr:   # pfst's own brace fix-up (`{ {`) may add a space inside a replacement field: judge the tree
                try:
                    fresh_tree = ast.parse(root.src)
                except (SyntaxError, ValueError):
                    self.fail('C11', key + ':src', f'{desc}: resulting source does not parse')
                    return
            else:
                self.fail('C11', key + ':src', f'{desc}: source is not the requested splice')
                return
        v = tree_diff(fresh_tree, root.a)
        if v:
            self.fail('C11', key + ':tree', f'{desc}: tree differs from a from-scratch parse of the new source: {v}',
                      new_source=new[:300])
            return
        if 'C02' in self.props:
            from contracts import b_query
            q = b_query.compare(root)
            if q:
                self.fail('C02', key, f'after {desc}: {q}')


def work(name, src, payload):
    r = Raw(name, src, payload)
    quick = payload.get('tier', 'quick') == 'quick'
    # deterministic enumeration (independent of VERIF_SEED): the known C10 findings are listed by exact input
    rnd = random.Random(zlib.crc32(f'12345:{name}:raw'.encode()))
    ops = payload.get('ops', ['reparse', 'rawput', 'offset'])
    if r.mode != 'exec':
        ops = [o for o in ops if o == 'reparse']     # expression roots: the partial (path based) reparse only
    if 'reparse' in ops:
        r.reparse_sweep(quick, rnd)
    if 'rawput' in ops:
        r.raw_puts(quick, rnd)
        r.raw_puts_to(quick, random.Random(zlib.crc32(f'12345:{name}:rawto'.encode())))
    if 'offset' in ops:
        r.offset_sweep(quick, rnd)
    return {'evaluations': r.ev, 'distinct': list(r.distinct), 'failures': r.failures, 'samples': r.samples,
            'counts': r.counts}


# roots that are not modules: a nested raw edit is reparsed along the path from the root, which has to fail (and change
# nothing) when the whole new source is no longer an expression
XROOTS = [('xroot_expr_attr_of_list', '[a, b].c'), ('xroot_expr_call_sub', 'f(x, y=1)[k]'), ('xroot_expr_ifexp', 'a if b else c'),
          ('xroot_expr_binop', 'a + b * c'), ('xroot_expr_lambda', 'lambda x: (x, 1)')]


def main(payload):
    from contracts import b_lib
    progs = b_lib.load_corpus(payload.get('tier', 'quick'), payload.get('programs'))
    if 'C10' in payload['props'] and not payload.get('programs'):
        progs = list(progs) + XROOTS
    payload = dict(payload, norm=False)
    res = b_lib.run_parallel('b_raw', 'work', progs, payload)
    props = ','.join(payload['props'])
    return b_lib.merge(
        f'{props}.B.raw_sweep', res,
        rule='reparse: rectangles between token boundaries (<= 6 boundaries apart) plus random off-boundary ones x '
             "replacement texts {'', same, 'x', 'pass', '(', ' ', non-ASCII, comment, block}; rawput: replace(code, "
             "raw=True|'auto') of sampled nodes; offset: every same-line inter-token gap x trivia replacements that "
             'keep the significant token stream, plus same-length re-bracketing; distinct = distinct (kind, rectangle, '
             'text, outcome) tuples; all non-trivial',
        scope=f'{len(progs)} corpus programs; quick samples 40 rectangles x 4 texts and 60 gaps per program')


def replay(payload):
    from contracts import b_lib
    rep = payload.get('replay') or payload
    progs = dict(list(b_lib.load_corpus()) + XROOTS)
    name = rep.get('program')
    if name not in progs:
        return {'reproduced': False, 'note': 'program not in corpus'}
    prop = rep['key'].split('.')[0]
    r = work(name, progs[name], {'props': [prop], 'tier': 'thorough', 'seed': rep.get('seed', 0)})
    hit = [f for f in r['failures'] if f['key'] == rep['key']]
    return {'reproduced': bool(hit), 'failure': hit[:1]}


def main_all_failures(payload):
    """every failing input of the deterministic sweep (used by tools/gen_known_c10.py only)"""
    from contracts import b_lib
    progs = list(b_lib.load_corpus()) + XROOTS
    payload = dict(payload, norm=False, max_fail=100000)
    res = b_lib.run_parallel('b_raw', 'work', progs, payload)
    out = []
    for prog, r in res:
        if r.get('harness_error'):
            raise RuntimeError(f'harness error in {prog}: {r["harness_error"][:500]}')
        out.extend(r['failures'])
    return out
