"""C09/P - the precedence oracle astutil:precedence_require_parens(_by_type) over its whole finite domain.

Route: finite-domain evaluation.  The function is total and loop-free over (child tag, parent tag, field, flags); every
well-typed (slot, child kind) point of the expression and pattern grammar is enumerated and the REAL function is
evaluated (natively, under /venv/bin/python).  The specification at each point is Python's own parser: the child is
written into the slot once parenthesised and once bare; parentheses are REQUIRED iff the bare text does not parse to
the same tree.  Obligation (one-sided, from the property: "parentheses are added whenever ... requires them"):

    required(point)  =>  precedence_require_parens(child, parent, field, idx, flags) is True

Over-parenthesising is deliberately not an obligation.
"""
import ast

# child kinds: (name, source, is_pattern)
EXPR_CHILDREN = [
    ('NamedExpr', 'a := b'), ('Tuple', 'a, b'), ('Yield', 'yield a'), ('YieldFrom', 'yield from a'),
    ('Lambda', 'lambda: a'), ('IfExp', 'a if b else c'), ('Or', 'a or b'), ('And', 'a and b'), ('Not', 'not a'),
    ('Compare', 'a < b'), ('CompareIn', 'a in b'), ('CompareIsNot', 'a is not b'), ('BitOr', 'a | b'),
    ('BitXor', 'a ^ b'), ('BitAnd', 'a & b'),
    ('LShift', 'a << b'), ('RShift', 'a >> b'), ('Add', 'a + b'), ('Sub', 'a - b'), ('Mult', 'a * b'),
    ('MatMult', 'a @ b'), ('Div', 'a / b'), ('Mod', 'a % b'), ('FloorDiv', 'a // b'), ('UAdd', '+a'), ('USub', '-a'),
    ('Invert', '~a'), ('Pow', 'a ** b'), ('Await', 'await a'), ('Call', 'f()'), ('Attribute', 'a.b'),
    ('Subscript', 'a[b]'), ('Name', 'a'), ('ConstantInt', '1'), ('ConstantStr', "'s'"), ('ConstantFloat', '1.5'),
    ('List', '[a]'), ('Dict', '{a: b}'), ('Set', '{a}'), ('ListComp', '[x for x in y]'),
    ('SetComp', '{x for x in y}'), ('DictComp', '{x: z for x in y}'), ('GeneratorExp', '(x for x in y)'),
    ('JoinedStr', "f'{a}'"), ('TupleEmpty', '()'), ('ParTuple', '(a, b)'),
]

PATTERN_CHILDREN = [
    ('MatchValue', '1'), ('MatchValueAttr', 'a.b'), ('MatchSingleton', 'None'), ('MatchSequenceBare', 'a, b'),
    ('MatchSequenceList', '[a, b]'), ('MatchMapping', '{1: a}'), ('MatchClass', 'C()'), ('MatchAsName', 'a'),
    ('MatchAsWild', '_'), ('MatchAs', 'a as b'), ('MatchOr', 'a | b'),
]

# slots: (name, template with one {} hole, arglike flag, kind) -- statement context: inside `async def` so that
# await / yield are legal wherever the grammar allows them
E = 'expr'
SLOTS = [
    ('Expr.value', '{}', False), ('Assign.value', 'v = {}', False), ('AugAssign.value', 'v += {}', False),
    ('AnnAssign.annotation', 'v: {} = 1', False), ('AnnAssign.value', 'v: int = {}', False),
    ('Return.value', 'return {}', False), ('For.iter', 'for v in {}: pass', False),
    ('While.test', 'while {}: pass', False), ('If.test', 'if {}: pass', False),
    ('withitem.context_expr', 'with {}: pass', False), ('withitem.context_expr.as', 'with {} as v: pass', False),
    ('Raise.exc', 'raise {}', False), ('Raise.cause', 'raise e from {}', False), ('Assert.test', 'assert {}', False),
    ('Assert.msg', 'assert t, {}', False), ('Match.subject', 'match {}:\n  case _: pass', False),
    ('match_case.guard', 'match s:\n  case _ if {}: pass', False),
    ('Delete.targets', 'del {}', False),
    ('And.values.0', '{} and z', False), ('And.values.1', 'z and {}', False),
    ('Or.values.0', '{} or z', False), ('Or.values.1', 'z or {}', False),
    ('NamedExpr.value', '(v := {})', False),
    ('Lambda.body', 'v = lambda: {}', False), ('IfExp.body', 'v = {} if t else z', False),
    ('IfExp.test', 'v = z if {} else w', False), ('IfExp.orelse', 'v = z if t else {}', False),
    ('Dict.keys', 'v = {{{}: z}}', False), ('Dict.values', 'v = {{z: {}}}', False),
    ('Dict.values.unpack', 'v = {{**{}}}', False), ('Set.elts', 'v = {{{}, z}}', False),
    ('ListComp.elt', 'v = [{} for x in y]', False), ('DictComp.key', 'v = {{{}: z for x in y}}', False),
    ('DictComp.value', 'v = {{z: {} for x in y}}', False), ('GeneratorExp.elt', 'v = ({} for x in y)', False),
    ('comprehension.iter', 'v = [x for x in {}]', False), ('comprehension.ifs', 'v = [x for x in y if {}]', False),
    ('comprehension.ifs.1', 'v = [x for x in y if t if {}]', False),
    ('comprehension.iter.2', 'v = [x for x in y for z in {}]', False),
    ('Await.value', 'await {}', False), ('Yield.value', 'v = yield {}', False),
    ('YieldFrom.value', 'v = yield from {}', False),
    ('Compare.left', 'v = {} < z', False), ('Compare.comparators', 'v = z < {}', False),
    ('Compare.comparators.in', 'v = z in {}', False), ('Compare.comparators.1', 'v = z < w < {}', False),
    ('Call.func', 'v = {}()', False), ('Call.args', 'v = f({}, z)', True), ('Call.args.solo', 'v = f({})', True),
    ('keyword.value', 'v = f(k={})', False), ('keyword.value.unpack', 'v = f(**{})', False),
    ('Starred.value.call', 'v = f(*{})', True), ('Starred.value.list', 'v = [*{}]', False),
    ('Starred.value.tuple', 'v = *{}, z', False), ('Starred.value.bases', 'class c(*{}): pass', True),
    ('FormattedValue.value', "v = f'{{{}}}'", False), ('FormattedValue.value.sp', "v = f'{{ {} }}'", False),
    ('Attribute.value', 'v = {}.b', False), ('Subscript.value', 'v = {}[z]', False),
    ('Subscript.slice', 'v = z[{}]', False), ('Slice.lower', 'v = z[{}:]', False), ('Slice.upper', 'v = z[:{}]', False),
    ('Slice.step', 'v = z[::{}]', False), ('List.elts', 'v = [{}, z]', False), ('Tuple.elts', 'v = ({}, z)', False),
    ('Tuple.elts.bare', 'v = {}, z', False), ('Tuple.elts.slice', 'v = z[{}, w]', True),
    ('arguments.defaults', 'def g(p={}): pass', False), ('arguments.kw_defaults', 'def g(*, p={}): pass', False),
    ('arg.annotation', 'def g(p: {}): pass', False), ('FunctionDef.returns', 'def g() -> {}: pass', False),
    ('FunctionDef.decorator_list', '@{}\ndef g(): pass', False), ('ClassDef.bases', 'class c({}): pass', True),
    ('ClassDef.keywords', 'class c(k={}): pass', False), ('Lambda.defaults', 'v = lambda p={}: z', False),
    ('MatchValue.value', 'match s:\n  case z.w | {}: pass', False),
    ('UAdd.operand', 'v = +{}', False), ('USub.operand', 'v = -{}', False), ('Invert.operand', 'v = ~{}', False),
    ('Not.operand', 'v = not {}', False),
] + [(f'{n}.left', 'v = {} ' + op + ' z', False) for n, op in (
    ('Add', '+'), ('Sub', '-'), ('Mult', '*'), ('MatMult', '@'), ('Div', '/'), ('Mod', '%'), ('FloorDiv', '//'),
    ('LShift', '<<'), ('RShift', '>>'), ('BitOr', '|'), ('BitXor', '^'), ('BitAnd', '&'), ('Pow', '**'))
] + [(f'{n}.right', 'v = z ' + op + ' {}', False) for n, op in (
    ('Add', '+'), ('Sub', '-'), ('Mult', '*'), ('MatMult', '@'), ('Div', '/'), ('Mod', '%'), ('FloorDiv', '//'),
    ('LShift', '<<'), ('RShift', '>>'), ('BitOr', '|'), ('BitXor', '^'), ('BitAnd', '&'), ('Pow', '**'))
]

TARGET_SLOTS = [  # only target-like children make sense here
    ('Assign.targets', '{} = z', False), ('For.target', 'for {} in z: pass', False),
    ('comprehension.target', 'v = [x for {} in y]', False), ('withitem.optional_vars', 'with z as {}: pass', False),
    ('AugAssign.target', '{} += 1', False), ('AnnAssign.target', '{}: int = 1', False),
    ('NamedExpr.target', '({} := z)', False),
]
TARGET_CHILDREN = [('Name', 'a'), ('Attribute', 'a.b'), ('Subscript', 'a[b]'), ('Tuple', 'a, b'), ('List', '[a, b]'),
                   ('ParTuple', '(a, b)')]

PATTERN_SLOTS = [
    ('match_case.pattern', 'match s:\n  case {}: pass', False), ('MatchAs.pattern', 'match s:\n  case {} as n: pass', False),
    ('MatchOr.patterns.0', 'match s:\n  case {} | 2: pass', False),
    ('MatchOr.patterns.1', 'match s:\n  case 2 | {}: pass', False),
    ('MatchSequence.patterns', 'match s:\n  case [{}, 2]: pass', False),
    ('MatchSequence.patterns.bare', 'match s:\n  case {}, 2: pass', False),
    ('MatchMapping.patterns', 'match s:\n  case {{1: {}}}: pass', False),
    ('MatchClass.patterns', 'match s:\n  case C({}): pass', False),
    ('MatchClass.kwd_patterns', 'match s:\n  case C(k={}): pass', False),
]

EXCLUDED = {
    # not a precedence requirement: `f'{{x}}'` is an escaped brace; pfst repairs it by inserting a space in
    # _Modifying.success (`f'{ {x}}'`), parentheses are not what the grammar requires here
    ('FormattedValue.value', 'Dict'), ('FormattedValue.value', 'Set'), ('FormattedValue.value', 'SetComp'),
    ('FormattedValue.value', 'DictComp'),
    # `(a): int = 1` and `a: int = 1` differ only in AnnAssign.simple (0/1), not in grouping
    ('AnnAssign.target', 'Name'),
}


def _wrap(stmt_src):
    body = '\n'.join('    ' + l for l in stmt_src.split('\n'))
    return 'async def _w_():\n' + body + '\n'


def _hole_pos(template):
    """(0-based line, col) of the hole in the formatted template (after str.format unescaping)"""
    pre = template.split('{}')[0].replace('{{', '{').replace('}}', '}')
    lines = pre.split('\n')
    return len(lines) - 1, len(lines[-1])


def _find_child(tree, lineno, col, end_col):
    best = None
    for n in ast.walk(tree):
        if (getattr(n, 'lineno', None) == lineno and n.col_offset == col and n.end_lineno == lineno
                and n.end_col_offset == end_col):
            if best is None:
                best = n  # ast.walk is breadth-first: first hit is the outermost
    return best


def _find_parent(tree, child):
    for p in ast.walk(tree):
        for f, v in ast.iter_fields(p):
            if v is child:
                return p, f, None
            if isinstance(v, list):
                for i, e in enumerate(v):
                    if e is child:
                        return p, f, i
    return None


def _strip(t):
    return ast.dump(t)


def judge(template, child_src):
    """-> None if the point is not well-typed (even the parenthesised text is rejected), else dict"""
    hl, hc = _hole_pos(template)
    par_src = _wrap(template.format('(' + child_src + ')'))
    try:
        par_tree = ast.parse(par_src)
    except SyntaxError:
        return None
    lineno = hl + 2
    col = hc + 4 + 1
    child = _find_child(par_tree, lineno, col, col + len(child_src))
    if child is None:
        return None
    pf = _find_parent(par_tree, child)
    if pf is None:
        return None
    bare_src = _wrap(template.format(child_src))
    try:
        bare_tree = ast.parse(bare_src)
        required = _strip(bare_tree) != _strip(par_tree)
        why = 'regroups' if required else ''
    except SyntaxError as e:
        required = True
        why = f'SyntaxError: {e.msg}'
    return {'child': child, 'parent': pf[0], 'field': pf[1], 'idx': pf[2], 'required': required, 'why': why,
            'bare': bare_src, 'par': par_src}


def points():
    for sname, tmpl, arglike in SLOTS:
        for cname, csrc in EXPR_CHILDREN:
            yield sname, tmpl, arglike, cname, csrc
    for sname, tmpl, arglike in TARGET_SLOTS:
        for cname, csrc in TARGET_CHILDREN:
            yield sname, tmpl, arglike, cname, csrc
    for sname, tmpl, arglike in PATTERN_SLOTS:
        for cname, csrc in PATTERN_CHILDREN:
            yield sname, tmpl, arglike, cname, csrc


def finite_oracle(payload):
    """native: evaluate the real oracle at every point; returns counts, failures and samples"""
    from fst.astutil import precedence_require_parens, precedence_require_parens_by_type
    from fst.asttypes import BoolOp, BinOp, UnaryOp
    total = welltyped = required_n = 0
    failures, samples, over, checked = [], [], 0, []
    seen_keys = set()
    for sname, tmpl, arglike, cname, csrc in points():
        total += 1
        j = judge(tmpl, csrc)
        if j is None:
            continue
        welltyped += 1
        child, parent, field, idx = j['child'], j['parent'], j['field'], j['idx']
        if (sname.split('.')[0] + '.' + field, cname) in EXCLUDED or (sname, cname) in EXCLUDED:
            continue
        if isinstance(parent, ast.Starred) or isinstance(child, ast.Starred):
            pass
        try:
            got = bool(precedence_require_parens(child, parent, field, idx, arglike=arglike))
        except Exception as e:
            failures.append({'key': f'C09.prec.sound[{sname}<-{cname}]', 'what': f'oracle raised {e!r}',
                             'slot': sname, 'child': cname, 'bare_source': j['bare']})
            continue
        ctype = child.op.__class__ if isinstance(child, (ast.BoolOp, ast.BinOp, ast.UnaryOp)) else child.__class__
        ptype = parent.op.__class__ if isinstance(parent, (ast.BoolOp, ast.BinOp, ast.UnaryOp)) else parent.__class__
        seen_keys.add((ctype.__name__, ptype.__name__, field))
        checked.append(f'{sname}<-{cname}')
        if j['required']:
            required_n += 1
            if not got:
                failures.append({'key': f'C09.prec.sound[{sname}<-{cname}]',
                                 'what': f'parentheses are required for {cname} in {sname} ({j["why"]}) but '
                                         f'precedence_require_parens({ctype.__name__}, {ptype.__name__}, {field!r}) is False',
                                 'slot': sname, 'child': cname, 'bare_source': j['bare'], 'par_source': j['par'],
                                 'replayed': True})
        elif got:
            over += 1
        if len(samples) < 5 and j['required']:
            samples.append({'slot': sname, 'child': cname, 'required_by_cpython': True, 'oracle': got,
                            'why': j['why']})
    return {'points': total, 'welltyped': welltyped, 'required': required_n, 'over_parenthesised': over,
            'distinct_type_triples': len(seen_keys), 'failures': failures, 'samples': samples, 'checked': checked}


def by_type_totality(payload):
    """native: the by-type function is total (returns a bool, never raises) on its whole well-typed domain:
    every child tag x every (parent tag, field) key of its own table plus the default x 2^4 flags"""
    import itertools
    from fst import astutil
    from fst.asttypes import BoolOp, BinOp, UnaryOp
    fn = astutil.precedence_require_parens_by_type
    nodes = [k for k, v in astutil._PRECEDENCE_NODES.items() if v is not False]
    import ast as _ast
    extra = [_ast.Name, _ast.Constant, _ast.Call, _ast.List, _ast.Dict, _ast.Set, _ast.Attribute, _ast.Subscript,
             _ast.JoinedStr, _ast.ListComp, _ast.GeneratorExp, _ast.Starred, _ast.MatchValue, _ast.MatchClass]
    children = nodes + [e for e in extra if e not in nodes]
    slots = list(astutil._PRECEDENCE_NODE_FIELDS) + [(_ast.Return, 'value'), (_ast.Call, 'args'),
                                                      (_ast.Starred, 'value'), (_ast.Dict, 'values')]
    flags = ['dict_key_None', 'matchas_pat_None', 'attr_val_int', 'arglike']
    n = 0
    bad = []
    for c in children:
        for (p, f) in slots:
            if p in (BoolOp, BinOp, UnaryOp):
                continue  # documented precondition: pass the op type
            for bits in itertools.product((False, True), repeat=4):
                kw = {k: v for k, v in zip(flags, bits) if v}
                n += 1
                try:
                    r = fn(c, p, f, **kw)
                    if r is not True and r is not False:
                        bad.append(f'{c.__name__},{p.__name__}.{f},{kw}: returned {r!r}')
                except Exception as e:
                    bad.append(f'{c.__name__},{p.__name__}.{f},{kw}: raised {e!r}')
    return {'evaluated': n, 'bad': bad[:20], 'n_bad': len(bad)}
