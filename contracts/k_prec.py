"""C09/P - the precedence oracle astutil:precedence_require_parens(_by_type) over its whole finite domain.

Route: finite-domain evaluation.  The function is total and loop-free over (child tag, parent tag, field, flags); every
well-typed (slot, child kind) point of the expression and pattern grammar is enumerated and the REAL function is
evaluated (natively, under /venv/bin/python).  The specification at each point is Python's own parser: the child is
written into the slot once parenthesised and once bare; parentheses are REQUIRED iff the bare text does not parse to
the same tree.  Obligation (one-sided, from the property: "parentheses are added whenever ... requires them"):

    required(point)  =>  precedence_require_parens(child, parent, field, idx, flags) is True

Over-parenthesising is deliberately not an obligation.
"""
import ast

# child kinds: (name, source, is_pattern)
EXPR_CHILDREN = [
    ('NamedExpr', 'a := b'), ('Tuple', 'a, b'), ('Yield', 'yield a'), ('YieldFrom', 'yield from a'),
    ('Lambda', 'lambda: a'), ('IfExp', 'a if b else c'), ('Or', 'a or b'), ('And', 'a and b'), ('Not', 'not a'),
    ('Compare', 'a < b'), ('CompareIn', 'a in b'), ('CompareIsNot', 'a is not b'), ('BitOr', 'a | b'),
    ('BitXor', 'a ^ b'), ('BitAnd', 'a & b'),
    ('LShift', 'a << b'), ('RShift', 'a >> b'), ('Add', 'a + b'), ('Sub', 'a - b'), ('Mult', 'a * b'),
    ('MatMult', 'a @ b'), ('Div', 'a / b'), ('Mod', 'a % b'), ('FloorDiv', 'a // b'), ('UAdd', '+a'), ('USub', '-a'),
    ('Invert', '~a'), ('Pow', 'a ** b'), ('Await', 'await a'), ('Call', 'f()'), ('Attribute', 'a.b'),
    ('Subscript', 'a[b]'), ('Name', 'a'), ('ConstantInt', '1'), ('ConstantStr', "'s'"), ('ConstantFloat', '1.5'),
    ('List', '[a]'), ('Dict', '{a: b}'), ('Set', '{a}'), ('ListComp', '[x for x in y]'),
    ('SetComp', '{x for x in y}'), ('DictComp', '{x: z for x in y}'), ('GeneratorExp', '(x for x in y)'),
    ('JoinedStr', "f'{a}'"), ('TupleEmpty', '()'), ('ParTuple', '(a, b)'),
]

PATTERN_CHILDREN = [
    ('MatchValue', '1'), ('MatchValueAttr', 'a.b'), ('MatchSingleton', 'None'), ('MatchSequenceBare', 'a, b'),
    ('MatchSequenceList', '[a, b]'), ('MatchMapping', '{1: a}'), ('MatchClass', 'C()'), ('MatchAsName', 'a'),
    ('MatchAsWild', '_'), ('MatchAs', 'a as b'), ('MatchOr', 'a | b'),
]

# slots: (name, template with one {} hole, arglike flag, kind) -- statement context: inside `async def` so that
# await / yield are legal wherever the grammar allows them
E = 'expr'
SLOTS = [
    ('Expr.value', '{}', False), ('Assign.value', 'v = {}', False), ('AugAssign.value', 'v += {}', False),
    ('AnnAssign.annotation', 'v: {} = 1', False), ('AnnAssign.value', 'v: int = {}', False),
    ('Return.value', 'return {}', False), ('For.iter', 'for v in {}: pass', False),
    ('While.test', 'while {}: pass', False), ('If.test', 'if {}: pass', False),
    ('withitem.context_expr', 'with {}: pass', False), ('withitem.context_expr.as', 'with {} as v: pass', False),
    ('Raise.exc', 'raise {}', False), ('Raise.cause', 'raise e from {}', False), ('Assert.test', 'assert {}', False),
    ('Assert.msg', 'assert t, {}', False), ('Match.subject', 'match {}:\n  case _: pass', False),
    ('match_case.guard', 'match s:\n  case _ if {}: pass', False),
    ('Delete.targets', 'del {}', False),
    ('And.values.0', '{} and z', False), ('And.values.1', 'z and {}', False),
    ('Or.values.0', '{} or z', False), ('Or.values.1', 'z or {}', False),
    ('NamedExpr.value', '(v := {})', False),
    ('Lambda.body', 'v = lambda: {}', False), ('IfExp.body', 'v = {} if t else z', False),
    ('IfExp.test', 'v = z if {} else w', False), ('IfExp.orelse', 'v = z if t else {}', False),
    ('Dict.keys', 'v = {{{}: z}}', False), ('Dict.values', 'v = {{z: {}}}', False),
    ('Dict.values.unpack', 'v = {{**{}}}', False), ('Set.elts', 'v = {{{}, z}}', False),
    ('ListComp.elt', 'v = [{} for x in y]', False), ('DictComp.key', 'v = {{{}: z for x in y}}', False),
    ('DictComp.value', 'v = {{z: {} for x in y}}', False), ('GeneratorExp.elt', 'v = ({} for x in y)', False),
    ('comprehension.iter', 'v = [x for x in {}]', False), ('comprehension.ifs', 'v = [x for x in y if {}]', False),
    ('comprehension.ifs.1', 'v = [x for x in y if t if {}]', False),
    ('comprehension.iter.2', 'v = [x for x in y for z in {}]', False),
    ('Await.value', 'await {}', False), ('Yield.value', 'v = yield {}', False),
    ('YieldFrom.value', 'v = yield from {}', False),
    ('Compare.left', 'v = {} < z', False), ('Compare.comparators', 'v = z < {}', False),
    ('Compare.comparators.in', 'v = z in {}', False), ('Compare.comparators.1', 'v = z < w < {}', False),
    ('Call.func', 'v = {}()', False), ('Call.args', 'v = f({}, z)', True), ('Call.args.solo', 'v = f({})', True),
    ('keyword.value', 'v = f(k={})', False), ('keyword.value.unpack', 'v = f(**{})', False),
    ('Starred.value.call', 'v = f(*{})', True), ('Starred.value.list', 'v = [*{}]', False),
    ('Starred.value.tuple', 'v = *{}, z', False), ('Starred.value.bases', 'class c(*{}): pass', True),
    ('FormattedValue.value', "v = f'{{{}}}'", False), ('FormattedValue.value.sp', "v = f'{{ {} }}'", False),
    ('Attribute.value', 'v = {}.b', False), ('Subscript.value', 'v = {}[z]', False),
    ('Subscript.slice', 'v = z[{}]', False), ('Slice.lower', 'v = z[{}:]', False), ('Slice.upper', 'v = z[:{}]', False),
    ('Slice.step', 'v = z[::{}]', False), ('List.elts', 'v = [{}, z]', False), ('Tuple.elts', 'v = ({}, z)', False),
    ('Tuple.elts.bare', 'v = {}, z', False), ('Tuple.elts.slice', 'v = z[{}, w]', True),
    ('arguments.defaults', 'def g(p={}): pass', False), ('arguments.kw_defaults', 'def g(*, p={}): pass', False),
    ('arg.annotation', 'def g(p: {}): pass', False), ('FunctionDef.returns', 'def g() -> {}: pass', False),
    ('FunctionDef.decorator_list', '@{}\ndef g(): pass', False), ('ClassDef.bases', 'class c({}): pass', True),
    ('ClassDef.keywords', 'class c(k={}): pass', False), ('Lambda.defaults', 'v = lambda p={}: z', False),
    ('MatchValue.value', 'match s:\n  case z.w | {}: pass', False),
    ('UAdd.operand', 'v = +{}', False), ('USub.operand', 'v = -{}', False), ('Invert.operand', 'v = ~{}', False),
    ('Not.operand', 'v = not {}', False),
] + [(f'{n}.left', 'v = {} ' + op + ' z', False) for n, op in (
    ('Add', '+'), ('Sub', '-'), ('Mult', '*'), ('MatMult', '@'), ('Div', '/'), ('Mod', '%'), ('FloorDiv', '//'),
    ('LShift', '<<'), ('RShift', '>>'), ('BitOr', '|'), ('BitXor', '^'), ('BitAnd', '&'), ('Pow', '**'))
] + [(f'{n}.right', 'v = z ' + op + ' {}', False) for n, op in (
    ('Add', '+'), ('Sub', '-'), ('Mult', '*'), ('MatMult', '@'), ('Div', '/'), ('Mod', '%'), ('FloorDiv', '//'),
    ('LShift', '<<'), ('RShift', '>>'), ('BitOr', '|'), ('BitXor', '^'), ('BitAnd', '&'), ('Pow', '**'))
]

TARGET_SLOTS = [  # only target-like children make sense here
    ('Assign.targets', '{} = z', False), ('For.target', 'for {} in z: pass', False),
    ('comprehension.target', 'v = [x for {} in y]', False), ('withitem.optional_vars', 'with z as {}: pass', False),
    ('AugAssign.target', '{} += 1', False), ('AnnAssign.target', '{}: int = 1', False),
    ('NamedExpr.target', '({} := z)', False),
]
TARGET_CHILDREN = [('Name', 'a'), ('Attribute', 'a.b'), ('Subscript', 'a[b]'), ('Tuple', 'a, b'), ('List', '[a, b]'),
                   ('ParTuple', '(a, b)')]

PATTERN_SLOTS = [
    ('match_case.pattern', 'match s:\n  case {}: pass', False), ('MatchAs.pattern', 'match s:\n  case {} as n: pass', False),
    ('MatchOr.patterns.0', 'match s:\n  case {} | 2: pass', False),
    ('MatchOr.patterns.1', 'match s:\n  case 2 | {}: pass', False),
    ('MatchSequence.patterns', 'match s:\n  case [{}, 2]: pass', False),
    ('MatchSequence.patterns.bare', 'match s:\n  case {}, 2: pass', False),
    ('MatchMapping.patterns', 'match s:\n  case {{1: {}}}: pass', False),
    ('MatchClass.patterns', 'match s:\n  case C({}): pass', False),
    ('MatchClass.kwd_patterns', 'match s:\n  case C(k={}): pass', False),
]

EXCLUDED = {
    # not a precedence requirement: `f'{{x}}'` is an escaped brace; pfst repairs it by inserting a space in
    # _Modifying.success (`f'{ {x}}'`), parentheses are not what the grammar requires here
    ('FormattedValue.value', 'Dict'), ('FormattedValue.value', 'Set'), ('FormattedValue.value', 'SetComp'),
    ('FormattedValue.value', 'DictComp'),
    # `(a): int = 1` and `a: int = 1` differ only in AnnAssign.simple (0/1), not in grouping
    ('AnnAssign.target', 'Name'),
}


def _wrap(stmt_src):
    body = '\n'.join('    ' + l for l in stmt_src.split('\n'))
    return 'async def _w_():\n' + body + '\n'


def _hole_pos(template):
    """(0-based line, col) of the hole in the formatted template (after str.format unescaping)"""
    pre = template.split('{}')[0].replace('{{', '{').replace('}}', '}')
    lines = pre.split('\n')
    return len(lines) - 1, len(lines[-1])


def _find_child(tree, lineno, col, end_col):
    best = None
    for n in ast.walk(tree):
        if (getattr(n, 'lineno', None) == lineno and n.col_offset == col and n.end_lineno == lineno
                and n.end_col_offset == end_col):
            if best is None:
                best = n  # ast.walk is breadth-first: first hit is the outermost
    return best


def _find_parent(tree, child):
    for p in ast.walk(tree):
        for f, v in ast.iter_fields(p):
            if v is child:
                return p, f, None
            if isinstance(v, list):
                for i, e in enumerate(v):
                    if e is child:
                        return p, f, i
    return None


def _strip(t):
    return ast.dump(t)


def judge(template, child_src):
    """-> None if the point is not well-typed (even the parenthesised text is rejected), else dict"""
    hl, hc = _hole_pos(template)
    par_src = _wrap(template.format('(' + child_src + ')'))
    try:
        par_tree = ast.parse(par_src)
    except SyntaxError:
        return None
    lineno = hl + 2
    col = hc + 4 + 1
    child = _find_child(par_tree, lineno, col, col + len(child_src))
    if child is None:
        return None
    pf = _find_parent(par_tree, child)
    if pf is None:
        return None
    bare_src = _wrap(template.format(child_src))
    try:
        bare_tree = ast.parse(bare_src)
        required = _strip(bare_tree) != _strip(par_tree)
        why = 'regroups' if required else ''
    except SyntaxError as e:
        required = True
        why = f'SyntaxError: {e.msg}'
    return {'child': child, 'parent': pf[0], 'field': pf[1], 'idx': pf[2], 'required': required, 'why': why,
            'bare': bare_src, 'par': par_src}


def points():
    for sname, tmpl, arglike in SLOTS:
        for cname, csrc in EXPR_CHILDREN:
            yield sname, tmpl, arglike, cname, csrc
    for sname, tmpl, arglike in TARGET_SLOTS:
        for cname, csrc in TARGET_CHILDREN:
            yield sname, tmpl, arglike, cname, csrc
    for sname, tmpl, arglike in PATTERN_SLOTS:
        for cname, csrc in PATTERN_CHILDREN:
            yield sname, tmpl, arglike, cname, csrc


def finite_oracle(payload):
    """native: evaluate the real oracle at every point; returns counts, failures and samples"""
    from fst.astutil import precedence_require_parens, precedence_require_parens_by_type
    from fst.asttypes import BoolOp, BinOp, UnaryOp
    total = welltyped = required_n = 0
    failures, samples, over, checked = [], [], 0, []
    seen_keys = set()
    for sname, tmpl, arglike, cname, csrc in points():
        total += 1
        j = judge(tmpl, csrc)
        if j is None:
            continue
        welltyped += 1
        child, parent, field, idx = j['child'], j['parent'], j['field'], j['idx']
        if (sname.split('.')[0] + '.' + field, cname) in EXCLUDED or (sname, cname) in EXCLUDED:
            continue
        if isinstance(parent, ast.Starred) or isinstance(child, ast.Starred):
            pass
        try:
            got = bool(precedence_require_parens(child, parent, field, idx, arglike=arglike))
        except Exception as e:
            failures.append({'key': f'C09.prec.sound[{sname}<-{cname}]', 'what': f'oracle raised {e!r}',
                             'slot': sname, 'child': cname, 'bare_source': j['bare']})
            continue
        ctype = child.op.__class__ if isinstance(child, (ast.BoolOp, ast.BinOp, ast.UnaryOp)) else child.__class__
        ptype = parent.op.__class__ if isinstance(parent, (ast.BoolOp, ast.BinOp, ast.UnaryOp)) else parent.__class__
        seen_keys.add((ctype.__name__, ptype.__name__, field))
        checked.append(f'{sname}<-{cname}')
        if j['required']:
            required_n += 1
            if not got:
                failures.append({'key': f'C09.prec.sound[{sname}<-{cname}]',
                                 'what': f'parentheses are required for {cname} in {sname} ({j["why"]}) but '
                                         f'precedence_require_parens({ctype.__name__}, {ptype.__name__}, {field!r}) is False',
                                 'slot': sname, 'child': cname, 'bare_source': j['bare'], 'par_source': j['par'],
                                 'replayed': True})
        elif got:
            over += 1
        if len(samples) < 5 and j['required']:
            samples.append({'slot': sname, 'child': cname, 'required_by_cpython': True, 'oracle': got,
                            'why': j['why']})
    return {'points': total, 'welltyped': welltyped, 'required': required_n, 'over_parenthesised': over,
            'distinct_type_triples': len(seen_keys), 'failures': failures, 'samples': samples, 'checked': checked}


def by_type_totality(payload):
    """native: the by-type function is total (returns a bool, never raises) on its whole well-typed domain:
    every child tag x every (parent tag, field) key of its own table plus the default x 2^4 flags"""
    import itertools
    from fst import astutil
    from fst.asttypes import BoolOp, BinOp, UnaryOp
    fn = astutil.precedence_require_parens_by_type
    nodes = [k for k, v in astutil._PRECEDENCE_NODES.items() if v is not False]
    import ast as _ast
    extra = [_ast.Name, _ast.Constant, _ast.Call, _ast.List, _ast.Dict, _ast.Set, _ast.Attribute, _ast.Subscript,
             _ast.JoinedStr, _ast.ListComp, _ast.GeneratorExp, _ast.Starred, _ast.MatchValue, _ast.MatchClass]
    children = nodes + [e for e in extra if e not in nodes]
    slots = list(astutil._PRECEDENCE_NODE_FIELDS) + [(_ast.Return, 'value'), (_ast.Call, 'args'),
                                                      (_ast.Starred, 'value'), (_ast.Dict, 'values')]
    flags = ['dict_key_None', 'matchas_pat_None', 'attr_val_int', 'arglike']
    n = 0
    bad = []
    for c in children:
        for (p, f) in slots:
            if p in (BoolOp, BinOp, UnaryOp):
                continue  # documented precondition: pass the op type
            for bits in itertools.product((False, True), repeat=4):
                kw = {k: v for k, v in zip(flags, bits) if v}
                n += 1
                try:
                    r = fn(c, p, f, **kw)
                    if r is not True and r is not False:
                        bad.append(f'{c.__name__},{p.__name__}.{f},{kw}: returned {r!r}')
                except Exception as e:
                    bad.append(f'{c.__name__},{p.__name__}.{f},{kw}: raised {e!r}')
    return {'evaluated': n, 'bad': bad[:20], 'n_bad': len(bad)}


def decision_specs(prop='C09'):
    """The parenthesisation decision of fst_put_one:_make_exprlike_fst (the statements from `pars = ...get_option('pars')`
    to the end of the `if pars:` block, with the `need_pars` closure as written): every callee answer is an unknown
    Boolean (forked), the effects are recorded.

        R   precedence_require_parens(...) for the put node (for a Starred: for its value)
        A   put_fst._is_atom(pars=False)
        SP  the put source has grouping parentheses            TP  the target has them
        E1  self._is_enclosed_in_parents(field)                E2  put_fst._is_enclosed_or_line(check_pars=adding)
        PT  put node is an unparenthesised tuple               PZ  put node can take grouping parentheses

    `enclosed` on exit := the source's own parentheses were kept, or _parenthesize_grouping / _delimit_node was called,
    or deferred_par is set, or the target's parentheses stay around the new node (TP and not del_tgt_pars).
    Obligations, for pars in {True, 'auto'} and every combination of answers:
        required.precedence      R and not A                       =>  enclosed
        required.line_structure  not E1 and not E2                 =>  enclosed
        required.int_attribute   `3 .real`: int Constant as Attribute.value   =>  enclosed
        needed_never_removed     _unparenthesize_grouping is called only with pars='auto' and when none of the above
                                 requires parentheses
        pars_false.hands_off     with pars=False nothing is added, removed or deferred and the target's stay"""
    from pyvc.contract import Fragment
    from pyvc.interp import Interp, IFunc, SObj, Env, ABSENT
    from pyvc.sym import cur
    from pyvc.logic import truth
    import ast as _ast

    def flag(name):
        c = cur()
        return truth(c.bool(c.fresh_name(name)))

    def select(fnode):
        start = end = None
        for i, st in enumerate(fnode.body):
            if isinstance(st, _ast.Assign) and _ast.unparse(st).startswith("pars = fst.FST.get_option('pars'"):
                start = i
            if isinstance(st, _ast.If) and _ast.unparse(st.test) == 'pars' and start is not None:
                end = i
                break
        if start is None or end is None:
            raise LookupError('cannot locate the parenthesisation decision of _make_exprlike_fst')
        return fnode.body[start:end + 1]

    def run(ctx, case, loc, pre, label):
        stmts = select(loc.node)
        kind, pars_opt = case['kind'], case['pars']
        CLS = {n: SObj(n, {}) for n in ('Starred', 'Constant', 'Attribute', 'Tuple', 'Lambda', 'AnnAssign', 'BinOp',
                                        'FormattedValue', 'Interpolation', 'Name')}
        log = []
        facts = {}

        def fact(name):
            if name not in facts:
                facts[name] = flag(name)
            return facts[name]
        SP, TP = case['sp'], case['tp']
        PT = kind == 'tuple'
        put_cls = {'plain': 'BinOp', 'tuple': 'Tuple', 'starred': 'Starred', 'int_attr': 'Constant'}[kind]
        star_child = None
        put_ast = SObj('put_ast', {}, **{'__class__': CLS[put_cls]})
        if kind == 'int_attr':
            put_ast._set('value', 3, count=False)
        put_fst = SObj('put_fst', {}, a=put_ast)
        put_fst._set('_is_atom', lambda pars=True, **k: True if kind == 'int_attr' else fact('A'), count=False)
        e2_calls = []

        def e2(check_pars=True, **k):
            e2_calls.append(check_pars)
            return fact(f'E2[{check_pars}]')
        put_fst._set('_is_enclosed_or_line', e2, count=False)
        put_fst._set('pars', lambda *a, **k: SObj('pars', {}, n=1 if SP else 0), count=False)
        put_fst._set('is_parenthesized_tuple', lambda: (False if PT else None), count=False)
        put_fst._set('is_parenthesizable', lambda: fact('PZ'), count=False)
        for m in ('_unparenthesize_grouping', '_delimit_node', '_parenthesize_grouping'):
            put_fst._set(m, (lambda m=m: (lambda *a, **k: log.append(m)))(), count=False)
        if kind == 'starred':
            sc_f = SObj('star_child.f', {})
            sc_f._set('pars', lambda *a, **k: SObj('pars', {}, n=1 if SP else 0), count=False)
            star_child = SObj('star_child', {}, f=sc_f, **{'__class__': CLS['BinOp']})
            put_ast._set('value', star_child, count=False)
        tparent = SObj('tgt_parent', {}, a=SObj('tpa', {}, **{'__class__': CLS['Attribute' if kind == 'int_attr' else 'BinOp']}))
        target = SObj('target', {}, is_FST=True, parent=tparent)
        target._set('pars', lambda *a, **k: SObj('tpars', {}, n=1 if TP else 0), count=False)
        self = SObj('self', {}, a=SObj('self_a', {}, **{'__class__': CLS['BinOp']}))
        self._set('_is_enclosed_in_parents', lambda field=None: fact('E1'), count=False)

        def prp(child, parent, field=None, idx=None, **kw):
            log.append(('prec', child))
            return fact('R')
        FSTNS = SObj('FSTcls', {})
        FSTNS._set('get_option', lambda n, o=None: pars_opt, count=False)
        g = dict(CLS)
        g.update({'fst': SObj('fst', {}, FST=FSTNS), 'precedence_require_parens': prp, 'int': int,
                  'ASTS_LEAF_EXPR': frozenset(), 'isinstance': lambda o, t: (t is int and isinstance(o, int) and not isinstance(o, bool))})
        g['getattr'] = lambda o, n, *d: ((d[0] if d else None) if (o is None or o is False or o._get(n) is ABSENT) else o._get(n))
        it = Interp(g)
        env = Env()
        env.vars.update(self=self, put_fst=put_fst, put_ast=put_ast, target=target, field='value' if kind == 'int_attr' else 'left',
                        idx=None, options={}, arglike=False, static=SObj('static', {}))
        it.exec_block(stmts, env)
        ctx.notes['outcome'] = 'return'
        if 'del_tgt_pars' not in env.vars or 'deferred_par' not in env.vars:
            raise LookupError('the decision block no longer defines del_tgt_pars / deferred_par (locals renamed?): the contract '
                              'reads the outcome of the decision from them')
        del_tgt = env.vars.get('del_tgt_pars')
        deferred = env.vars.get('deferred_par')
        unpar = '_unparenthesize_grouping' in log
        added = '_delimit_node' in log or '_parenthesize_grouping' in log
        enclosed = (SP and not unpar) or added or bool(deferred) or (TP and not del_tgt)
        if not pars_opt:
            ctx.prove(f'{pre}.pars_false.hands_off[{label}]', not unpar and not added and not deferred and not del_tgt)
            return
        adding = not SP
        R = facts.get('R')
        A = True if kind == 'int_attr' else facts.get('A')
        E1, E2 = facts.get('E1'), facts.get(f'E2[{adding}]')
        req_prec = (R is True and A is False) if kind in ('plain', 'tuple') else (kind == 'starred' and R is True and A is False)
        req_line = E1 is False and E2 is False
        req_int = kind == 'int_attr'
        if R is not None and A is not None:
            ctx.prove(f'{pre}.required.precedence[{label}]', (not req_prec) or enclosed,
                      info=f'facts {facts} log {[x for x in log if isinstance(x, str)]} del_tgt_pars={del_tgt}')
        ctx.prove(f'{pre}.line_test_ignores_own_pars_only_when_adding[{label}]', all(cp is adding for cp in e2_calls),
                  info='_is_enclosed_or_line(check_pars=adding): parentheses the source already has count as enclosure only '
                       'when the question is whether to ADD some')
        if E1 is not None and E2 is not None:
            ctx.prove(f'{pre}.required.line_structure[{label}]', (not req_line) or enclosed, info=f'facts {facts}')
        if req_int:
            ctx.prove(f'{pre}.required.int_attribute[{label}]', enclosed)
        if unpar:
            ctx.prove(f'{pre}.needed_never_removed[{label}]', pars_opt == 'auto' and SP and not req_prec and not req_line
                      and not req_int, info=f'facts {facts}')
        ctx.prove(f'{pre}.one_way_only[{label}]', not (unpar and added),
                  info='parentheses are not removed and added in the same decision')

    cases = [dict(kind=k, pars=p, sp=sp, tp=tp) for k in ('plain', 'tuple', 'starred', 'int_attr') for p in (True, 'auto', False)
             for sp in (False, True) for tp in (False, True) if not (k == 'tuple' and sp)]
    return [Fragment('fst_put_one:_make_exprlike_fst', prop, 'put.decision', cases, run, min_obligations=1,
                     native=('b_prec', 'replay'),
                     notes='statements from `pars = get_option(..)` through the `if pars:` block incl. the need_pars closure; '
                           'callee answers forked; Lambda-in-f-string branch not exercised (put node kinds: operator '
                           'expression, unparenthesised tuple, Starred, int constant under Attribute)')]
