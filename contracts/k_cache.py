"""C02/P - cache discipline of the location queries and flush primitives; C06 coordinate accessors.

  touch            fst_core:_touch leaves self._cache empty
  touchall.parents fst_core:_touchall(parents=True, children=False): every proper ancestor's cache is cleared, for parent
                   chains of ANY length (loop invariant over the chain), self's cache iff self_; nothing else is written
  memo.loc         fst.FST.loc: a cached answer is returned untouched; otherwise the CPython extent converted with b2c is
                   computed, stored under 'loc' and returned
  memo.bloc        fst.FST.bloc: cached answer returned; for non-block nodes bloc == loc and is stored under 'bloc'
  memo.pars.key    fst.FST.pars: the cache key is 'parsT' / 'parsF' / 'parsN' for shared True / False / None and a cached
                   answer under THAT key is returned (the three sharing modes never share a slot)
  coords           FST.lineno/col_offset/end_lineno/end_col_offset == loc[0]+1, c2b(line, loc[1]), loc[2]+1, c2b(...)
"""
import ast

from pyvc.logic import and_, or_, not_, implies, eq, truth


def specs(prop='C02'):
    import collections
    import z3
    from pyvc import frontend, sym, values
    from pyvc.contract import Fragment
    from pyvc.interp import Interp, IFunc, SObj, PyRaise, ABSENT, Env, _Return
    from pyvc.loops import LoopSpec
    from pyvc.sym import cur, _wrap_bool, _wrap_int, SInt

    class Cache:
        """per-node cache: concrete string keys, symbolic presence, opaque values"""

        def __init__(self, name):
            self.name = name
            self.entries = {}
            self.version = 0
            self.cleared = False
            self.writes = []

        def _e(self, k):
            if k not in self.entries:
                if truth(cur().bool(f'cached({self.name},{k})')):
                    self.entries[k] = SObj(f'cached_{k}', {})
                else:
                    self.entries[k] = ABSENT
            return self.entries[k]

        def _sym_getitem(self, k):
            v = self._e(k)
            if v is ABSENT:
                raise PyRaise(KeyError(k))
            return v

        def _sym_setitem(self, k, v):
            self._e(k)
            self.version += 1
            self.writes.append(k)
            self.entries[k] = v

        def get(self, k, d=None):
            v = self._e(k)
            return d if v is ABSENT else v

        def pop(self, k, *d):
            v = self._e(k)
            if v is ABSENT:
                if d:
                    return d[0]
                raise PyRaise(KeyError(k))
            self.version += 1
            self.entries[k] = ABSENT
            return v

        def clear(self):
            self.version += 1
            self.cleared = True
            for k in list(self.entries):
                self.entries[k] = ABSENT

        def is_empty(self):
            return self.cleared and all(v is ABSENT for v in self.entries.values())

    FSTLOC = collections.namedtuple('fstloc', 'ln col end_ln end_col')

    # ---------------------------------------------------------------------------------------------------------------
    def run_touch(ctx, case, loc, pre, label):
        c = Cache('self')
        c._e('loc'); c._e('bloc'); c._e('parsT')
        self = SObj('self', {}, _cache=c)
        it = Interp({})
        r = it.call(IFunc(it, loc.node, None, '_touch'), (self,))
        ctx.notes['outcome'] = 'return'
        ctx.prove(f'{pre}.cache_empty[{label}]', c.is_empty())
        ctx.prove(f'{pre}.returns_self[{label}]', r is self)

    # ---------------------------------------------------------------------------------------------------------------
    class Anc:
        """i-th ancestor of self on a parent chain of symbolic depth (index 0 = self)"""

        def __init__(self, st, i):
            self.st, self.i = st, i

        def _sym_getattr(self, interp, attr, default=ABSENT):
            st = self.st
            if attr == 'parent':
                if truth(self.i < st['depth']):
                    return Anc(st, self.i + 1)
                return None
            if attr == '_cache':
                return AncCache(st, self.i)
            if attr == 'a':
                return st['a']
            raise sym.Unsupported(f'ancestor attribute {attr}')

        def _sym_truth(self):
            return True

    class AncCache:
        def __init__(self, st, i):
            self.st, self.i = st, i

        def clear(self):
            st = self.st
            st['cleared'] = z3.Store(st['cleared'], sym._z(self.i), z3.BoolVal(True))
            st['n_clear'] += 1

        def _sym_truth(self):
            # whether an ancestor's memo currently holds anything is arbitrary (it depends on earlier queries): a flush
            # that consults it to stop early would leave ancestors above an empty one stale
            return truth(_wrap_bool(z3.Function('anc_cache_nonempty', z3.IntSort(), z3.BoolSort())(sym._z(self.i))))

    def run_touchall(ctx, case, loc, pre, label):
        st = {'depth': ctx.int('depth'), 'cleared': z3.K(z3.IntSort(), z3.BoolVal(False)), 'n_clear': 0,
              'a': SObj('a', {})}
        ctx.assume(st['depth'] >= 0)
        s = ctx.int('s')   # skolem ancestor index
        self = Anc(st, 0)

        def inv(_, env):
            p = env['parent']
            if not isinstance(p, Anc):
                return False
            j = p.i
            c = st['cleared']
            return and_(0 <= j, j <= st['depth'],
                        _wrap_bool(z3.Implies(z3.And(1 <= s.e, s.e <= sym._z(j)), z3.Select(c, s.e))),
                        _wrap_bool(z3.Implies(z3.Or(s.e < 0, s.e > sym._z(j)), z3.Not(z3.Select(c, s.e)))),
                        _wrap_bool(z3.Select(c, z3.IntVal(0)) == z3.BoolVal(bool(case['self_']))))

        class ParentSpec(LoopSpec):
            def _havoc(self, interp, node, env):
                j = cur().int(cur().fresh_name('anc_j'))
                env.set('parent', Anc(st, j))
                st['cleared'] = z3.Array(cur().fresh_name('cleared'), z3.IntSort(), z3.BoolSort())
        it = Interp({'iter_child_nodes': lambda a: []})
        # loop ordinals in _touchall: 0 = children worklist, 1 = parent chain
        it.loop_specs[('_touchall', 1)] = ParentSpec('C02.touchall.parents.loop', inv)
        f = IFunc(it, loc.node, None, '_touchall')
        r = it.call(f, (self, case['parents'], case['self_'], False))
        ctx.notes['outcome'] = 'return'
        c = st['cleared']
        sel = lambda e: _wrap_bool(z3.Select(c, sym._z(e)))
        if case['parents']:
            ctx.prove(f'{pre}.every_ancestor_flushed[{label}]', implies(and_(1 <= s, s <= st['depth']), sel(s)))
        else:
            ctx.prove(f'{pre}.no_ancestor_touched[{label}]', implies(s >= 1, not_(sel(s))))
        ctx.prove(f'{pre}.self_iff_flag[{label}]', eq(sel(0), case['self_']) if case['parents'] or True else True)
        ctx.prove(f'{pre}.frame.nothing_beyond_chain[{label}]', implies(or_(s < 0, s > st['depth']), not_(sel(s))))
        ctx.prove(f'{pre}.returns_self[{label}]', r is self)

    # ---------------------------------------------------------------------------------------------------------------
    B2C = z3.Function('b2c', z3.IntSort(), z3.IntSort(), z3.IntSort())   # (line number, byte offset) -> char column
    C2B = z3.Function('c2b', z3.IntSort(), z3.IntSort(), z3.IntSort())

    class Line:
        def __init__(self, ln):
            self.ln = ln

        def b2c(self, x):
            return _wrap_int(B2C(sym._z(self.ln), sym._z(x)))

        def c2b(self, x):
            return _wrap_int(C2B(sym._z(self.ln), sym._z(x)))

    class Lines:
        def _sym_getitem(self, i):
            return Line(i)

        def __getitem__(self, i):
            return Line(i)

    def getter(ident):
        """function node of a @property"""
        return frontend.locate(ident).node

    def run_loc(ctx, case, loc, pre, label):
        c = Cache('self')
        from pyvc.interp import IntAttr
        a = SObj('a', dict(lineno=IntAttr(), col_offset=IntAttr(), end_lineno=IntAttr(), end_col_offset=IntAttr()))
        root = SObj('root', {}, _lines=Lines())
        self = SObj('self', {}, _cache=c, a=a, root=root, parent=SObj('p', {}))
        it = Interp({'fstloc': FSTLOC, '_LOC_FUNCS': {}})
        cached0 = c._e('loc')
        v0 = c.version
        r = it.call(IFunc(it, loc.node, None, 'loc'), (self,))
        ctx.notes['outcome'] = 'return'
        if cached0 is not ABSENT:
            ctx.prove(f'{pre}.hit.returns_cached[{label}]', r is cached0)
            ctx.prove(f'{pre}.hit.no_write[{label}]', c.version == v0)
        else:
            ln, eln = a.lineno - 1, a.end_lineno - 1
            exp = (ln, _wrap_int(B2C(sym._z(ln), sym._z(a.col_offset))), eln,
                   _wrap_int(B2C(sym._z(eln), sym._z(a.end_col_offset))))
            ctx.prove(f'{pre}.miss.value[{label}]', eq(tuple(r), exp) if isinstance(r, tuple) else False,
                      info='loc == (lineno-1, b2c(col_offset), end_lineno-1, b2c(end_col_offset))')
            ctx.prove(f'{pre}.miss.stored_under_loc[{label}]', c.writes == ['loc'] and c.entries['loc'] is r)

    def run_bloc(ctx, case, loc, pre, label):
        c = Cache('self')
        locval = SObj('LOC', {}) if case['has_loc'] else None
        a = SObj('a', {'__class__': 'NotABlock'})
        self = SObj('self', {}, _cache=c, a=a, loc=locval)
        it = Interp({'ASTS_LEAF_BLOCK': frozenset(['Block']), 'fstloc': FSTLOC})
        cached0 = c._e('bloc')
        v0 = c.version
        r = it.call(IFunc(it, loc.node, None, 'bloc'), (self,))
        ctx.notes['outcome'] = 'return'
        if cached0 is not ABSENT:
            ctx.prove(f'{pre}.hit.returns_cached[{label}]', r is cached0)
            ctx.prove(f'{pre}.hit.no_write[{label}]', c.version == v0)
        else:
            ctx.prove(f'{pre}.miss.non_block_is_loc[{label}]', r is locval)
            ctx.prove(f'{pre}.miss.stored_under_bloc[{label}]', c.writes == ['bloc'] and c.entries['bloc'] is r)

    def run_pars_key(ctx, case, loc, pre, label):
        """the statements of FST.pars up to and including the cache lookup (selected structurally: everything before
        the first statement after the `try: return self._cache[key]`)"""
        body = [s for s in loc.node.body if not (isinstance(s, ast.Expr) and isinstance(s.value, ast.Constant))]
        k = None
        for i, s in enumerate(body):
            if isinstance(s, ast.Try):
                k = i
                break
        if k is None:
            raise LookupError('cannot locate the cache lookup of FST.pars')
        c = Cache('self')
        want = {True: 'parsT', False: 'parsF', None: 'parsN'}[case['shared']]
        present = {key: c._e(key) for key in ('parsT', 'parsF', 'parsN')}
        self = SObj('self', {}, _cache=c)
        it = Interp({})
        env = Env()
        env.vars.update(self=self, shared=case['shared'])
        v0 = c.version
        try:
            it.exec_block(body[:k + 1], env)
            ctx.notes['outcome'] = 'fallthrough'
            ctx.prove(f'{pre}.miss.only_when_key_absent[{label}]', present[want] is ABSENT)
            ctx.prove(f'{pre}.miss.key[{label}]', env.lookup('key') == want)
        except _Return as r:
            ctx.notes['outcome'] = 'return'
            ctx.prove(f'{pre}.hit.own_slot[{label}]', present[want] is not ABSENT and r.value is present[want],
                      info=f'pars(shared={case["shared"]}) must answer from cache slot {want!r} only')
        ctx.prove(f'{pre}.lookup.no_write[{label}]', c.version == v0)

    def run_ownl_key(ctx, case, loc, pre, label):
        """FST.own_lines from its first statement up to (not including) the cache lookup `if cached := self._cache.get(key)`:
        the slot is determined by the RESOLVED docstr value (argument, or the thread default when the argument is None),
        so a default that changes between two calls can never be answered from the other default's slot"""
        body = [s for s in loc.node.body if not (isinstance(s, ast.Expr) and isinstance(s.value, ast.Constant))]
        k = None
        for i, s in enumerate(body):
            if isinstance(s, ast.If) and '_cache.get' in ast.unparse(s.test):
                k = i
                break
        if k is None:
            raise LookupError('cannot locate the cache lookup of FST.own_lines')
        c = Cache('self')
        asked = []

        class _FST:
            @staticmethod
            def get_option(name, options=None):
                asked.append(name)
                return case['default']
        resolved = case['default'] if case['docstr'] is None else case['docstr']
        want = {'strict': 'ownlS', True: 'ownlT', False: 'ownlF'}[resolved]
        self = SObj('self', {}, _cache=c, parent=SObj('parent', {}), loc=FSTLOC(0, 0, 1, 0))
        it = Interp({'FST': _FST, 'OPCLS2STR': {}})
        env = Env()
        env.vars.update(self=self, whole=True, docstr=case['docstr'])
        v0 = c.version
        it.exec_block(body[:k], env)
        ctx.notes['outcome'] = 'fallthrough'
        ctx.prove(f'{pre}.key_of_resolved_value[{label}]', env.lookup('key') == want,
                  info=f'own_lines(docstr={case["docstr"]!r}) with thread default {case["default"]!r} must use slot {want!r}')
        ctx.prove(f'{pre}.docstr_resolved[{label}]', env.lookup('docstr') == resolved)
        ctx.prove(f'{pre}.default_read_only_when_none[{label}]', (asked == ['docstr']) == (case['docstr'] is None) and
                  len(asked) <= 1)
        ctx.prove(f'{pre}.no_write_before_lookup[{label}]', c.version == v0)

    def run_coord(ctx, case, loc, pre, label):
        name = case['attr']
        locv = None
        if case['has_loc']:
            locv = FSTLOC(ctx.int('ln'), ctx.int('col'), ctx.int('end_ln'), ctx.int('end_col'))
        root = SObj('root', {}, _lines=Lines())
        self = SObj('self', {}, loc=locv, root=root)
        it = Interp({})
        r = it.call(IFunc(it, loc.node, None, name), (self,))
        ctx.notes['outcome'] = 'return'
        if locv is None:
            ctx.prove(f'{pre}.none_without_loc[{label}]', r is None)
            return
        exp = {'lineno': locv.ln + 1, 'end_lineno': locv.end_ln + 1,
               'col_offset': _wrap_int(C2B(sym._z(locv.ln), sym._z(locv.col))),
               'end_col_offset': _wrap_int(C2B(sym._z(locv.end_ln), sym._z(locv.end_col)))}[name]
        ctx.prove(f'{pre}.value[{label}]', eq(r, exp))

    flags = [dict(parents=p, self_=s) for p in (True, False) for s in (True, False)]
    return [
        Fragment('fst_core:_touch', prop, 'touch', [dict()], run_touch),
        Fragment('fst_core:_touchall', prop, 'touchall.parents', flags, run_touchall, min_obligations=3,
                 notes='children=False; parent chain of symbolic depth, loop invariant at a skolem ancestor index; the '
                       'children worklist (children=True) is NOT proved (needs reachability), bounded only'),
        Fragment('fst:FST.loc', prop, 'memo.loc', [dict()], run_loc, min_obligations=2),
        Fragment('fst:FST.bloc', prop, 'memo.bloc', [dict(has_loc=True), dict(has_loc=False)], run_bloc,
                 min_obligations=2, notes='non-block nodes; the block branch (decorators, trailing comment) is bounded'),
        Fragment('fst:FST.pars', prop, 'memo.pars', [dict(shared=x) for x in (True, False, None)], run_pars_key,
                 min_obligations=2, notes='cache-key selection and lookup fragment only'),
        Fragment('fst:FST.own_lines', prop, 'memo.own_lines',
                 [dict(docstr=d, default=t) for d in (None, True, False, 'strict') for t in (True, False, 'strict')],
                 run_ownl_key, min_obligations=3, notes='cache-key selection up to the lookup; non-root node with a location'),
    ] + [Fragment(f'fst:FST.{n}', 'C06' if prop == 'C06' else prop, f'coords.{n}',
                  [dict(attr=n, has_loc=h) for h in (True, False)], run_coord)
         for n in ('lineno', 'col_offset', 'end_lineno', 'end_col_offset')]


def loc_arguments_specs(prop='C06'):
    """fst_locs:_loc_arguments (function definitions): the argument list spans exactly the text between its delimiters.
    Against the contracts of the text scanners (next_find: first occurrence of the needle at or after the given start,
    prev_find: last occurrence before the given end - both assumed, they are string searches):
      open.search_starts_after_every_type_parameter   the '(' is looked for from the END of the LAST type parameter (any
                                                       number of them; an earlier one would find a '(' inside a bound)
      open.search_starts_at_the_def                    ... or from the start of the def when there are none
      close.search_window                              the ')' is looked for backwards from the bound of the whole list to
                                                       the end of the last child (or just after the '(' when empty)
      result                                           (line, col + 1 of the '(')  ..  position of the ')'"""
    from pyvc import values
    from pyvc.contract import Fragment
    from pyvc.interp import Interp, IFunc, SObj, ABSENT
    import collections
    FSTLOC = collections.namedtuple('fstloc', 'ln col end_ln end_col')

    def run(ctx, case, loc, pre, label):
        calls = []
        n_tp = ctx.int('n_type_params')
        tstar = ctx.int('tstar')
        ctx.assume(and_(n_tp >= 0))
        P = FSTLOC(ctx.int('p_ln'), ctx.int('p_col'), ctx.int('p_end_ln'), ctx.int('p_end_col'))

        def tp_elem(i):
            return SObj('tp', {}, f=SObj('tpf', {}, loc=FSTLOC(ctx.int(f'tp{case["k"]}_ln_{i}'), ctx.int(f'tp_col_{i}'),
                                                              _TPL(i), _TPC(i))))
        import z3
        from pyvc import sym
        from pyvc.sym import _wrap_int
        TPL = z3.Function('tp_end_ln', z3.IntSort(), z3.IntSort())
        TPC = z3.Function('tp_end_col', z3.IntSort(), z3.IntSort())

        def _TPL(i):
            return _wrap_int(TPL(sym._z(i)))

        def _TPC(i):
            return _wrap_int(TPC(sym._z(i)))
        tps = values.SList.of_base(values.ListBase('type_params', tp_elem, n_tp)) if case['tp'] else None
        FUNCDEF = SObj('FunctionDef', {})
        parenta = SObj('parenta', {}, **{'__class__': FUNCDEF})
        if case['tp'] is not None:
            parenta._set('type_params', tps if case['tp'] else [], count=False)
        parent = SObj('parent', {}, a=parenta, loc=P)
        last = None
        if case['children']:
            last = SObj('last_child', {}, loc=FSTLOC(ctx.int('c_ln'), ctx.int('c_col'), ctx.int('c_end_ln'), ctx.int('c_end_col')))
        B = (ctx.int('bound_ln'), ctx.int('bound_col'))
        self = SObj('self', {}, a=SObj('a', {}, **{'__class__': 'arguments'}), parent=parent, root=SObj('root', {}, _lines='LINES'))
        self._set('last_child', lambda: last, count=False)
        self._set('_next_bound', lambda: B, count=False)
        O = (ctx.int('open_ln'), ctx.int('open_col'))
        C = (ctx.int('close_ln'), ctx.int('close_col'))

        def next_find(lines, ln, col, end_ln, end_col, src, *a, **k):
            calls.append(('next', ln, col, end_ln, end_col, src))
            return O

        def prev_find(lines, ln, col, end_ln, end_col, src, *a, **k):
            calls.append(('prev', ln, col, end_ln, end_col, src))
            return C
        it = Interp({'next_find': next_find, 'prev_find': prev_find, 'fstloc': FSTLOC, 'arguments': 'arguments',
                     'Lambda': SObj('Lambda', {}), 'ASTS_LEAF_FUNCDEF': frozenset([FUNCDEF])})
        it.globals['getattr'] = lambda o, nm, d=None: (lambda v: d if v is ABSENT else v)(o._get(nm))
        f = IFunc(it, loc.node, None, '_loc_arguments')
        r = it.call(f, (self,))
        ctx.notes['outcome'] = 'return'
        nx = [c for c in calls if c[0] == 'next']
        pv = [c for c in calls if c[0] == 'prev']
        ok = len(nx) == 1 and len(pv) == 1 and nx[0][5] == '(' and pv[0][5] == ')'
        ctx.prove(f'{pre}.one_search_each[{label}]', ok)
        if not ok:
            return
        has_tp = case['tp'] and truth(n_tp > 0)
        if has_tp:
            ctx.prove(f'{pre}.open.search_starts_after_every_type_parameter[{label}]',
                      eq((nx[0][1], nx[0][2]), (_TPL(n_tp - 1), _TPC(n_tp - 1))),
                      info="the '(' search starts at the end of the LAST type parameter")
        else:
            ctx.prove(f'{pre}.open.search_starts_at_the_def[{label}]', eq((nx[0][1], nx[0][2]), (P.ln, P.col)))
        ctx.prove(f'{pre}.open.search_ends_at_the_def_end[{label}]', eq((nx[0][3], nx[0][4]), (P.end_ln, P.end_col)))
        if last is not None:
            ctx.prove(f'{pre}.close.search_window[{label}]',
                      eq((pv[0][1], pv[0][2], pv[0][3], pv[0][4]), (last.loc.end_ln, last.loc.end_col, B[0], B[1])))
        else:
            ctx.prove(f'{pre}.close.search_window[{label}]',
                      eq((pv[0][1], pv[0][2], pv[0][3], pv[0][4]), (O[0], O[1] + 1, B[0], B[1])))
        ctx.prove(f'{pre}.result[{label}]', eq(tuple(r), (O[0], O[1] + 1, C[0], C[1])),
                  info='from just past the opening parenthesis to the closing parenthesis')

    cases = [dict(tp=t, children=c, k=k) for k, (t, c) in enumerate([(True, True), (True, False), (False, True), (None, True),
                                                                    (None, False)])]
    return [Fragment('fst_locs:_loc_arguments', prop, 'loc.arguments', cases, run, min_obligations=3,
                     notes='FunctionDef / AsyncFunctionDef parent; next_find / prev_find under assumed contracts (string '
                           'searches); any number of type parameters')]


def flush_structural(rep, prop='C02'):
    """C02.flush.raw_put (structural, all of src/fst): a _put_src call WITHOUT the tail argument splices text without
    offsetting - and therefore without the cache flush the offset walk performs.  Every such call on a live tree must be
    followed, later in the same block and before control can leave it, by `<same receiver>._touchall(True, ...)`, which flushes the
    whole parent chain (a block statement's cached `bloc` includes the line comment of its last child).  Receivers that
    are private copies / trees under construction are exempt and listed."""
    import ast
    import glob
    import os
    from pyvc import frontend
    PRIVATE = {'copy_root', 'fst_', 'put_fst', 'code', 'new_fst', 'tmp', 'copy'}
    sites, exempt = [], []

    def visit_block(stmts, fn, mod):
        for i, st in enumerate(stmts):
            for n in ast.walk(st) if isinstance(st, (ast.Expr, ast.Assign, ast.AugAssign, ast.AnnAssign, ast.Return)) else []:
                if isinstance(n, ast.Call) and isinstance(n.func, ast.Attribute) and n.func.attr == '_put_src':
                    plain = [a for a in n.args if not isinstance(a, ast.Starred)]
                    starred = [a for a in n.args if isinstance(a, ast.Starred)]
                    nargs = len(plain) + 4 * len(starred)
                    if nargs > 5 or any(k.arg == 'tail' for k in n.keywords):
                        continue
                    recv = ast.unparse(n.func.value)
                    if recv.split('.')[0] in PRIVATE:
                        exempt.append((mod, fn.name, n.lineno, recv))
                        continue
                    ok = False
                    for nxt in stmts[i + 1:]:      # later in the same block, before control can leave it
                        if isinstance(nxt, (ast.Return, ast.Raise, ast.Break, ast.Continue)):
                            break
                        if (isinstance(nxt, ast.Expr) and isinstance(nxt.value, ast.Call)
                                and isinstance(nxt.value.func, ast.Attribute) and nxt.value.func.attr == '_touchall'
                                and ast.unparse(nxt.value.func.value) == recv and nxt.value.args
                                and isinstance(nxt.value.args[0], ast.Constant) and nxt.value.args[0].value is True):
                            ok = True
                            break
                        if any(isinstance(x, (ast.Return, ast.Raise)) for x in ast.walk(nxt)):
                            break                  # a nested exit before the flush: not accepted
                    sites.append((mod, fn.name, n.lineno - fn.lineno, recv, ok))
            for fld in ('body', 'orelse', 'finalbody'):
                sub = getattr(st, fld, None)
                if isinstance(sub, list) and sub and isinstance(sub[0], ast.stmt):
                    visit_block(sub, fn, mod)
            for h in getattr(st, 'handlers', []) or []:
                visit_block(h.body, fn, mod)
    for path in sorted(glob.glob(os.path.join(frontend.SRC, '*.py'))):
        mod = os.path.basename(path)[:-3]
        tree = frontend.module(mod).tree
        for fn in ast.walk(tree):
            if isinstance(fn, (ast.FunctionDef, ast.AsyncFunctionDef)):
                visit_block(fn.body, fn, mod)

    class _S:
        name = 'flush after a non-offsetting text splice (structural)'
        notes = 'every _put_src without tail on a live receiver is followed by <receiver>._touchall(True, ...)'
    seen = set()
    for mod, fname, rel, recv, ok in sites:
        key = f'{prop}.flush.raw_put.{mod}.{fname}.L{rel}'
        if (mod, fname) not in seen:
            seen.add((mod, fname))
            try:
                q = fname
                rep.function(frontend.locate(f'{mod}:{q}'), _S)
            except Exception:
                pass
        rep.other('structural', key, ok, detail=f'{recv}._put_src(...) without tail at line +{rel} of {mod}:{fname}',
                  key=f'{prop}.flush.raw_put.{mod}.{fname}',
                  replay={'site': [mod, fname, rel, recv], 'verifier_output': 'the statement after the splice is not '
                          '<receiver>._touchall(True, ...): cached locations of the parents (bloc) go stale'})
    rep.extra['raw_put_sites'] = [list(s) for s in sites]
    rep.extra['raw_put_exempt_private_receivers'] = [list(s) for s in exempt]
    if len(sites) < 2:
        rep.checker_error(f'only {len(sites)} non-offsetting _put_src sites found (anchor changed?)')
    return sites, exempt
