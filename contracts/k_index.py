"""Contracts for the index layer: fst_misc:fixup_one_index, fixup_slice_indices, clip_src_loc.

Spec functions are Python's own container semantics (slice.indices / list indexing), written once with pyvc.logic
helpers so they run symbolically (proof) and natively (replay, bounded pre-validation).
"""
from pyvc.logic import *  # noqa: F401,F403
from pyvc.logic import SYMBOLIC, and_, or_, not_, implies, ite, smin, smax, eq, slen


# ---------------------------------------------------------------------------------------------------------------------
# spec: Python list semantics

def is_end(v):
    return isinstance(v, str) and v == 'end' or v is None


def pybound(n, v, default):
    """One bound of slice(start, stop).indices(n) (step 1); pfst's 'end' designates len (for start and for stop)."""
    if is_end(v):
        return n
    return ite(v < 0, smax(v + n, 0), smin(v, n))


def pyslice(n, start, stop):
    return pybound(n, start, 0), pybound(n, stop, n)


def pyindex_ok(n, i):
    """list indexing `l[i]` with len(l) == n succeeds."""
    if is_end(i):
        return False
    return and_(-n <= i, i < n)


def pyindex(n, i):
    return ite(i < 0, i + n, i)


# ---------------------------------------------------------------------------------------------------------------------
# contracts (shared lambdas)

def req_fixup(len_, start_at, **_):
    return and_(len_ >= 0, 0 <= start_at, start_at <= len_)


def ens_fixup_slice(result, len_, start, stop, start_at):
    m = len_ - start_at
    s, e = pyslice(m, start, stop)
    return eq(result, (start_at + s, start_at + e))


def inverted(len_, start, stop, start_at):
    m = len_ - start_at
    s, e = pyslice(m, start, stop)
    return e < s


def ens_fixup_one(result, len_, idx, start_at):
    return eq(result, start_at + pyindex(len_ - start_at, idx))


def raises_fixup_one(len_, idx, start_at):
    return not_(pyindex_ok(len_ - start_at, idx))


# clip_src_loc: source coordinates ----------------------------------------------------------------------------------

def nlines(self):
    return slen(self.root._lines)


def linelen(self, k):
    return slen(self.root._lines[k])


def norm_ln(n, v):
    """line index with 'end' = last, negative = from end, then clipped into [0, n-1]"""
    if is_end(v):
        return n - 1
    v = ite(v < 0, v + n, v)
    return smax(0, smin(n - 1, v))


def raw_ln(n, v):
    if is_end(v):
        return n - 1
    return ite(v < 0, v + n, v)


def norm_col(length, v):
    if is_end(v):
        return length
    return ite(v < 0, smax(0, v + length), smin(v, length))


def clip_spec(self, ln, col, end_ln, end_col):
    n = nlines(self)
    l2, e2 = norm_ln(n, ln), norm_ln(n, end_ln)
    return l2, norm_col(linelen(self, l2), col), e2, norm_col(linelen(self, e2), end_col)


def ens_clip(result, self, ln, col, end_ln, end_col):
    return eq(result, clip_spec(self, ln, col, end_ln, end_col))


def ens_clip_valid(result, self, ln, col, end_ln, end_col):
    n = nlines(self)
    l2, c2, e2, ec2 = result
    return and_(0 <= l2, l2 <= e2, e2 < n, 0 <= c2, c2 <= linelen(self, l2), 0 <= ec2, ec2 <= linelen(self, e2),
                or_(l2 < e2, c2 <= ec2))


def ens_clip_identity(result, self, ln, col, end_ln, end_col):
    """already valid coordinates are returned unchanged"""
    if is_end(ln) or is_end(col) or is_end(end_ln) or is_end(end_col):
        return True
    n = nlines(self)
    valid = and_(0 <= ln, ln <= end_ln, end_ln < n, 0 <= col, 0 <= end_col)
    if not truth(valid):
        return True
    valid2 = and_(col <= linelen(self, ln), end_col <= linelen(self, end_ln))
    return implies(valid2, eq(result, (ln, col, end_ln, end_col)))


def raises_clip(self, ln, col, end_ln, end_col):
    """IndexError exactly when the end precedes the start"""
    n = nlines(self)
    if truth(raw_ln(n, ln) > raw_ln(n, end_ln)):
        return True
    l2, c2, e2, ec2 = clip_spec(self, ln, col, end_ln, end_col)
    return and_(eq(l2, e2), c2 > ec2)


# ---------------------------------------------------------------------------------------------------------------------
# native replays

def _arg(model, name, info):
    case = (info or {}).get('case', '')
    for part in case.split(','):
        if part.startswith(name + '=') and not part.endswith('=int'):
            return eval(part.split('=', 1)[1])
    return model.get(name, 0)


def replay_fixup_slice(payload):
    from fst.fst_misc import fixup_slice_indices
    m, info = payload['model'], payload['info']
    len_, start, stop, start_at = (_arg(m, k, info) for k in ('len_', 'start', 'stop', 'start_at'))
    call = f'fixup_slice_indices({len_!r}, {start!r}, {stop!r}, {start_at!r})'
    lst = list(range(start_at, len_))
    exp = slice(len(lst) if start == 'end' else start, len(lst) if stop == 'end' else stop).indices(len(lst))[:2]
    exp = (exp[0] + start_at, exp[1] + start_at)
    try:
        got = fixup_slice_indices(len_, start, stop, start_at)
    except IndexError as e:
        return {'call': call, 'observed': f'IndexError: {e}', 'python_list_semantics': exp,
                'reproduced': True, 'kind': 'refused'}
    return {'call': call, 'observed': got, 'python_list_semantics': exp, 'reproduced': tuple(got) != exp}


def replay_fixup_one(payload):
    from fst.fst_misc import fixup_one_index
    m, info = payload['model'], payload['info']
    len_, idx, start_at = (_arg(m, k, info) for k in ('len_', 'idx', 'start_at'))
    call = f'fixup_one_index({len_!r}, {idx!r}, {start_at!r})'
    lst = list(range(start_at, len_))
    try:
        exp = lst[idx] if idx != 'end' else IndexError
    except IndexError:
        exp = IndexError
    try:
        got = fixup_one_index(len_, idx, start_at)
    except IndexError:
        got = IndexError
    return {'call': call, 'observed': str(got), 'python_list_semantics': str(exp), 'reproduced': got != exp}


def replay_clip(payload):
    from fst import FST
    m, info = payload['model'], payload['info']
    n = max(1, m.get('len(L)', 1))
    lens = {}
    for k, v in m.items():
        pass
    ln, col, end_ln, end_col = (_arg(m, k, info) for k in ('ln', 'col', 'end_ln', 'end_col'))
    # line lengths are uninterpreted in the model: try a few shapes
    def line(width):
        return '#' + 'x' * (width - 1) if width else ''
    shapes = [[w] * n for w in (0, 1, 3, 7)] + [[2 * i + 1 for i in range(n)], [2 * (n - i) + 1 for i in range(n)],
                                                [(5 * i + 3) % 7 for i in range(n)]]
    for widths in shapes:
        src = '\n'.join(line(w) for w in widths)
        f = FST(src, 'exec')
        args = (ln, col, end_ln, end_col)
        try:
            got = f.clip_src_loc(*args) if hasattr(f, 'clip_src_loc') else None
            if got is None:
                from fst.fst_misc import clip_src_loc
                got = clip_src_loc(f, *args)
            raised = False
        except IndexError:
            got, raised = None, True
        exp_raise = bool(raises_clip(f, *args))
        if raised != exp_raise:
            return {'call': f'clip_src_loc(FST({src!r}), {args})', 'observed': 'IndexError' if raised else got,
                    'expected_raise': exp_raise, 'reproduced': True}
        if not raised:
            exp = clip_spec(f, *args)
            if tuple(got) != tuple(exp):
                return {'call': f'clip_src_loc(FST({src!r}), {args})', 'observed': got, 'expected': exp,
                        'reproduced': True}
    return {'reproduced': False, 'note': 'model did not reproduce on 7 line shapes'}


# ---------------------------------------------------------------------------------------------------------------------
# symbolic specs

def specs(prop='C03'):
    from pyvc.contract import Fn, INT
    from pyvc.interp import SObj
    from pyvc import values

    def one_call_twice(it, f, args):
        r1 = it.call(f, (), args)
        r2 = it.call(f, (args['len_'], r1[0], r1[1], 0), {})
        return (r1, r2)

    def build_clip(ctx, case):
        lb = values.str_list('L')
        lines = values.SList.of_base(lb)
        root = SObj('root', {}, _lines=lines)
        self = SObj('self', {}, root=root)
        args = {'self': self}
        for n, v in case.items():
            args[n] = ctx.int(n) if v == INT else v
        return args

    out = [
        Fn('fst_misc:fixup_slice_indices', prop,
           params=dict(len_=INT, start=(INT, 'end'), stop=(INT, 'end'), start_at=INT),
           requires=req_fixup,
           ensures={'post': ens_fixup_slice,
                    'normalised': lambda result, len_, start, stop, start_at:
                        and_(start_at <= result[0], result[0] <= len_, start_at <= result[1], result[1] <= len_)},
           raises={IndexError: inverted}, raises_exact=False,
           native=('k_index', 'replay_fixup_slice'),
           notes='post: equals start_at + slice(start, stop).indices(len_-start_at); refusal only for inverted slices'),
        Fn('fst_misc:fixup_slice_indices', prop, name='fixup_slice_indices.idempotent',
           params=dict(len_=INT, start=(INT, 'end'), stop=(INT, 'end'), start_at=INT),
           requires=req_fixup, call=one_call_twice,
           ensures={'idempotent': lambda result, **a: eq(result[0], result[1])},
           raises={IndexError: inverted}, raises_exact=False,
           native=('k_index', 'replay_fixup_slice')),
        Fn('fst_misc:fixup_one_index', prop,
           params=dict(len_=INT, idx=(INT, 'end'), start_at=INT),
           requires=req_fixup, ensures={'post': ens_fixup_one},
           raises={IndexError: raises_fixup_one}, raises_exact=True,
           native=('k_index', 'replay_fixup_one')),
        Fn('fst_misc:clip_src_loc', prop,
           params=dict(ln=(INT, 'end'), col=(INT, 'end'), end_ln=(INT, 'end'), end_col=(INT, 'end')),
           build=build_clip,
           requires=lambda self, **a: nlines(self) >= 1,
           ensures={'post': ens_clip, 'valid': ens_clip_valid, 'identity': ens_clip_identity},
           raises={IndexError: raises_clip}, raises_exact=True,
           native=('k_index', 'replay_clip')),
    ]
    return out


def refusal_specs(prop='C03'):
    """The property-level claim: a request whose result is valid Python is carried out rather than refused.
    Python treats an inverted slice as empty; pfst refuses it (known finding F-C03-1)."""
    from pyvc.contract import Fn, INT
    return [Fn('fst_misc:fixup_slice_indices', prop, name='fixup_slice_indices.no_refusal',
               params=dict(len_=INT, start=(INT, 'end'), stop=(INT, 'end'), start_at=INT),
               requires=req_fixup, ensures={'returns': lambda result, **a: True},
               raises={IndexError: lambda **a: False}, raises_exact=False,
               native=('k_index', 'replay_fixup_slice'))]


# ---------------------------------------------------------------------------------------------------------------------
# C03.callsite (structural): every slice handler normalises its (start, stop) through fixup_slice_indices before it
# uses them - the proved index contract is then what every handler's indices obey.

def callsite_structural(rep, prop='C03'):
    import ast
    from pyvc import frontend
    registered, skipped = [], []
    targets = []
    for modname, tables in (('fst_put_slice', ['_PUT_SLICE_HANDLERS']), ('fst_get_slice', ['_GET_SLICE_HANDLERS'])):
        mod = frontend.module(modname)
        names = set()
        for t in tables:
            d = frontend.module_assign(modname, t)
            for v in d.values:
                for n in ast.walk(v):
                    if isinstance(n, ast.Name) and n.id.startswith(('_put_slice', '_get_slice', 'put_slice', 'get_slice')):
                        names.add(n.id)
        funcs = {n.name: n for n in mod.tree.body if isinstance(n, ast.FunctionDef)}
        for nm in sorted(names):
            if nm in funcs:
                targets.append((modname, nm, funcs[nm]))

    class _S:
        name = 'call-site discipline (structural): indices normalised before use'
        notes = 'first use of start/stop is the rebinding through fixup_slice_indices(<len ...>, start, stop[, start_at])'
    for modname, nm, fn in targets:
        params = [a.arg for a in fn.args.posonlyargs + fn.args.args + fn.args.kwonlyargs]
        if 'start' not in params or 'stop' not in params:
            skipped.append((nm, 'no start/stop parameters'))
            continue
        uses = sorted(((n.lineno, n.col_offset, n) for n in ast.walk(fn)
                       if isinstance(n, ast.Name) and n.id in ('start', 'stop') and isinstance(n.ctx, ast.Load)),
                      key=lambda t: t[:2])
        fix = None
        for st in fn.body:      # top-level statement: dominates everything after it
            if (isinstance(st, ast.Assign) and isinstance(st.value, ast.Call) and isinstance(st.value.func, ast.Name)
                    and st.value.func.id == 'fixup_slice_indices'):
                fix = st
                break
        ident = f'{modname}:{nm}'
        if fix is None:
            # pure delegation: start/stop only ever handed on, in order, to another slice function
            ok_deleg = bool(uses) and all(_is_passthrough(fn, u[2]) for u in uses)
            if not ok_deleg:
                skipped.append((nm, 'no top-level fixup_slice_indices and not a pure delegation'))
                continue
            kind, ok, detail = 'delegates', True, 'start/stop are only handed on to another slice function'
        else:
            a = fix.value.args
            tg = fix.targets[0]
            ok = (len(a) >= 3 and isinstance(a[1], ast.Name) and a[1].id == 'start' and isinstance(a[2], ast.Name)
                  and a[2].id == 'stop' and isinstance(tg, ast.Tuple) and [getattr(e, 'id', None) for e in tg.elts] ==
                  ['start', 'stop'] and _is_len_expr(fn, a[0]))
            early = [u for u in uses if (u[0], u[1]) < (fix.lineno, fix.col_offset)]
            ok = ok and not early
            kind = 'fixup'
            detail = (f'line {fix.lineno - fn.lineno}: {ast.unparse(fix)[:90]}' +
                      (f'; start/stop read before that at lines {[u[0] - fn.lineno for u in early]}' if early else ''))
        try:
            loc = frontend.locate(ident)
        except frontend.ExtractionError:
            skipped.append((nm, 'not a live definition'))
            continue
        rep.function(loc, _S)
        name = f'{prop}.callsite.{nm}'
        rep.other('structural', name, ok, detail=detail, key=name,
                  replay={'function': ident, 'kind': kind, 'detail': detail,
                          'verifier_output': 'structural call-site analysis'})
        registered.append(nm)
    rep.extra['callsite_registered'] = len(registered)
    rep.extra['callsite_not_registered'] = skipped[:40]
    if len(registered) < 40:
        rep.checker_error(f'only {len(registered)} slice handlers analysed (anchor changed?)')
    return registered, skipped


def _is_len_expr(fn, e, depth=0):
    """an expression built from len(...) - directly, or through locals each assigned from such an expression"""
    import ast
    if depth > 3:
        return False
    if any(isinstance(c, ast.Call) and isinstance(c.func, ast.Name) and c.func.id == 'len' for c in ast.walk(e)):
        return True
    for nm in [n for n in ast.walk(e) if isinstance(n, ast.Name) and isinstance(n.ctx, ast.Load)]:
        defs = [n for n in ast.walk(fn) if isinstance(n, (ast.Assign, ast.NamedExpr)) and
                any(isinstance(t, ast.Name) and t.id == nm.id for t in
                    (n.targets if isinstance(n, ast.Assign) else [n.target]))]
        if defs and all(_is_len_expr(fn, d.value, depth + 1) for d in defs):
            return True
    return False


def _is_passthrough(fn, name_node):
    import ast
    for n in ast.walk(fn):
        if isinstance(n, ast.Call) and any(a is name_node for a in n.args):
            f = n.func
            fname = f.id if isinstance(f, ast.Name) else getattr(f, 'attr', '')
            return 'slice' in fname or fname in ('handler',)
    return False
