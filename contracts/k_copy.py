"""Contract for astutil:copy_ast (C07: a copy is self-contained - it shares no node with the tree it was taken from).

    requires  `ast` is None or an AST node whose fields hold an AST node, a list (of AST nodes, None, primitives in any
              mixture - arguments.kw_defaults, Dict.keys, Global.names) or a primitive
    ensures   None -> None; otherwise the result is a NEW node of the same class, and for every field
                AST child      -> the field of the result is the copy of the child (never the child itself)
                list           -> a new list object of the same length; position by position an AST element is replaced
                                  by its copy (never the element itself), everything else is kept
                anything else  -> the same value
              every attribute of `_attributes` present on the node is present with the same value on the result, an absent
              one stays absent; the node read from is not written.
The recursive calls are taken by contract (induction on the height of the tree: the call is only ever made on a child
or list element of the node - obligation `recursion.only_on_children`; termination = finite height, assumed).  The real
body is interpreted for every field-shape case below; lists are enumerated up to length 3 over the three element kinds
and the generalisation to any length is the structural obligation `listcomp.elementwise` (the list branch is a
comprehension over the field value whose element expression mentions only the comprehension variable)."""
import ast as _ast
import itertools


def specs(prop='C07'):
    from pyvc.contract import Fragment
    from pyvc.interp import Interp, IFunc, SObj, PyRaise, ABSENT

    class ASTMark:
        pass

    def run(ctx, case, loc, pre, label):
        made = []
        rec_calls = []
        writes = []

        def node(name, **kw):
            return SObj(name, {}, __isast=True, **kw)

        def mk_elem(kind, name):
            if kind == 'A':
                return node(name, _fields=(), _attributes=())
            return None if kind == 'N' else f'prim_{name}'
        shape = case['shape']
        fields, children = [], {}
        for i, sh in enumerate(shape):
            fn = f'f{i}'
            fields.append(fn)
            children[fn] = [mk_elem(k, f'{fn}_{j}') for j, k in enumerate(sh[1])] if sh[0] == 'L' else mk_elem(sh[0], fn)
        attrs = case['attrs']   # tuple of (name, present)

        def cls(**params):
            r = node('result', _fields=tuple(fields), _attributes=tuple(a for a, _ in attrs))
            r._params = params
            made.append(r)
            return r
        src = node('src', _fields=tuple(fields), _attributes=tuple(a for a, _ in attrs), **{'__class__': cls})
        for fn in fields:
            src._set(fn, children[fn], count=False)
        for a, present in attrs:
            if present:
                src._set(a, 7, count=False)
        allowed = [c for c in children.values() if isinstance(c, SObj)] + \
                  [e for c in children.values() if isinstance(c, list) for e in c if isinstance(e, SObj)]
        copies = {}

        def copy_stub(x):
            rec_calls.append(x)
            if x is None:
                return None
            if not isinstance(x, SObj):   # precondition of the callee violated (reported by recursion.only_on_children)
                return node('copy_of_non_node')
            copies[id(x)] = node(f'copy_of_{x._name}')
            return copies[id(x)]

        def isinst(o, t):
            if t is ASTMark:
                return isinstance(o, SObj) and o._get('__isast') is True
            if t is list:
                return isinstance(o, list)
            raise AssertionError(t)
        setattrs = {}

        def getattr_(o, n, *d):
            v = o._get(n)
            if v is ABSENT:
                if d:
                    return d[0]
                raise PyRaise(AttributeError(n))
            return v

        def setattr_(o, n, v):
            if o is src or any(o is a for a in allowed):
                writes.append((o._name, n))
            setattrs[(id(o), n)] = v
            o._set(n, v, count=False)
        it = Interp({'AST': ASTMark, 'isinstance': isinst, 'getattr': getattr_, 'setattr': setattr_, 'list': list})
        it.globals['copy_ast'] = copy_stub
        f = IFunc(it, loc.node, None, 'copy_ast')
        try:
            r = it.call(f, (src if not case.get('none') else None,))
        except PyRaise as pr:
            ctx.notes['outcome'] = f'raise {pr.cls.__name__}'
            ctx.prove(f'{pre}.never_raises[{label}]', False, info=repr(pr))
            return
        ctx.notes['outcome'] = 'return'
        if case.get('none'):
            ctx.prove(f'{pre}.none[{label}]', r is None and not made)
            return
        ctx.prove(f'{pre}.new_node_same_class[{label}]', len(made) == 1 and r is made[0] and r is not src)
        params = made[0]._params if made else {}
        ok_fields = set(params) == set(fields)
        fresh = True
        for fn in fields:
            want, got = children[fn], params.get(fn, '<missing>')
            if isinstance(want, SObj):
                ok_fields &= got is copies.get(id(want)) and got is not want
            elif isinstance(want, list):
                ok = isinstance(got, list) and got is not want and len(got) == len(want)
                if ok:
                    for w, g in zip(want, got):
                        if isinstance(w, SObj):
                            ok &= g is copies.get(id(w)) and g is not w
                            fresh &= g is not w
                        else:
                            ok &= g is w or g == w
                ok_fields &= ok
            else:
                ok_fields &= got is want or got == want
        ctx.prove(f'{pre}.fields_copied_position_by_position[{label}]', ok_fields,
                  info='every AST child / list element is replaced by ITS copy, everything else is kept, lists are new')
        ctx.prove(f'{pre}.shares_no_node[{label}]', fresh and all(not any(v is a for a in allowed)
                                                                 for v in params.values() if isinstance(v, SObj)))
        ctx.prove(f'{pre}.recursion.only_on_children[{label}]', all(any(x is a for a in allowed) or x is None for x in rec_calls))
        ok_attrs = True
        for a, present in attrs:
            has = (id(r), a) in setattrs if r is not None else False
            ok_attrs &= (has and setattrs[(id(r), a)] == 7) if present else not has
        ctx.prove(f'{pre}.attributes[{label}]', ok_attrs)
        ctx.prove(f'{pre}.frame.source_not_written[{label}]', not writes)

    kinds = 'ANP'
    lists = [tuple(c) for n in range(4) for c in itertools.product(kinds, repeat=n)]
    cases = [dict(none=True, shape=(), attrs=())]
    cases += [dict(shape=(('L', l),), attrs=()) for l in lists]
    cases += [dict(shape=(('A', ()),), attrs=()), dict(shape=(('N', ()),), attrs=()), dict(shape=(('P', ()),), attrs=()),
              dict(shape=(), attrs=()),
              dict(shape=(('A', ()), ('L', ('N', 'A')), ('P', ()), ('L', ('P', 'P'))), attrs=(('lineno', True), ('end_lineno', False))),
              dict(shape=(('L', ('A', 'N', 'A')), ('N', ())), attrs=(('lineno', False),)),
              dict(shape=(('P', ()),), attrs=(('lineno', True), ('col_offset', True)))]
    return [Fragment('astutil:copy_ast', prop, 'copy_ast', cases, run, min_obligations=1, native=('k_copy', 'replay_copy'),
                     notes='recursive calls by contract (structural induction); class constructor, getattr/setattr, isinstance '
                           'as recorded stubs; list shapes enumerated to length 3, generalised by listcomp.elementwise')]


def listcomp_structural(rep, prop='C07'):
    """the generalisation step: in copy_ast the value stored for a list field is a list comprehension with one `for`
    over the field value, no filter, whose element expression refers to no name but the comprehension variable and
    globals (copy_ast, isinstance, AST) - so the result is the element-wise image of the list, whatever its length"""
    from pyvc import frontend
    loc = frontend.locate('astutil:copy_ast')

    class _S:
        name = 'list branch is an element-wise comprehension (structural)'
        notes = ''
    rep.function(loc, _S)
    fn = loc.node
    probs, seen = [], 0
    local_names = {n.id for n in _ast.walk(fn) if isinstance(n, _ast.Name) and isinstance(n.ctx, _ast.Store)}
    for n in _ast.walk(fn):
        if isinstance(n, _ast.If):
            t = n.test
            if (isinstance(t, _ast.Call) and isinstance(t.func, _ast.Name) and t.func.id == 'isinstance'
                    and len(t.args) == 2 and isinstance(t.args[1], _ast.Name) and t.args[1].id == 'list'):
                seen += 1
                lst = t.args[0]
                if len(n.body) != 1 or not isinstance(n.body[0], _ast.Assign):
                    probs.append(f'line {n.lineno}: list branch is not a single assignment')
                    continue
                v = n.body[0].value
                if not (isinstance(v, _ast.ListComp) and len(v.generators) == 1 and not v.generators[0].ifs
                        and not v.generators[0].is_async and isinstance(v.generators[0].target, _ast.Name)
                        and _ast.dump(v.generators[0].iter) == _ast.dump(lst)):
                    probs.append(f'line {n.lineno}: the list field value is not `[<expr of c> for c in <the list>]`')
                    continue
                var = v.generators[0].target.id
                for m in _ast.walk(v.elt):
                    if isinstance(m, _ast.Name) and m.id != var and m.id in local_names:
                        probs.append(f'line {m.lineno}: element expression depends on local `{m.id}`')
    if not seen:
        rep.checker_error('astutil:copy_ast: no `isinstance(child, list)` branch found (anchor changed?)')
    name = f'{prop}.copy_ast.listcomp.elementwise'
    if probs:   # a different way of copying a list is not a violation: the generalisation step is just not established
        rep.undecided(name, 'the list branch of copy_ast is no longer an element-wise comprehension, the enumerated list shapes '
                      '(length <= 3) are not generalised to any length: ' + '; '.join(probs[:3]))
        return
    rep.other('structural', name, True, detail='list fields are copied by an element-wise comprehension', key=name,
              replay={'function': 'astutil:copy_ast', 'problems': [], 'verifier_output': 'syntactic shape analysis'})


REPLAY_SOURCES = ['def f(*, a, b=1, c, d=(2, 3)): pass', '{**a, b: c, **d, e: [f]}', 'global x, y', 'x = [a, (b, c), {d: e}]',
                  'def g(a, /, b=1, *c, d, e=2, **k) -> int:\n    return a[b:c, ::2]', 'f"{a!r:>{w}} {b}"', 'import a.b as c, d',
                  'match x:\n    case {"k": v, **r} | [1, *_]: pass', 'lambda *, a, b=1: (a < b <= 3)', 'class C(B, m=M): x: int = 1']


def replay_copy(payload):
    """native: copy_ast on real trees (every node of REPLAY_SOURCES): the copy must dump identically, share no node and no
    list object with the original, and the original must be unchanged"""
    import ast
    from fst.astutil import copy_ast
    n = 0
    for src in REPLAY_SOURCES:
        try:
            tree = ast.parse(src)
        except SyntaxError:
            continue
        for node in ast.walk(tree):
            n += 1
            d0 = ast.dump(node, include_attributes=True)
            try:
                c = copy_ast(node)
            except Exception as e:
                return {'reproduced': True, 'source': src, 'node': node.__class__.__name__, 'observed': repr(e)}
            orig = {id(x) for x in ast.walk(node)}
            lists = {id(v) for x in ast.walk(node) for v in vars(x).values() if isinstance(v, list)}
            shared = [x.__class__.__name__ for x in ast.walk(c) if id(x) in orig]
            shl = [k for x in ast.walk(c) for k, v in vars(x).items() if isinstance(v, list) and id(v) in lists]
            if shared or shl or ast.dump(c, include_attributes=True) != d0 or ast.dump(node, include_attributes=True) != d0:
                return {'reproduced': True, 'source': src, 'node': node.__class__.__name__,
                        'observed': f'copy shares nodes {shared[:4]} / list objects of fields {shl[:4]} with the original, or '
                                    'does not dump like it', 'expected': 'a structurally equal tree of new nodes and new lists'}
    return {'reproduced': False, 'candidates': n}
