"""C07 - copying never disturbs the tree; extraction is faithful and loses nothing."""
from contracts import k_order, k_copy
from pyvc.contract import verify_all
from pyvc import native


def run(rep, tier, seed):
    # structural frame obligation on the get handlers: with cut false nothing reachable from the source tree is written
    k_order.c07_copy_frame(rep, 'C07')
    # the AST copier under every copy: the result shares no node with the tree read from
    verify_all(rep, k_copy.specs('C07'))
    k_copy.listcomp_structural(rep, 'C07')
    for norm, copts in ((False, {}), (True, {}), (False, {'docstr': 'strict'}), (False, {'docstr': False})):
        sec = native.run('b_edit', 'main', {'props': ['C07'], 'tier': tier, 'seed': seed, 'ops': ['copy'],
                                            'norm': norm, 'copy_opts': copts})
        sec['name'] += f'[norm={norm},{copts}]'
        sec['native_entry'] = ('b_edit', 'replay')
        rep.bounded(sec)
    rep.remainder = ('faithfulness of the extracted piece and token conservation: bounded only; the copy frame of the 11 get '
                     'handlers that mutate the source temporarily and restore it (listed under copy_frame_not_registered), '
                     'and of callees that do not take `cut`, is bounded only')
