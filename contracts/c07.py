"""C07 - copying never disturbs the tree; extraction is faithful and loses nothing (bounded only)."""
from pyvc import native


def run(rep, tier, seed):
    for norm, copts in ((False, {}), (True, {}), (False, {'docstr': 'strict'}), (False, {'docstr': False})):
        sec = native.run('b_edit', 'main', {'props': ['C07'], 'tier': tier, 'seed': seed, 'ops': ['copy'],
                                            'norm': norm, 'copy_opts': copts})
        sec['name'] += f'[norm={norm},{copts}]'
        sec['native_entry'] = ('b_edit', 'replay')
        rep.bounded(sec)
    rep.remainder = 'everything: no deductive fragment for C07 (frame over a 10-deep call graph of handlers)'
