"""C06 - every reported location denotes exactly the text of its node."""
from contracts import k_bistr, k_cache
from pyvc.contract import verify_all
from pyvc import native


def run(rep, tier, seed):
    # pars() answers each of its three modes from that mode's own memo slot; coordinate accessors agree with .loc
    memo = [s for s in k_cache.specs('C06') if s.name == 'memo.pars' or s.name.startswith('coords.')]
    verify_all(rep, k_bistr.specs('C06') + memo + k_cache.loc_arguments_specs('C06'))
    k_bistr.units_structural(rep, 'C06')
    rep.assumptions.append('unit discipline: names following the conventions *col_offset / *colo / *col_delta / dcol* hold '
                           'byte quantities; lengths of the quote / operator tokens are ASCII')
    rep.assumptions.append('no Python string is longer than sys.maxsize bytes (bound on the values stored in bistr\'s '
                           'fixed-width arrays; the only machine-width arithmetic in the library)')
    sec = native.run('b_read', 'main', {'props': ['C06'], 'tier': tier, 'seed': seed}, timeout=7200)
    sec['native_entry'] = ('b_read', 'replay')
    rep.bounded(sec)
    rep.remainder = ('the regex / text scanners behind computed locations (common:next_frag/prev_frag/next_find/..., '
                     'fst_locs:_loc_*) and the find_* searches: bounded stand-in only; b2c off character boundaries')
