"""C06 - bounded read-only runtime contracts (see contracts/b_read.py)."""
from pyvc import native


def run(rep, tier, seed):
    sec = native.run('b_read', 'main', {'props': ['C06'], 'tier': tier, 'seed': seed}, timeout=7200)
    sec['native_entry'] = ('b_read', 'replay')
    rep.bounded(sec)
