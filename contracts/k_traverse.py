"""C14/P - the generated sibling-stepping functions (traverse_next.py / traverse_prev.py) against a syntactic ORDER table,
for ALL field lengths (lists are symbolic).

ORDER[cls] lists the child-bearing fields of each AST class in the order their text appears ('*' list, '?' optional).
It is written from the grammar, NOT derived from pfst, and is validated natively against CPython positions on the
corpus on every run (`validate_order`): children listed by ORDER must be sorted by (lineno, col_offset).  Classes
whose children interleave by position (Call, ClassDef bases/keywords, Dict, MatchMapping, Compare, arguments) and
functions that contain loops or call helper functions are *not* proved here (bounded stand-in only); they are listed
in evidence as not covered.
"""
import ast

ORDER = {
    'Module': ['body*', 'type_ignores*'], 'Interactive': ['body*'], 'Expression': ['body'],
    'FunctionType': ['argtypes*', 'returns'],
    'FunctionDef': ['decorator_list*', 'type_params*', 'args', 'returns?', 'body*'],
    'AsyncFunctionDef': ['decorator_list*', 'type_params*', 'args', 'returns?', 'body*'],
    'Return': ['value?'], 'Delete': ['targets*'], 'Assign': ['targets*', 'value'],
    'TypeAlias': ['name', 'type_params*', 'value'], 'AugAssign': ['target', 'op', 'value'],
    'AnnAssign': ['target', 'annotation', 'value?'],
    'For': ['target', 'iter', 'body*', 'orelse*'], 'AsyncFor': ['target', 'iter', 'body*', 'orelse*'],
    'While': ['test', 'body*', 'orelse*'], 'If': ['test', 'body*', 'orelse*'],
    'With': ['items*', 'body*'], 'AsyncWith': ['items*', 'body*'], 'Match': ['subject', 'cases*'],
    'Raise': ['exc?', 'cause?'], 'Try': ['body*', 'handlers*', 'orelse*', 'finalbody*'],
    'TryStar': ['body*', 'handlers*', 'orelse*', 'finalbody*'], 'Assert': ['test', 'msg?'],
    'Import': ['names*'], 'ImportFrom': ['names*'], 'Global': [], 'Nonlocal': [], 'Expr': ['value'], 'Pass': [],
    'Break': [], 'Continue': [],
    'BoolOp': ['op', 'values*'], 'NamedExpr': ['target', 'value'], 'BinOp': ['left', 'op', 'right'],
    'UnaryOp': ['op', 'operand'], 'Lambda': ['args', 'body'], 'IfExp': ['body', 'test', 'orelse'],
    'Set': ['elts*'], 'ListComp': ['elt', 'generators*'], 'SetComp': ['elt', 'generators*'],
    'DictComp': ['key', 'value', 'generators*'], 'GeneratorExp': ['elt', 'generators*'], 'Await': ['value'],
    'Yield': ['value?'], 'YieldFrom': ['value'], 'FormattedValue': ['value', 'format_spec?'],
    'Interpolation': ['value', 'format_spec?'], 'JoinedStr': ['values*'], 'TemplateStr': ['values*'], 'Constant': [],
    'Attribute': ['value', 'ctx'], 'Subscript': ['value', 'slice', 'ctx'], 'Starred': ['value', 'ctx'],
    'Name': ['ctx'], 'List': ['elts*', 'ctx'], 'Tuple': ['elts*', 'ctx'], 'Slice': ['lower?', 'upper?', 'step?'],
    'comprehension': ['target', 'iter', 'ifs*'], 'ExceptHandler': ['type?', 'body*'], 'arg': ['annotation?'],
    'keyword': ['value'], 'alias': [], 'withitem': ['context_expr', 'optional_vars?'],
    'match_case': ['pattern', 'guard?', 'body*'], 'MatchValue': ['value'], 'MatchSingleton': [],
    'MatchSequence': ['patterns*'], 'MatchClass': ['cls', 'patterns*', 'kwd_patterns*'], 'MatchStar': [],
    'MatchAs': ['pattern?'], 'MatchOr': ['patterns*'], 'TypeIgnore': [], 'TypeVar': ['bound?'], 'ParamSpec': [],
    'TypeVarTuple': [],
    # pfst's own container node kinds: a single list each
    '_ExceptHandlers': ['handlers*'], '_match_cases': ['cases*'], '_Assign_targets': ['targets*'],
    '_decorator_list': ['decorator_list*'], '_arglikes': ['arglikes*'], '_comprehensions': ['generators*'],
    '_comprehension_ifs': ['ifs*'], '_aliases': ['names*'], '_withitems': ['items*'], '_type_params': ['type_params*'],
}
SPECIAL = {'ClassDef', 'Call', 'Dict', 'MatchMapping', 'Compare', 'arguments', '_pattern_attrlikes'}
# leaf kinds (no children): operators, contexts
LEAVES = {'Load', 'Store', 'Del', 'And', 'Or', 'Add', 'Sub', 'Mult', 'MatMult', 'Div', 'Mod', 'Pow', 'LShift', 'RShift',
          'BitOr', 'BitXor', 'BitAnd', 'FloorDiv', 'Invert', 'Not', 'UAdd', 'USub', 'Eq', 'NotEq', 'Lt', 'LtE', 'Gt',
          'GtE', 'Is', 'IsNot', 'In', 'NotIn'}


def parse_field(f):
    if f.endswith('*'):
        return f[:-1], 'list'
    if f.endswith('?'):
        return f[:-1], 'opt'
    return f, 'one'


# ---------------------------------------------------------------------------------------------------------------------
# native: validate ORDER against CPython positions (spec check, exit 3 on disagreement - never a violation)

def validate_order(payload):
    from contracts import b_lib
    bad = []
    n_nodes = 0
    seen = set()
    for name, src in b_lib.load_corpus():
        for n in ast.walk(ast.parse(src)):
            cls = n.__class__.__name__
            if cls not in ORDER:
                continue
            seen.add(cls)
            n_nodes += 1
            pos = []
            for f in ORDER[cls]:
                fld, kind = parse_field(f)
                v = getattr(n, fld, None)
                items = v if isinstance(v, list) else ([v] if v is not None else [])
                for c in items:
                    if hasattr(c, 'lineno'):
                        pos.append(((c.lineno, c.col_offset), fld))
            if [p for p, _ in pos] != sorted(p for p, _ in pos):
                if cls in ('JoinedStr', 'FormattedValue'):
                    continue   # CPython places the debug-text Constant of `{x=}` inside the braces
                bad.append(f'{name}: {cls}@{getattr(n, "lineno", "?")}: ORDER {ORDER[cls]} is not position order: {pos[:6]}')
    return {'nodes': n_nodes, 'classes_seen': sorted(seen), 'bad': bad[:10], 'n_bad': len(bad)}


# ---------------------------------------------------------------------------------------------------------------------
# symbolic

def specs(prop='C14'):
    from pyvc import frontend, sym, values
    from pyvc.contract import Fragment
    from pyvc.interp import Interp, IFunc, SObj, PyRaise, Factory, ABSENT
    from pyvc.sym import truth, eq, cur, SInt
    from pyvc.logic import and_, slen

    class FRef:
        """the FST node of child (field, idx) - compared by field name and index term"""

        def __init__(self, field, idx):
            self.field, self.idx = field, idx

        def _sym_eq(self, o):
            if not isinstance(o, FRef) or o.field != self.field:
                return False
            if self.idx is None or o.idx is None:
                return self.idx is None and o.idx is None
            return eq(self.idx, o.idx)

        def __repr__(self):
            return f'F({self.field}[{self.idx}])'

    def make_node(cls):
        attrs = {}
        for f in ORDER[cls]:
            fld, kind = parse_field(f)
            if kind == 'one':
                attrs[fld] = SObj(f'{cls}.{fld}', {}, f=FRef(fld, None))
            elif kind == 'opt':
                def mk(o, a, fld=fld):
                    if truth(cur().bool(f'has_{fld}')):
                        return SObj(f'{cls}.{fld}', {}, f=FRef(fld, None))
                    return None
                attrs[fld] = Factory(mk)
            else:
                lb = values.ListBase(f'{cls}.{fld}', lambda i, fld=fld: SObj(f'{cls}.{fld}[]', {}, f=FRef(fld, i)))
                attrs[fld] = Factory(lambda o, a, lb=lb: values.SList.of_base(lb))
        return SObj(cls, attrs)

    def present_first(node, fields):
        """first child in `fields` (syntactic order) that exists"""
        for f in fields:
            fld, kind = parse_field(f)
            v = node._get(fld)
            if kind == 'one':
                return FRef(fld, None)
            if kind == 'opt':
                if v is not None:
                    return FRef(fld, None)
            elif truth(slen(v) > 0):
                return FRef(fld, 0)
        return None

    def present_last(node, fields):
        for f in reversed(fields):
            fld, kind = parse_field(f)
            v = node._get(fld)
            if kind == 'one':
                return FRef(fld, None)
            if kind == 'opt':
                if v is not None:
                    return FRef(fld, None)
            elif truth(slen(v) > 0):
                return FRef(fld, slen(v) - 1)
        return None

    def table(modname, varname):
        """(cls, field) -> function name, resolved through the real dict literal"""
        d = frontend.module_assign(modname, varname)
        out = {}
        for k, v in zip(d.keys, d.values):
            if isinstance(k, ast.Tuple) and len(k.elts) == 2 and isinstance(k.elts[0], ast.Name) \
                    and isinstance(k.elts[1], ast.Constant) and isinstance(v, ast.Name):
                out[(k.elts[0].id, k.elts[1].value)] = v.id
        return out

    def is_irregular(fnode):
        for n in ast.walk(fnode):
            if isinstance(n, (ast.For, ast.While)):
                return True
            if isinstance(n, ast.Call) and isinstance(n.func, ast.Name) and n.func.id.startswith(('_next_', '_prev_')):
                return True
        return False

    out = []
    notes = {'irregular': [], 'special_classes': sorted(SPECIAL), 'missing': []}
    for direction, modname, varname in (('next', 'traverse_next', 'NEXT_FUNCS'), ('prev', 'traverse_prev', 'PREV_FUNCS')):
        tbl = table(modname, varname)
        cases = []
        for cls, fields in ORDER.items():
            if cls in SPECIAL:
                continue
            for fld in [None] + [parse_field(f)[0] for f in fields]:
                fn = tbl.get((cls, fld))
                if fn is None:
                    if fields and cls not in ('Interpolation', 'TemplateStr', 'TryStar'):
                        notes['missing'].append(f'{varname}[({cls}, {fld!r})]')
                        cases.append(dict(cls=cls, field=fld, fn=None, dir=direction))
                    continue
                cases.append(dict(cls=cls, field=fld, fn=fn, dir=direction))

        def run(ctx, case, loc, pre, label, modname=modname, direction=direction):
            cls, fld, fn = case['cls'], case['field'], case['fn']
            name = f'{pre}.{direction}.{cls}.{fld or ("START" if direction == "next" else "END")}'
            if fn is None:
                ctx.prove(f'{name}.table_entry', False,
                          info=f'no entry ({cls}, {fld!r}) in the stepping table although {cls}.{fld} holds child nodes')
                return
            floc = frontend.locate(f'{modname}:{fn}')
            if is_irregular(floc.node):
                ctx.notes['outcome'] = 'skipped-irregular'
                ctx.prove(f'{name}.irregular_not_proved', True)
                return
            node = make_node(cls)
            fields = ORDER[cls]
            names = [parse_field(f)[0] for f in fields]
            idx = None
            if fld is not None:
                kind = dict(parse_field(f) for f in fields)[fld]
                v = node._get(fld)
                if kind == 'list':
                    idx = ctx.int('idx')
                    ctx.assume(and_(0 <= idx, idx < slen(v)))
                elif kind == 'opt' and v is None:
                    raise sym.PathAbort()
            it = Interp({'_next_None': None})
            f = IFunc(it, floc.node, None, fn)
            try:
                got = it.call(f, (node, idx))
            except PyRaise as pr:
                ctx.prove(f'{name}.no_raise', False, info=f'raised {pr.cls.__name__}: {pr.exc}')
                return
            # specification
            if direction == 'next':
                if fld is None:
                    exp = present_first(node, fields)
                else:
                    k = names.index(fld)
                    kind = parse_field(fields[k])[1]
                    if kind == 'list' and truth(idx + 1 < slen(node._get(fld))):
                        exp = FRef(fld, idx + 1)
                    else:
                        exp = present_first(node, fields[k + 1:])
            else:
                if fld is None:
                    exp = present_last(node, fields)
                else:
                    k = names.index(fld)
                    kind = parse_field(fields[k])[1]
                    if kind == 'list' and truth(idx > 0):
                        exp = FRef(fld, idx - 1)
                    else:
                        exp = present_last(node, fields[:k])
            ctx.notes['outcome'] = 'return'
            if exp is None:
                ctx.prove(name, got is None, info=f'expected None, got {got!r}')
            else:
                ctx.prove(name, eq(exp, got) if isinstance(got, FRef) else False, info=f'expected {exp!r}, got {got!r}')

        out.append(Fragment(f'{modname}:_{direction}_None', prop, f'step', cases, run, native=('k_traverse', 'replay_step'),
                            notes=f'{len(cases)} (class, field) entries of {varname} resolved through the dict literal; '
                                  'symbolic list lengths; spec = ORDER table validated against CPython positions'))
    return out, notes


def replay_step(payload):
    """native witness for the Module.type_ignores obligations: walk yields the TypeIgnore node, the stepping chain
    never reaches it and TypeIgnore.next() raises"""
    from fst import FST
    ob = payload.get('obligation', '')
    if 'Module' not in ob:
        return {'reproduced': False, 'note': 'native witness implemented for the Module obligations only'}
    f = FST('x = 1  # type: ignore\n', 'exec', type_comments=True)
    walked = [n.a.__class__.__name__ for n in f.walk(True, self_=False, recurse=False)]
    chain = []
    c = f.first_child(True)
    while c is not None and len(chain) < 10:
        chain.append(c.a.__class__.__name__)
        c = c.next(True)
    try:
        ti = [n for n in f.walk(True) if n.a.__class__.__name__ == 'TypeIgnore'][0]
        ti.next(True)
        nxt = 'ok'
    except Exception as e:
        nxt = repr(e)
    return {'walk_children': walked, 'first_child_next_chain': chain, 'TypeIgnore.next()': nxt,
            'reproduced': walked != chain}


# ---------------------------------------------------------------------------------------------------------------------
# interleaving classes: declarative rank-order specification
#   next(x) is the present child with the smallest rank above rank(x); prev(x) the one with the largest rank below.
# RANK gives (major, minor) per field as a function of the element index i and the lengths (all linear integer terms).

def rank_tables():
    def args_rank(L, field, i):
        n = L['posonlyargs'] + L['args']
        d = L['defaults']
        return {
            'posonlyargs': (0, 2 * i), 'args': (0, 2 * (L['posonlyargs'] + i)), 'defaults': (0, 2 * (n - d + i) + 1),
            'vararg': (1, 0), 'kwonlyargs': (2, 2 * i), 'kw_defaults': (2, 2 * i + 1), 'kwarg': (3, 0)}[field]
    return {
        'Dict': (['keys*?', 'values*'], lambda L, f, i: {'keys': (0, 2 * i), 'values': (0, 2 * i + 1)}[f],
                 lambda L: [L['keys'] == L['values']]),
        # MatchMapping.keys are never None in a valid tree (pfst uses None only transiently inside an operation)
        'MatchMapping': (['keys*', 'patterns*'], lambda L, f, i: {'keys': (0, 2 * i), 'patterns': (0, 2 * i + 1)}[f],
                         lambda L: [L['keys'] == L['patterns']]),
        'Compare': (['left', 'ops*', 'comparators*'],
                    lambda L, f, i: {'left': (-1, 0), 'ops': (0, 2 * i), 'comparators': (0, 2 * i + 1)}[f],
                    lambda L: [L['ops'] == L['comparators']]),
        'arguments': (['posonlyargs*', 'args*', 'defaults*', 'vararg?', 'kwonlyargs*', 'kw_defaults*?', 'kwarg?'],
                      args_rank,
                      lambda L: [L['defaults'] <= L['posonlyargs'] + L['args'], L['kw_defaults'] == L['kwonlyargs']]),
    }


def validate_ranks(payload):
    """native spec check: on the corpus, sorting the positioned children of every Dict / MatchMapping / Compare /
    arguments node by rank gives CPython position order"""
    from contracts import b_lib
    T = rank_tables()
    bad, n = [], 0
    for name, src in b_lib.load_corpus():
        for node in ast.walk(ast.parse(src)):
            cls = node.__class__.__name__
            if cls not in T:
                continue
            fields, rank, _ = T[cls]
            L = {}
            items = []
            for f in fields:
                fld = f.rstrip('*?')
                v = getattr(node, fld, None)
                if isinstance(v, list):
                    L[fld] = len(v)
            for f in fields:
                fld = f.rstrip('*?')
                v = getattr(node, fld, None)
                vs = list(enumerate(v)) if isinstance(v, list) else ([(0, v)] if v is not None else [])
                for i, c in vs:
                    if c is not None and hasattr(c, 'lineno'):
                        items.append((rank(L, fld, i), (c.lineno, c.col_offset), fld, i))
            n += 1
            by_rank = [p for _, p, _, _ in sorted(items, key=lambda t: t[0])]
            if by_rank != sorted(by_rank):
                bad.append(f'{name}: {cls}@{getattr(node, "lineno", "?")}: rank order is not position order')
    return {'nodes': n, 'n_bad': len(bad), 'bad': bad[:5]}


def special_specs(prop='C14'):
    import z3
    from pyvc import frontend, sym, values
    from pyvc.contract import Fragment
    from pyvc.interp import Interp, IFunc, SObj, PyRaise, Factory
    from pyvc.sym import truth, eq, cur, SInt, lex_lt
    from pyvc.logic import and_, or_, not_, implies, slen

    T = rank_tables()

    class FRef:
        def __init__(self, field, idx):
            self.field, self.idx = field, idx

        def __repr__(self):
            return f'F({self.field}[{self.idx}])'

    PRESENT = {}

    def present_fn(cls, fld):
        k = (cls, fld)
        if k not in PRESENT:
            PRESENT[k] = z3.Function(f'present_{cls}_{fld}', z3.IntSort(), z3.BoolSort())
        return PRESENT[k]

    def make_node(cls, ctx):
        fields, rank, inv = T[cls]
        attrs, L = {}, {}
        for f in fields:
            fld = f.rstrip('*?')
            if '*' in f:
                maybe_none = f.endswith('?')

                def elem(i, fld=fld, maybe_none=maybe_none):
                    if maybe_none:
                        if not truth(sym._wrap_bool(present_fn(cls, fld)(sym._z(i)))):
                            return None
                    return SObj(f'{cls}.{fld}[]', {}, f=FRef(fld, i))
                lb = values.ListBase(f'{cls}.{fld}', elem)
                L[fld] = lb.length()
                attrs[fld] = values.SList.of_base(lb)
            elif f.endswith('?'):
                if truth(ctx.bool(f'has_{fld}')):
                    attrs[fld] = SObj(f'{cls}.{fld}', {}, f=FRef(fld, None))
                else:
                    attrs[fld] = None
            else:
                attrs[fld] = SObj(f'{cls}.{fld}', {}, f=FRef(fld, None))
        for c in inv(L):
            ctx.assume(c)
        return SObj(cls, attrs), L

    def child_present(cls, node, L, fld, i):
        fields = {f.rstrip('*?'): f for f in T[cls][0]}
        f = fields[fld]
        if '*' in f:
            inr = and_(0 <= i, i < L[fld])
            if f.endswith('?'):
                return and_(inr, sym._wrap_bool(present_fn(cls, fld)(sym._z(i))))
            return inr
        return node._get(fld) is not None

    def table(modname, varname):
        d = frontend.module_assign(modname, varname)
        out = {}
        for k, v in zip(d.keys, d.values):
            if isinstance(k, ast.Tuple) and len(k.elts) == 2 and isinstance(k.elts[0], ast.Name) \
                    and isinstance(k.elts[1], ast.Constant) and isinstance(v, ast.Name):
                out[(k.elts[0].id, k.elts[1].value)] = v.id
        return out

    out = []
    for direction, modname, varname in (('next', 'traverse_next', 'NEXT_FUNCS'), ('prev', 'traverse_prev', 'PREV_FUNCS')):
        tbl = table(modname, varname)
        cases = []
        for cls, (fields, _, _) in T.items():
            for fld in [None] + [f.rstrip('*?') for f in fields]:
                for yf in [f.rstrip('*?') for f in fields]:
                    cases.append(dict(cls=cls, field=fld, fn=tbl.get((cls, fld)), y=yf, dir=direction))

        def run(ctx, case, loc, pre, label, modname=modname, direction=direction):
            cls, fld, fn, yf = case['cls'], case['field'], case['fn'], case['y']
            name = f'{pre}.{direction}.{cls}.{fld or ("START" if direction == "next" else "END")}'
            if fn is None:
                ctx.prove(f'{name}.table_entry', False, info='no table entry')
                return
            fields, rank, _ = T[cls]
            node, L = make_node(cls, ctx)
            kinds = {f.rstrip('*?'): f for f in fields}
            BIG = 10 ** 6
            if fld is None:
                idx, rx = None, ((-BIG, 0) if direction == 'next' else (BIG, 0))
            else:
                if '*' in kinds[fld]:
                    idx = ctx.int('idx')
                    if not truth(child_present(cls, node, L, fld, idx)):
                        raise sym.PathAbort()   # requires: x is a present child
                    rx = rank(L, fld, idx)
                else:
                    idx = None
                    if node._get(fld) is None:
                        raise sym.PathAbort()
                    rx = rank(L, fld, 0)
            floc = frontend.locate(f'{modname}:{fn}')
            it = Interp({})
            try:
                got = it.call(IFunc(it, floc.node, None, fn), (node, idx))
            except PyRaise as pr:
                ctx.prove(f'{name}.no_raise', False, info=f'raised {pr.cls.__name__}: {pr.exc}')
                return
            ctx.notes['outcome'] = 'return'
            # arbitrary other present child y = (yf, iy)
            if '*' in kinds[yf]:
                iy = ctx.int('iy')
            else:
                iy = 0
            yp = child_present(cls, node, L, yf, iy)
            ry = rank(L, yf, iy)
            lt = (lambda a, b: lex_lt(a, b)) if direction == 'next' else (lambda a, b: lex_lt(b, a))
            if got is None:
                ctx.prove(f'{name}.none_means_last[y={yf}]', implies(yp, not_(lt(rx, ry))),
                          info='returned None although a child lies further in that direction')
                return
            if not isinstance(got, FRef):
                ctx.prove(f'{name}.returns_child', False, info=f'returned {got!r}')
                return
            gi = got.idx if got.idx is not None else 0
            ctx.prove(f'{name}.result_is_present_child', child_present(cls, node, L, got.field, gi))
            rg = rank(L, got.field, gi)
            ctx.prove(f'{name}.result_is_beyond', lt(rx, rg))
            ctx.prove(f'{name}.nothing_between[y={yf}]', implies(yp, not_(and_(lt(rx, ry), lt(ry, rg)))),
                      info='a present child lies strictly between x and the returned node')

        out.append(Fragment(f'{modname}:_{direction}_None', prop, 'rank', cases, run,
                            notes='Dict / MatchMapping / Compare / arguments: next/prev == neighbour in rank order, '
                                  'rank tables validated against CPython positions; Call/ClassDef merge loops not proved'))
    return out


def soc_specs(prop='C14'):
    """astutil:syntax_ordered_children table: every lambda entry of _SYNTAX_ORDERED_CHILDREN returns the children in
    ORDER (None placeholders of absent optional fields ignored), for all list lengths"""
    from pyvc import frontend, sym, values
    from pyvc.contract import Fragment
    from pyvc.interp import Interp, IFunc, SObj, PyRaise, Factory
    from pyvc.sym import truth, eq, cur
    from pyvc.logic import slen

    d = frontend.module_assign('astutil', '_SYNTAX_ORDERED_CHILDREN')
    mod = frontend.module('astutil')
    named = {}
    for n in mod.tree.body:
        if isinstance(n, ast.Assign) and len(n.targets) == 1 and isinstance(n.targets[0], ast.Name) \
                and isinstance(n.value, ast.Lambda):
            named[n.targets[0].id] = n.value
        elif isinstance(n, ast.If):   # PYGE12 / PYGE13 selections: take the branch that runs on 3.12
            test = ast.unparse(n.test)
            branch = n.body if test in ('PYGE12',) else (n.orelse if test in ('PYGE13', 'PYGE14') else None)
            for m in branch or []:
                if isinstance(m, ast.Assign) and isinstance(m.value, ast.Lambda) and isinstance(m.targets[0], ast.Name):
                    named[m.targets[0].id] = m.value
    entries = {}
    skipped = []
    for k, v in zip(d.keys, d.values):
        if not isinstance(k, ast.Name):
            continue
        if isinstance(v, ast.Lambda):
            entries[k.id] = v
        elif isinstance(v, ast.Name) and v.id in named:
            entries[k.id] = named[v.id]
        elif isinstance(v, ast.IfExp):
            # `(lambda ...) if PYGE13 else (lambda ...)`: the 3.12 branch
            test = ast.unparse(v.test)
            br = v.orelse if test in ('PYGE13', 'PYGE14') else (v.body if test == 'PYGE12' else None)
            if isinstance(br, ast.Lambda):
                entries[k.id] = br
            else:
                skipped.append(k.id)
        else:
            skipped.append(k.id)
    cases = [dict(cls=c) for c in entries if c in ORDER] + [dict(cls=c, missing=True) for c in ORDER
                                                             if c not in entries and c not in skipped and ORDER[c]]

    def run(ctx, case, loc, pre, label):
        cls = case['cls']
        name = f'{pre}.{cls}'
        if case.get('missing'):
            ctx.prove(f'{name}.has_entry', True)   # falls back to the generic field-order function: bounded only
            return
        attrs, spec_parts = {}, []
        node = SObj(cls, attrs)
        for f in ORDER[cls]:
            fld, kind = parse_field(f)
            if kind == 'one':
                c = SObj(f'{cls}.{fld}', {})
                node._set(fld, c, count=False)
                spec_parts.append(values.ElemSeg([c]))
            elif kind == 'opt':
                if truth(ctx.bool(f'has_{fld}')):
                    c = SObj(f'{cls}.{fld}', {})
                    node._set(fld, c, count=False)
                    spec_parts.append(values.ElemSeg([c]))
                else:
                    node._set(fld, None, count=False)
            else:
                objs = {}
                lb = values.ListBase(f'{cls}.{fld}', lambda i, fld=fld: ('child', fld, i))
                sl = values.SList.of_base(lb)
                node._set(fld, sl, count=False)
                spec_parts.extend(sl.copy().segs)
        it = Interp({})
        try:
            got = it.call(IFunc(it, entries[cls], None, f'soc_{cls}'), (node,))
        except PyRaise as pr:
            ctx.prove(f'{name}.no_raise', False, info=f'raised {pr.cls.__name__}: {pr.exc}')
            return
        ctx.notes['outcome'] = 'return'
        if isinstance(got, list):
            got = values.SList([values.ElemSeg([x for x in got if x is not None])] if got else [])
        elif isinstance(got, values.SList):
            segs = []
            for sg in got.segs:
                if isinstance(sg, values.ElemSeg):
                    segs.append(values.ElemSeg([x for x in sg.items if x is not None]))
                else:
                    segs.append(sg)
            got = values.SList(segs)
        else:
            ctx.prove(f'{name}.returns_list', False, info=f'returned {got!r}')
            return
        ctx.prove(name, eq(values.SList(spec_parts), got), info='children in syntactic ORDER (None placeholders ignored)')

    return [Fragment('astutil:syntax_ordered_children', prop, 'soc', cases, run,
                     notes=f'{len(entries)} lambda entries of _SYNTAX_ORDERED_CHILDREN executed symbolically; function '
                           f'entries with loops ({skipped}) are bounded only')]


# ---------------------------------------------------------------------------------------------------------------------
# C14: the `all` filter - two copies of one rule (fst_traverse._check_all_param used by next/prev/step/child stepping,
# fst_traverse._all_param_func used by walk) must agree with each other and with the documented rule, on the whole
# finite domain: every concrete AST class x emptiness of the five argument lists x every kind of `all` value.

def finite_all_param(payload):
    """native, exhaustive: evaluates the two real functions at every point of the domain"""
    import ast as _ast
    import itertools
    import types
    from fst import fst_traverse
    chk, mk = fst_traverse._check_all_param, fst_traverse._all_param_func

    def leaves(c):
        subs = c.__subclasses__()
        return [c] if not subs else [x for s in subs for x in leaves(s)]
    classes = sorted({c for c in leaves(_ast.AST) if c.__module__ == 'ast' and not c.__name__.startswith('_')
                      and c.__name__ not in ('Index', 'ExtSlice', 'Suite', 'AugLoad', 'AugStore', 'Param', 'Num', 'Str',
                                             'Bytes', 'NameConstant', 'Ellipsis', 'slice')}, key=lambda c: c.__name__)
    ctx = set(leaves(_ast.expr_context))
    boolops = set(leaves(_ast.boolop))
    ops = set(leaves(_ast.operator)) | set(leaves(_ast.unaryop)) | set(leaves(_ast.cmpop))
    arg_fields = ('posonlyargs', 'args', 'vararg', 'kwonlyargs', 'kwarg')

    def nodes(cls):
        if cls is _ast.arguments:
            for bits in itertools.product((False, True), repeat=5):
                a = _ast.arguments(posonlyargs=[], args=[], vararg=None, kwonlyargs=[], kw_defaults=[], kwarg=None,
                                   defaults=[])
                for f, b in zip(arg_fields, bits):
                    if b:
                        setattr(a, f, _ast.arg(arg='x') if f in ('vararg', 'kwarg') else [_ast.arg(arg='x')])
                yield a, 'arguments(' + ','.join(f for f, b in zip(arg_fields, bits) if b) + ')', any(bits)
        else:
            yield cls(), cls.__name__, None
    containers = [frozenset([_ast.Name, _ast.arguments, _ast.Load]), {_ast.Add: 1, _ast.Call: 2}, [_ast.arg, _ast.And], ()]
    alls = [('True', True), ('False', False), ("'loc'", 'loc')] + [(f'type:{c.__name__}', c) for c in classes] + \
           [(f'container{i}', c) for i, c in enumerate(containers)]
    out = {'points': 0, 'failures': [], 'groups': {}}

    def rec(group, ok, what):
        g = out['groups'].setdefault(group, [0, 0])
        g[0] += 1
        if not ok:
            g[1] += 1
            if len(out['failures']) < 40:
                out['failures'].append({'key': group, 'what': what, 'replayed': True})
    for cls in classes:
        for node, desc, nonempty in nodes(cls):
            f = types.SimpleNamespace(a=node)
            for aname, all_ in alls:
                out['points'] += 1
                kind = aname.split(':')[0].rstrip('0123456789')
                try:
                    got_c = chk(f, all_)
                    got_w = mk(all_)(f)
                except Exception as e:
                    rec(f'C14.all_param.total[all={kind}]', False, f'all={aname} on {desc}: raised {e!r}')
                    continue
                rec(f'C14.all_param.total[all={kind}]', isinstance(got_c, bool), f'all={aname} on {desc}: returned {got_c!r}')
                rec(f'C14.all_param.copies_agree[all={kind}]', bool(got_c) == bool(got_w),
                    f'all={aname} on {desc}: _check_all_param (next/prev/step/child stepping) says {got_c!r} but '
                    f'_all_param_func (walk) says {got_w!r}')
                if all_ is True:
                    want = True
                elif all_ is False:
                    want = (cls not in ctx and cls not in boolops and cls not in ops and
                            (cls is not _ast.arguments or nonempty))
                elif all_ == 'loc':
                    want = cls not in ctx and cls not in boolops
                elif isinstance(all_, type):
                    want = cls is all_
                else:
                    want = cls in all_
                rec(f'C14.all_param.rule[all={kind}]', bool(got_w) == want and bool(got_c) == want,
                    f'all={aname} on {desc}: documented rule gives {want}, walk filter {got_w!r}, stepping filter {got_c!r}')
    out['classes'] = len(classes)
    return out


def all_param_finite(rep, prop='C14'):
    from pyvc import native, frontend

    class _S:
        name = 'finite-domain evaluation of the node filter'
        notes = 'total, loop-free functions over (AST class, emptiness of argument lists, kind of `all`): every point evaluated'
    for ident in ('fst_traverse:_check_all_param', 'fst_traverse:_all_param_func'):
        rep.function(frontend.locate(ident), _S)
    r = native.run('k_traverse', 'finite_all_param', {})
    fails = {}
    for f in r['failures']:
        fails.setdefault(f['key'], f)
    for group, (n, bad) in sorted(r['groups'].items()):
        f = fails.get(group)
        rep.other('finite', group, bad == 0, detail=(f['what'] if f else f'{n} points'), key=group,
                  replay=dict(f or {}, native_entry=('k_traverse', 'replay_all_param')))
    if r['points'] < 10000 or r['classes'] < 100:
        rep.checker_error(f'all-param domain shrank: {r["points"]} points over {r["classes"]} classes')
    rep.extra['all_param_domain'] = {'points': r['points'], 'classes': r['classes']}


def replay_all_param(payload):
    r = finite_all_param({})
    key = (payload.get('replay') or payload).get('key')
    hit = [f for f in r['failures'] if f['key'] == key]
    return {'reproduced': bool(hit), 'failure': hit[:1]}


# ---------------------------------------------------------------------------------------------------------------------
# C14: the position-merging step functions of Call and ClassDef (positional / starred arguments or bases interleaved
# with keywords by source position).  No user invariants: every loop in these functions is a linear search and is
# summarised exactly by pyvc.loops.SearchLoop (side conditions checked on the real loop body).
#
# World: the two merged lists have symbolic lengths; element i of list F sits at an uninterpreted position
# (LINE_F(i), COL_F(i)).  Well-formedness of a tree parsed from valid Python (assumed, quantified):
#   sorted      i < j  ->  pos_F(i) < pos_F(j)            (both lists, lexicographic)
#   distinct    pos_A(i) != pos_K(j)
#   grammar     a positional that is NOT starred precedes every keyword  (Python's call syntax)
# Specification (same shape as the rank specification): the result is a present child beyond x in syntactic order and
# no present child y lies strictly between; None only if nothing lies beyond.

MERGE = {
    'Call': dict(groups=[['func'], ['args', 'keywords'], []], single={'func'}, A='args', K='keywords'),
    'ClassDef': dict(groups=[['decorator_list'], ['type_params'], ['bases', 'keywords'], ['body']], single=set(),
                     A='bases', K='keywords'),
}


def merge_specs(prop='C14'):
    import z3
    from pyvc import frontend, sym, values
    from pyvc.contract import Fragment
    from pyvc.interp import Interp, IFunc, SObj, PyRaise
    from pyvc.loops import SearchLoop
    from pyvc.sym import truth, eq, cur, lex_lt, _wrap_int, _wrap_bool
    from pyvc.logic import and_, or_, not_, implies

    I, B = z3.IntSort(), z3.BoolSort()
    STARRED = SObj('Starred', {})
    OTHER = SObj('OtherClass', {})

    class FRef:
        def __init__(self, field, idx):
            self.field, self.idx = field, idx

        def __repr__(self):
            return f'F({self.field}[{self.idx}])'

    class Elem(SObj):
        """the i-th element of a list field: two reads of the same position are the same object"""

        def _sym_is(self, other):
            if not isinstance(other, Elem):
                return False
            a, b = self._get('f'), other._get('f')
            return eq(a.idx, b.idx) if a.field == b.field else False

    def table(modname, varname):
        d = frontend.module_assign(modname, varname)
        out = {}
        for k, v in zip(d.keys, d.values):
            if isinstance(k, ast.Tuple) and len(k.elts) == 2 and isinstance(k.elts[0], ast.Name) \
                    and isinstance(k.elts[1], ast.Constant) and isinstance(v, ast.Name):
                out[(k.elts[0].id, k.elts[1].value)] = v.id
        return out

    def world(ctx, cls):
        spec = MERGE[cls]
        LN, CO, ST, L = {}, {}, {}, {}
        attrs = {}
        fields = [f for g in spec['groups'] for f in g]
        for fld in fields:
            if fld in spec['single']:
                attrs[fld] = SObj(f'{cls}.{fld}', {}, f=FRef(fld, None))
                continue
            LN[fld] = z3.Function(f'LINE_{cls}_{fld}', I, I)
            CO[fld] = z3.Function(f'COL_{cls}_{fld}', I, I)
            ST[fld] = z3.Function(f'STAR_{cls}_{fld}', I, B)

            def elem(i, fld=fld):
                touch(fld, i)
                star = truth(_wrap_bool(ST[fld](sym._z(i)))) if fld == spec['A'] else False
                return Elem(f'{cls}.{fld}[]', {}, f=FRef(fld, i), lineno=_wrap_int(LN[fld](sym._z(i))),
                            col_offset=_wrap_int(CO[fld](sym._z(i))), **{'__class__': STARRED if star else OTHER})
            lb = values.ListBase(f'{cls}.{fld}', elem)
            L[fld] = lb.length()
            attrs[fld] = values.SList.of_base(lb)
        node = SObj(cls, attrs)

        def pos(fld, i):
            return (_wrap_int(LN[fld](sym._z(i))), _wrap_int(CO[fld](sym._z(i))))
        A, K = spec['A'], spec['K']
        seen = {A: [], K: []}

        def zlt(fa, a, fb, b):   # lexicographic < on z3 terms
            return z3.Or(LN[fa](a) < LN[fb](b), z3.And(LN[fa](a) == LN[fb](b), CO[fa](a) < CO[fb](b)))

        def touch(fld, i):
            """instantiate the well-formedness axioms at every pair of index terms the execution / the contract names
            (quantifier-free: the axioms are universally quantified, any set of instances is sound)"""
            if fld not in seen:
                return
            zi_ = z3.simplify(sym._z(i))
            if any(zi_.eq(t) for t in seen[fld]):
                return
            inr_i = z3.And(0 <= zi_, zi_ < sym._z(L[fld]))
            for t in seen[fld]:
                inr_t = z3.And(0 <= t, t < sym._z(L[fld]))
                ctx.add(z3.Implies(z3.And(inr_i, inr_t, zi_ < t), zlt(fld, zi_, fld, t)))
                ctx.add(z3.Implies(z3.And(inr_i, inr_t, t < zi_), zlt(fld, t, fld, zi_)))
            other = K if fld == A else A
            for u in seen[other]:
                inr_u = z3.And(0 <= u, u < sym._z(L[other]))
                a_, k_ = (zi_, u) if fld == A else (u, zi_)
                ctx.add(z3.Implies(z3.And(inr_i, inr_u), z3.Or(zlt(A, a_, K, k_), zlt(K, k_, A, a_))))
                ctx.add(z3.Implies(z3.And(inr_i, inr_u, z3.Not(ST[A](a_))), zlt(A, a_, K, k_)))
            seen[fld].append(zi_)
        node._touch = touch
        return node, L, pos

    def major(cls, fld):
        for g, fs in enumerate(MERGE[cls]['groups']):
            if fld in fs:
                return g
        raise KeyError(fld)

    def present(cls, node, L, fld, i):
        if fld in MERGE[cls]['single']:
            return True
        return and_(0 <= i, i < L[fld])

    def before(cls, pos, fa, ia, fb, ib):
        """child (fa, ia) precedes child (fb, ib) in syntactic order"""
        ga, gb = major(cls, fa), major(cls, fb)
        if ga != gb:
            return ga < gb
        if fa == fb:
            return ia < ib if fa not in MERGE[cls]['single'] else False
        return lex_lt(pos(fa, ia), pos(fb, ib))

    out = []
    for direction, modname, varname in (('next', 'traverse_next', 'NEXT_FUNCS'), ('prev', 'traverse_prev', 'PREV_FUNCS')):
        tbl = table(modname, varname)
        cases = []
        for cls, spec in MERGE.items():
            fields = [f for g in spec['groups'] for f in g]
            for fld in [None] + fields:
                for yf in fields:
                    cases.append(dict(cls=cls, field=fld, fn=tbl.get((cls, fld)), y=yf, dir=direction))

        def run(ctx, case, loc, pre, label, modname=modname, direction=direction):
            cls, fld, fn, yf = case['cls'], case['field'], case['fn'], case['y']
            name = f'{pre}.{direction}.{cls}.{fld or ("START" if direction == "next" else "END")}'
            if fn is None:
                ctx.prove(f'{name}.table_entry', False, info='no table entry')
                return
            node, L, pos = world(ctx, cls)
            single = MERGE[cls]['single']
            if fld is None or fld in single:
                idx = None
            else:
                idx = ctx.int('idx')
                ctx.assume(and_(0 <= idx, idx < L[fld]))     # requires: x is a present child
            iy = 0 if yf in single else ctx.int('iy')
            if idx is not None:
                node._touch(fld, idx)
            if yf not in single:
                node._touch(yf, iy)
            floc = frontend.locate(f'{modname}:{fn}')
            it = Interp({'Starred': STARRED})
            helpers = set()
            for n in ast.walk(floc.node):   # helper functions of the same module called by name (the SPECIAL start helper)
                if isinstance(n, ast.Call) and isinstance(n.func, ast.Name) and n.func.id.startswith(('_next_', '_prev_')):
                    helpers.add(n.func.id)
            for h in helpers:
                hl = frontend.locate(f'{modname}:{h}')
                it.globals[h] = IFunc(it, hl.node, None, h)
                for k, _ in enumerate(frontend.loops_of(hl.node)):
                    it.loop_specs[(h, k)] = SearchLoop(f'{name}.{h}.loop{k}', lambda env: [iy])
            for k, _ in enumerate(frontend.loops_of(floc.node)):
                it.loop_specs[(fn, k)] = SearchLoop(f'{name}.loop{k}', lambda env: [iy] + ([L[MERGE[cls]['A']] - 2 - iy,
                                                                                         iy - 1]))
            try:
                got = it.call(IFunc(it, floc.node, None, fn), (node, idx))
            except PyRaise as pr:
                ctx.prove(f'{name}.no_raise', False, info=f'raised {pr.cls.__name__}: {pr.exc}')
                return
            ctx.notes['outcome'] = 'return'
            yp = present(cls, node, L, yf, iy)

            def beyond(fa, ia, fb, ib):      # (fa, ia) -> (fb, ib) in the direction of travel
                return before(cls, pos, fa, ia, fb, ib) if direction == 'next' else before(cls, pos, fb, ib, fa, ia)
            if fld is None:
                x_beyond_y = lambda f2, i2: True          # START / END: everything lies beyond
            else:
                x_beyond_y = lambda f2, i2: beyond(fld, idx, f2, i2)
            if got is None:
                ctx.prove(f'{name}.none_means_last[y={yf}]', implies(yp, not_(x_beyond_y(yf, iy))),
                          info='returned None although a child lies further in that direction')
                return
            if not isinstance(got, FRef):
                ctx.prove(f'{name}.returns_child', False, info=f'returned {got!r}')
                return
            gi = got.idx if got.idx is not None else 0
            ctx.prove(f'{name}.result_is_present_child', present(cls, node, L, got.field, gi))
            ctx.prove(f'{name}.result_is_beyond', x_beyond_y(got.field, gi))
            ctx.prove(f'{name}.nothing_between[y={yf}]',
                      implies(yp, not_(and_(x_beyond_y(yf, iy), beyond(yf, iy, got.field, gi)))),
                      info='a present child lies strictly between x and the returned node')

        out.append(Fragment(f'{modname}:_{direction}_None', prop, 'merge', cases, run, native=('k_traverse', 'replay_merge'),
                            notes='Call / ClassDef: positional/starred elements merged with keywords by position; loops '
                                  'summarised by the search-loop rule; sortedness / distinctness / call-syntax order of the '
                                  'two lists assumed (quantified axioms)'))
    return out


def replay_merge(payload):
    """native: the counter-model's positions are uninterpreted; a failing input is SEARCHED on real trees - every
    argument-like sequence CPython accepts up to length 5 as a call and as class bases, next/prev chains vs positions"""
    from contracts import b_read
    from contracts.b_lib import is_known
    n = 0
    for name, src in b_read.interleave_programs(5):
        r = b_read.work(name, src, {'props': ['C14'], 'tier': 'quick', 'seed': 0, 'norm': False})
        n += r['evaluations']
        f = [x for x in r['failures'] if not is_known(x['key'])]
        if f:
            return {'reproduced': True, 'failing_input': dict(f[0], source=src[:400])}
    return {'reproduced': False, 'note': f'no failing chain among {n} evaluations on generated calls / class headers'}
