"""C03/P (and C02.view.heal) - index arithmetic of view:FSTView against the Python list model of a window.

A view is a window [_start, _stop) (or [_start, end) when _stop is None) on a list field of length n of `base`.  Every
method first heals stale bounds (_base_indices), translates window-relative indices, delegates to base._put_slice /
_put_one / _getitem / get_slice, and then updates _stop.  Proved for all n, _start, _stop and all indices:

  heal         0 <= start <= stop <= n, valid bounds are kept, __len__ == stop - start
  designation  the absolute (start, stop) handed to the delegate is the range the same operation designates on the
               Python list window  base[start:stop]  (list.insert clamping, negative indices, slices, 'end')
  window law   given the delegate's length law  n' = n - (b - a) + k  (assumed contract of _put_slice; k == 1 for
               one=True inserts), afterwards [_start, _stop) covers exactly the surviving old elements of the window plus
               the k new ones and 0 <= _start <= _stop <= n'; an open-ended view stays open-ended.
"""
from pyvc.logic import and_, or_, not_, implies, eq, truth, ite, smax, smin

from contracts.k_index import pybound, pyindex, pyindex_ok


def pyinsert_pos(w, idx):
    """position list.insert(idx, x) uses on a list of length w ('end' = append)"""
    if isinstance(idx, str):
        return w
    return ite(idx < 0, smax(0, idx + w), smin(idx, w))


def specs(prop='C03'):
    from pyvc import frontend, sym
    from pyvc.contract import Fragment, INT
    from pyvc.interp import Interp, IFunc, SObj, PyRaise
    from pyvc.sym import cur

    class FSTStub:
        pass

    class ASTStub:
        pass

    def world(ctx, case):
        n = ctx.int('len_field')
        _start = ctx.int('_start')
        ctx.assume(and_(n >= 0, _start >= 0))
        if case['stop'] == 'None':
            _stop = None
        else:
            _stop = ctx.int('_stop')
            ctx.assume(_stop >= 0)
        st = {'n': n, 'calls': [], 'k': None}
        base = SObj('base', {})

        def put_slice(code, a, b, field, one=True, options=None):
            """assumed contract of FST._put_slice: replaces [a, b) by k >= 0 elements (k == 1 for a one=True put of
            code, k == 0 for a delete), returns the (possibly same) base node"""
            st['calls'].append(('put_slice', a, b, field, one, code))
            k = ctx.int(ctx.fresh_name('k'))
            ctx.add(k.e >= 0)
            if code is None:
                ctx.add(k.e == 0)
            elif one is True:
                ctx.add(k.e == 1)
            st['k'] = k
            st['n'] = st['n'] - (b - a) + k
            return base

        def put_one(code, i, field, ret_child=True):
            # assumed contract of FST._put_one on a list field: code None deletes the element (the field shrinks by one),
            # anything else replaces it one-for-one
            st['calls'].append(('put_one', i, i + 1, field, None, code))
            st['k'] = 0 if code is None else 1
            st['n'] = st['n'] - 1 + st['k']
            return base

        def get_slice(a, b, field, cut=False, **opts):
            st['calls'].append(('get_slice', a, b, field, cut, None))
            return 'piece'

        def _get_slice(a, b, field, cut, options):
            st['calls'].append(('get_slice', a, b, field, cut, None))
            st['k'] = 0
            st['n'] = st['n'] - (b - a)
            return 'piece'
        base._set('_put_slice', put_slice, count=False)
        base._set('_put_one', put_one, count=False)
        base._set('get_slice', get_slice, count=False)
        base._set('_get_slice', _get_slice, count=False)
        self = SObj('view', {})
        self._set('base', base, count=False)
        self._set('field', 'elts', count=False)
        self._set('_start', _start, count=False)
        self._set('_stop', _stop, count=False)
        self._set('is_one', False, count=False)
        self._set('_len_field', lambda: st['n'], count=False)
        self._set('_getitem', lambda i: ('item', i), count=False)
        made = []

        def ctor(b, f, a, e):
            v = SObj('subview', {}, base=b, field=f, _start=a, _stop=e)
            made.append(v)
            return v
        self._set('__class__', ctor, count=False)
        g = {'check_options': lambda o, *a, **k: o, 'fst': SObj('fst', {}, FST=FSTStub), 'AST': ASTStub}
        it = Interp(g)
        for nm in ('fixup_one_index', 'fixup_slice_indices'):
            it.globals[nm] = IFunc(it, frontend.locate(f'fst_misc:{nm}').node, None, nm)
        for nm in ('_base_indices', '_fixup_item_indices'):
            fnode = frontend.locate(f'view:FSTView.{nm}').node
            self._set(nm, (lambda fnode=fnode, nm=nm: (lambda *a, **k: it.call(IFunc(it, fnode, None, nm), (self, *a), k)))(),
                      count=False)
        return self, base, st, it, n, _start, _stop, made

    def healed(n, _start, _stop):
        stop = n if _stop is None else smin(_stop, n)
        start = smin(_start, stop)
        return start, stop

    def check_window(ctx, pre, label, self, st, start, new_stop_expected, n_after, open_ended):
        ns = self._get('_stop')
        if open_ended:
            ctx.prove(f'{pre}.window.stays_open_ended[{label}]', ns is None)
            return
        ctx.prove(f'{pre}.window.update[{label}]', eq(ns, new_stop_expected) if ns is not None else False,
                  info='[_start, _stop) covers the surviving old elements of the window plus the new ones')
        s2 = self._get('_start')
        ctx.prove(f'{pre}.window.in_bounds[{label}]', and_(0 <= s2, s2 <= ns, ns <= n_after) if ns is not None else False)

    def run(ctx, case, loc, pre, label):
        self, base, st, it, n, _start, _stop, made = world(ctx, case)
        start, stop = healed(n, _start, _stop)
        w = stop - start
        m = case['m']
        f = IFunc(it, loc.node, None, m)
        open_ended = _stop is None
        code = None if (m in ('remove', 'cut', '__delitem__') or case.get('code_none')) else 'CODE'
        try:
            if m == '_base_indices':
                r = it.call(f, (self,))
                ctx.notes['outcome'] = 'return'
                ctx.prove(f'{pre}.heal.result[{label}]', eq(tuple(r), (start, stop, n)))
                ctx.prove(f'{pre}.heal.valid[{label}]', and_(0 <= r[0], r[0] <= r[1], r[1] <= n))
                if _stop is not None:
                    ctx.prove(f'{pre}.heal.keeps_valid_bounds[{label}]',
                              implies(and_(_start <= _stop, _stop <= n), eq((r[0], r[1]), (_start, _stop))))
                    ctx.prove(f'{pre}.heal.stores_clipped[{label}]',
                              and_(eq(self._get('_start'), start), eq(self._get('_stop'), stop)))
                return
            if m == '__len__':
                r = it.call(f, (self,))
                ctx.prove(f'{pre}.len[{label}]', eq(r, w))
                return
            if m == 'insert':
                idx = ctx.int('idx') if case['idx'] == INT else case['idx']
                it.call(f, (self, code, idx))
                p = start + pyinsert_pos(w, idx)
                exp_range, exp_stop = (p, p), stop + st['k']
            elif m == 'append':
                it.call(f, (self, code))
                exp_range, exp_stop = (stop, stop), stop + st['k']
            elif m == 'extend':
                it.call(f, (self, code))
                exp_range, exp_stop = (stop, stop), stop + st['k']
            elif m == 'prepend':
                it.call(f, (self, code))
                exp_range, exp_stop = (start, start), stop + st['k']
            elif m == 'prextend':
                it.call(f, (self, code))
                exp_range, exp_stop = (start, start), stop + st['k']
            elif m == 'replace':
                it.call(f, (self, code))
                exp_range, exp_stop = (start, stop), start + st['k']
            elif m == 'remove':
                it.call(f, (self,))
                exp_range, exp_stop = (start, stop), start
            elif m == 'cut':
                it.call(f, (self,))
                exp_range, exp_stop = (start, stop), start
            elif m == 'copy':
                it.call(f, (self,))
                exp_range, exp_stop = (start, stop), stop
                st['k'] = 0
            elif m in ('__getitem__', '__setitem__', '__delitem__'):
                if case['idx'] == 'slice':
                    lo = ctx.int('lo') if case['lo'] == INT else None
                    hi = ctx.int('hi') if case['hi'] == INT else None
                    idx = slice(lo, hi, None)
                    s_rel, e_rel = pybound(w, lo if lo is not None else 0, 0), pybound(w, hi, w)
                    if truth(e_rel < s_rel):
                        pass  # inverted slice: refused (known finding F-C03-1), checked in the raise branch below
                    a_abs, b_abs = start + s_rel, start + e_rel
                else:
                    idx = ctx.int('idx')
                    i_rel = pyindex(w, idx)
                    a_abs, b_abs = start + i_rel, start + i_rel + 1
                args = (self, idx) if m != '__setitem__' else (self, idx, code)
                r = it.call(f, args)
                if case['idx'] != 'slice':
                    ctx.prove(f'{pre}.index.valid_like_list[{label}]', pyindex_ok(w, idx),
                              info='an index a Python list of the window length rejects must be rejected')
                if m == '__getitem__':
                    if case['idx'] == 'slice':
                        ok = len(made) == 1
                        ctx.prove(f'{pre}.subview.created[{label}]', ok)
                        if ok:
                            ctx.prove(f'{pre}.subview.window[{label}]',
                                      eq((made[0]._get('_start'), made[0]._get('_stop')), (a_abs, b_abs)),
                                      info='view[lo:hi] is the window base[start:stop][lo:hi]')
                    else:
                        ctx.prove(f'{pre}.item.designation[{label}]', isinstance(r, tuple) and eq(r[1], a_abs))
                    ctx.prove(f'{pre}.read_only[{label}]', not st['calls'] and self._get('_stop') is _stop or
                              eq(self._get('_stop'), stop))
                    return
                exp_range = (a_abs, b_abs)
                if m == '__delitem__':
                    exp_stop = stop - (b_abs - a_abs)
                else:   # list semantics: the window loses the designated elements and gains the k new ones
                    exp_stop = stop - (b_abs - a_abs) + st['k']
            else:
                raise sym.Unsupported(m)
        except PyRaise as pr:
            ctx.notes['outcome'] = f'raise {pr.cls.__name__}'
            if m in ('__getitem__', '__setitem__', '__delitem__') and pr.cls is IndexError:
                if case['idx'] == 'slice':
                    ctx.prove(f'{pre}.raises.only_inverted_slice[{label}]', e_rel < s_rel,
                              info='a slice is refused only when inverted (known finding F-C03-1 region)')
                else:
                    ctx.prove(f'{pre}.raises.only_out_of_range[{label}]', not_(pyindex_ok(w, idx)))
                ctx.prove(f'{pre}.raises.nothing_delegated[{label}]', not st['calls'])
            else:
                ctx.prove(f'{pre}.raises.unexpected[{label}]', False, info=f'raised {pr.cls.__name__}: {pr.exc}')
            return
        ctx.notes['outcome'] = 'return'
        ok = len(st['calls']) == 1
        ctx.prove(f'{pre}.delegates_once[{label}]', ok)
        if ok:
            c = st['calls'][0]
            ctx.prove(f'{pre}.designation[{label}]', eq((c[1], c[2]), exp_range),
                      info=f'range handed to {c[0]} == range the operation designates on the Python list window')
            ctx.prove(f'{pre}.designation.normalised[{label}]', and_(0 <= c[1], c[1] <= c[2], c[2] <= n))
            if m in ('append', 'prepend'):
                ctx.prove(f'{pre}.one_element[{label}]', c[4] is True)
        check_window(ctx, pre, label, self, st, start, exp_stop, st['n'], open_ended)

    def run_name(ctx, case, loc, pre, label):
        """view['name'] (single-item name search): find_def is assumed to return either nothing, a direct child taken
        from the list it was given, or a deeper node.  Obligations: the search list is exactly the view's window of the
        real field; a direct child at field position j is designated by the view-relative index j - start - docstr
        offset (the element Python indexing of the window would give); nothing is delegated or written"""
        self, base, st, it, n, _start, _stop, made = world(ctx, case)
        start, stop = healed(n, _start, _stop)
        field = case['field']
        off = ctx.int('has_docstr') if field == '_body' else 0
        if field == '_body':
            ctx.assume(and_(0 <= off, off <= 1))
        self._set('field', field, count=False)
        BLOCK = type('BlockCls', (), {})
        seen = {}

        class FieldList:
            def __getitem__(_, sl):
                seen['slice'] = (sl.start, sl.stop, sl.step)
                return 'WINDOW'
        fl = FieldList()
        a = SObj('a', {}, **{'__class__': BLOCK, 'body': fl, 'orelse': fl, 'finalbody': fl})
        base._set('a', a, count=False)
        base._set('has_docstr', off, count=False)
        j = ctx.int('j')
        kind = case['found']
        found = None
        if kind == 'child':
            found = SObj('found', {}, parent=base, pfield=SObj('pf', {}, idx=j))
        elif kind == 'deep':
            found = SObj('found', {}, parent=SObj('other', {}), pfield=SObj('pf', {}, idx=j))

        def find_def(name, asts=None, **kw):
            seen['asts'] = asts
            if kind == 'child':   # assumed contract of find_def: a direct child comes from the list it was given
                ctx.assume(and_(seen['slice'][0] <= j, j < seen['slice'][1]))
            return found
        base._set('find_def', find_def, count=False)
        it.globals['ASTS_LEAF_BLOCK_OR_MOD'] = frozenset([BLOCK])
        f = IFunc(it, loc.node, None, '_fixup_item_indices')
        try:
            r = it.call(f, (self, 'name'))
        except PyRaise as pr:
            ctx.notes['outcome'] = f'raise {pr.cls.__name__}'
            ctx.prove(f'{pre}.raises.only_when_not_found[{label}]', kind == 'none' and pr.cls is IndexError)
            ctx.prove(f'{pre}.raises.nothing_delegated[{label}]', not st['calls'])
            return
        ctx.notes['outcome'] = 'return'
        ctx.prove(f'{pre}.found_is_returned[{label}]', kind != 'none')
        ok = 'slice' in seen and seen.get('asts') == 'WINDOW'
        ctx.prove(f'{pre}.search.window_only[{label}]',
                  ok and eq((seen['slice'][0], seen['slice'][1]), (start + off, stop + off)) and seen['slice'][2] is None,
                  info='the name search must be confined to the elements of the view')
        ctx.prove(f'{pre}.bounds[{label}]', eq((r[0], r[1], r[2]), (start, stop, n)) and r[4] is None)
        if kind == 'child':
            ctx.prove(f'{pre}.designation[{label}]', eq(r[3] + start + off, j),
                      info='view-relative index of the found direct child: window[r] is the element at field position j')
            ctx.prove(f'{pre}.designation.in_window[{label}]', and_(0 <= r[3], r[3] < stop - start))
        else:
            ctx.prove(f'{pre}.deep_node_itself[{label}]', r[3] is found)
        ctx.prove(f'{pre}.read_only[{label}]', not st['calls'])

    out = []
    out.append(Fragment('view:FSTView._fixup_item_indices', prop, 'view.name_index',
                        [dict(m='name', stop=s_, field=fld, found=k) for s_ in ('None', 'int')
                         for fld in ('body', '_body', 'orelse') for k in ('child', 'deep', 'none')], run_name,
                        min_obligations=3, native=('k_view', 'replay_name_index'),
                        notes='str index branch; find_def under an assumed contract'))
    stops = ('None', 'int')
    simple = ['_base_indices', '__len__', 'append', 'extend', 'prepend', 'prextend', 'replace', 'remove', 'cut', 'copy']
    for m in simple:
        out.append(Fragment(f'view:FSTView.{m}', prop, f'view.{m}', [dict(m=m, stop=s) for s in stops], run,
                            native=('k_view', 'replay_view')))
    out.append(Fragment('view:FSTView.insert', prop, 'view.insert',
                        [dict(m='insert', stop=s, idx=i) for s in stops for i in (INT, 'end')], run,
                        native=('k_view', 'replay_view')))
    for m in ('__getitem__', '__setitem__', '__delitem__'):
        cases = [dict(m=m, stop=s, idx='int') for s in stops]
        if m == '__setitem__':     # view[i] = None is the delete form: the window must shrink with the field
            cases += [dict(m=m, stop=s, idx='int', code_none=True) for s in stops]
        cases += [dict(m=m, stop=s, idx='slice', lo=lo, hi=hi) for s in stops for lo in (INT, None) for hi in (INT, None)]
        out.append(Fragment(f'view:FSTView.{m}', prop, f'view.{m}', cases, run, native=('k_view', 'replay_view')))
    return out


def replay_view(payload):
    """native: rebuild the counter-model on a real List node and compare the real FSTView with a Python list"""
    from fst import FST
    m, info = payload['model'], payload['info']
    case = {}
    for part in info.get('case', '').split(','):
        k, _, v = part.partition('=')
        try:
            case[k] = eval(v)
        except Exception:
            case[k] = v
    n = m.get('len_field', 0)
    if not 0 <= n <= 40:
        return {'reproduced': False, 'note': f'model length {n} too large to rebuild'}
    names = [f'e{i}' for i in range(n)]
    f = FST('[' + ', '.join(names) + ']', 'expr')
    view = f.elts
    _start = m.get('_start', 0)
    _stop = None if case.get('stop') == 'None' else m.get('_stop', 0)
    view._start, view._stop = _start, _stop
    stop = n if _stop is None else min(_stop, n)
    start = min(_start, stop)
    model = list(names)
    W = model[start:stop]
    meth = case.get('m')
    try:
        if meth == 'insert':
            idx = case.get('idx') if case.get('idx') == 'end' else m.get('idx', 0)
            view.insert('NEW', idx)
            W.insert(len(W) if idx == 'end' else idx, 'NEW')
        elif meth == 'append':
            view.append('NEW'); W.append('NEW')
        elif meth == 'prepend':
            view.prepend('NEW'); W.insert(0, 'NEW')
        elif meth == 'extend':
            view.extend('NEW, NEW2'); W += ['NEW', 'NEW2']
        elif meth == 'prextend':
            view.prextend('NEW, NEW2'); W[0:0] = ['NEW', 'NEW2']
        elif meth == 'replace':
            view.replace('NEW', one=True) if False else view.replace('NEW, NEW2', one=False); W = ['NEW', 'NEW2']
        elif meth == 'remove':
            view.remove(); W = []
        elif meth == 'cut':
            view.cut(); W = []
        elif meth == '__len__':
            return {'observed': len(view), 'expected': len(W), 'reproduced': len(view) != len(W)}
        elif meth in ('__getitem__', '__delitem__', '__setitem__'):
            if case.get('idx') == 'slice':
                idx = slice(m.get('lo') if case.get('lo') == 'INT' else None, m.get('hi') if case.get('hi') == 'INT' else None)
            else:
                idx = m.get('idx', 0)
            if meth == '__getitem__':
                got = view[idx]
                exp = W[idx]
                gs = [x.src for x in got] if isinstance(idx, slice) else got.src
                return {'observed': gs, 'expected': exp, 'reproduced': gs != exp}
            if meth == '__delitem__':
                del view[idx]; del W[idx]
            else:
                view[idx] = 'NEW'
                if isinstance(idx, slice):
                    W[idx] = ['NEW']
                else:
                    W[idx] = 'NEW'
        else:
            return {'reproduced': False, 'note': f'no native replay for {meth}'}
    except IndexError as e:
        return {'observed': repr(e), 'reproduced': False, 'note': 'refused (IndexError)'}
    exp_full = model[:start] + W + model[stop:]
    got_full = [x.src for x in f.elts]
    got_win = [x.src for x in view]
    return {'observed_field': got_full, 'expected_field': exp_full, 'observed_window': got_win, 'expected_window': W,
            'reproduced': got_full != exp_full or got_win != W}


def entry_specs(prop='C03'):
    """Thin FST entry points (insert / append / extend / prepend / prextend): the (start, stop) handed to _put_slice,
    once normalised by the real fixup_slice_indices as every handler does, is the range the same list operation
    designates (list.insert clamping, append at len, prepend at 0), so equivalent entry points reach the handler with
    equal arguments.  Also fst:_swizzle_getput_params (positional field/stop swizzle)."""
    from pyvc import frontend, sym
    from pyvc.contract import Fragment, INT
    from pyvc.interp import Interp, IFunc, SObj, PyRaise

    def run(ctx, case, loc, pre, label):
        m = case['m']
        n = ctx.int('len_field')
        ctx.assume(n >= 0)
        calls = []
        self = SObj('self', {}, a=SObj('a', {}))
        self._set('_put_slice', lambda code, s, e, field, one=True, options=None: calls.append((s, e, field, one)) or self,
                  count=False)
        g = {'check_options': lambda o, *a, **k: o, 'fixup_field_body': lambda a, field, only_list: (field or 'body', None)}
        it = Interp(g)
        sw = frontend.locate('fst:_swizzle_getput_params')
        it.globals['_swizzle_getput_params'] = IFunc(it, sw.node, None, '_swizzle_getput_params')
        fix = IFunc(it, frontend.locate('fst_misc:fixup_slice_indices').node, None, 'fixup_slice_indices')
        f = IFunc(it, loc.node, None, m)
        if m == 'insert':
            idx = ctx.int('idx') if case['idx'] == INT else case['idx']
            it.call(f, (self, 'CODE', idx), {'field': 'elts'} if case.get('kwfield') else {})
            p = pyinsert_pos(n, idx)
            exp, exp_one = (p, p), True
        elif m in ('append', 'extend'):
            it.call(f, (self, 'CODE'))
            exp, exp_one = (n, n), (True if m == 'append' else False)
        else:
            it.call(f, (self, 'CODE'))
            exp, exp_one = (0, 0), (True if m == 'prepend' else False)
        ctx.notes['outcome'] = 'return'
        ok = len(calls) == 1
        ctx.prove(f'{pre}.delegates_once[{label}]', ok)
        if not ok:
            return
        s, e, field, one = calls[0]
        got = it.call(fix, (n, s, e))
        ctx.prove(f'{pre}.designation[{label}]', eq(tuple(got), exp),
                  info='normalised (start, stop) == what the same operation designates on a Python list of that length')
        ctx.prove(f'{pre}.one_flag[{label}]', one is exp_one)

    def run_swizzle(ctx, case, loc, pre, label):
        it = Interp({})
        f = IFunc(it, loc.node, None, '_swizzle_getput_params')
        start = ctx.int('start') if case['start'] == INT else case['start']
        stop = ctx.int('stop') if case['stop'] == INT else case['stop']
        r = it.call(f, (start, stop, case['field'], 'DS', 'DE'))
        ctx.notes['outcome'] = 'return'
        def is_field(x):
            return isinstance(x, str) and x != 'end'
        if is_field(start):
            exp = ('DS', 'DE', start)
        elif is_field(stop):
            exp = (start, 'DE', stop)
        else:
            exp = (start, stop, case['field'])
        ctx.prove(f'{pre}.post[{label}]', eq(tuple(r), exp))

    out = []
    for m in ('append', 'extend', 'prepend', 'prextend'):
        out.append(Fragment(f'fst:FST.{m}', prop, f'entry.{m}', [dict(m=m)], run))
    out.append(Fragment('fst:FST.insert', prop, 'entry.insert',
                        [dict(m='insert', idx=i, kwfield=k) for i in (INT, 'end') for k in (False, True)], run))
    vals = (INT, 'end', None, 'elts')
    out.append(Fragment('fst:_swizzle_getput_params', prop, 'entry.swizzle',
                        [dict(start=a, stop=b, field=c) for a in vals for b in vals for c in (None, 'body')], run_swizzle))
    return out


def replay_name_index(payload):
    """native: search a failing input of view['name'] on real trees - every window of a body of 4 defs x every name"""
    from fst import FST
    src = 'def a(): pass\ndef b(): pass\nclass c: pass\ndef d(): pass'
    names = ['a', 'b', 'c', 'd']
    for docstr in (False, True):
        body_src = ('"""doc"""\n' if docstr else '') + src
        for field in ('body', '_body'):
            for start in range(0, 4):
                for stop in range(start + 1, 5):
                    for nm in names:
                        root = FST(body_src, 'exec')
                        view = getattr(root, field)[start:stop]
                        off = 1 if (docstr and field == 'body') else 0
                        elems = names[max(0, start - off):max(0, stop - off)] if field == 'body' else names[start:stop]
                        call = f"FST({body_src!r}).{field}[{start}:{stop}][{nm!r}]"
                        try:
                            got = view[nm]
                        except IndexError:
                            if nm in elems:
                                return {'reproduced': True, 'call': call, 'observed': 'IndexError', 'expected': nm}
                            continue
                        except Exception as e:
                            return {'reproduced': True, 'call': call, 'observed': repr(e)}
                        gname = getattr(got.a, 'name', None)
                        if nm not in elems or gname != nm:
                            return {'reproduced': True, 'call': call, 'observed': gname, 'expected': nm if nm in elems else 'IndexError'}
    return {'reproduced': False, 'note': 'no failing (window, name) found'}


def put_one_specs(prop='C03'):
    """fst_put_one:_put_one, the branch that handles a sliceable field without a handler / a deletion: the single-element
    index is normalised like Python list indexing (negative from the end, IndexError out of range, the docstring offset of
    the virtual `_body`), and the operation is delegated exactly once to _put_slice(code, i, i + 1, field, one=True)."""
    from pyvc import frontend
    from pyvc.contract import Fragment
    from pyvc.interp import Interp, IFunc, SObj, PyRaise

    def run(ctx, case, loc, pre, label):
        n = ctx.int('len_field')
        idx = ctx.int('idx')
        ctx.assume(n >= 0)
        field = case['field']
        docstr = ctx.int('has_docstr') if field == '_body' else 0
        if field == '_body':
            ctx.assume(and_(0 <= docstr, docstr <= 1, docstr <= n))
        calls = []
        CLS = SObj('Cls', {})

        class Lst:
            def _sym_len(self):
                return n
        a = SObj('a', {}, **{'__class__': CLS, 'body': Lst(), field.lstrip('_') if field != '_all' else 'keys': Lst()})
        if field not in ('_body', '_all'):
            a._set(field, Lst(), count=False)
        self = SObj('self', {}, a=a, root=SObj('root', {}), has_docstr=docstr)
        if field.startswith('_') and field != '_body':
            self._set(field, Lst(), count=False)
        new_self = SObj('new_self', {}, a=SObj('new_a', {}))

        def put_slice(code, s, e, fld, one=False, options=None):
            calls.append((s, e, fld, one))
            return new_self
        self._set('_put_slice', put_slice, count=False)

        class Handlers:
            def get(self, key, default=None):
                return (True, None, None)      # sliceable, no dedicated handler
        it = Interp({'_PUT_ONE_HANDLERS': Handlers(), 'fst': SObj('fst', {}, FST=SObj('FSTcls', {})),
                     'isinstance': lambda o, t: False, '_ASTS_LEAF_MAPPING': frozenset(), 'arguments': SObj('arguments', {}),
                     '_ASTS_LEAF_PATTERN_ATTRLIKES': frozenset()})
        it.globals['fixup_one_index'] = IFunc(it, frontend.locate('fst_misc:fixup_one_index').node, None, 'fixup_one_index')
        f = IFunc(it, loc.node, None, '_put_one')
        code = None if case['delete'] else 'CODE'
        w = n - docstr if field == '_body' else n
        try:
            it.call(f, (self, code, idx, field, {}, False))
        except PyRaise as pr:
            ctx.notes['outcome'] = f'raise {pr.cls.__name__}'
            ctx.prove(f'{pre}.raises.only_out_of_range[{label}]', and_(pr.cls is IndexError, not_(pyindex_ok(w, idx))),
                      info='refused only when a Python list of that length refuses the index')
            ctx.prove(f'{pre}.raises.nothing_delegated[{label}]', not calls)
            return
        ctx.notes['outcome'] = 'return'
        ctx.prove(f'{pre}.index.valid_like_list[{label}]', pyindex_ok(w, idx))
        ok = len(calls) == 1
        ctx.prove(f'{pre}.delegates_once[{label}]', ok)
        if ok:
            s_, e_, fld, one = calls[0]
            i = pyindex(w, idx) + (docstr if field == '_body' else 0)
            ctx.prove(f'{pre}.designation[{label}]', and_(eq(s_, i), eq(e_, i + 1)),
                      info='the one-element window [i, i+1) of the real field that list indexing designates')
            ctx.prove(f'{pre}.field_and_one[{label}]', fld == ('body' if field == '_body' else field) and one is True)

    cases = [dict(field=fld, delete=d) for fld in ('elts', '_body') for d in (False, True)]
    return [Fragment('fst_put_one:_put_one', prop, 'entry.put_one', cases, run, min_obligations=3,
                     notes='sliceable branch (no dedicated handler / deletion, no `to`); ret_child=False')]


def dispatcher_specs(prop='C03'):
    """fst_put_slice:_put_slice and fst_put_one:_put_one (non-sliceable branch): the dispatch, guard and raw-fallback
    protocol every structured put goes through.
      guards        a circular put, a consumed tree and (for slices) `to` are refused before anything else happens
      raw=True      the node handler is not consulted; the raw path runs once inside a raw modification context
      raw falsy     the handler runs once inside a modification context for the field; its refusal propagates
      raw='auto'    a refusal (NodeError / SyntaxError / NotImplementedError) of the handler falls back to the raw path,
                    which receives the code AS IT WAS BEFORE the handler ran (an FST is copied first because the handler
                    may consume it); the original exception is chained
      returns       self (slice) / child or self (one) on success"""
    from pyvc import frontend
    from pyvc.contract import Fragment
    from pyvc.interp import Interp, IFunc, SObj, PyRaise

    class NodeError(Exception):
        pass

    def run(ctx, case, loc, pre, label):
        which = case['fn']
        log = []
        FSTCLS = SObj('FSTclass', {})
        root = SObj('root', {})
        a = SObj('a', {}, **{'__class__': SObj('Cls', {}), 'elts': ['x'], 'value': SObj('old_child', {})})
        self = SObj('self', {}, a=a, root=root)

        class Cm:
            def __init__(self, *args, **kw):
                self.args, self.kw = args, kw

            def __enter__(self):
                log.append(('enter', self.args, self.kw))
                return self

            def __exit__(self, et, ev, tb):
                log.append(('exit', et is not None))
                return False
        self._set('_modifying', lambda *args, **kw: Cm(*args, **kw), count=False)
        self._set('repath', lambda: self, count=False)
        code_kind = case['code']
        copies = []
        if code_kind == 'fst':
            code = SObj('code_fst', {}, a=SObj('code_a', {}), __isfst=True, consumed=False)

            def copy():
                c = SObj(f'code_copy{len(copies)}', {}, a=SObj('copy_a', {}), __isfst=True, consumed=False)
                copies.append((c, len([x for x in log if x[0] == 'handler'])))
                return c
            code._set('copy', copy, count=False)
        elif code_kind == 'consumed':
            code = SObj('dead_fst', {}, a=None, __isfst=True)
        elif code_kind == 'root':
            code = root
        else:
            code = 'SRC'
        raw = case['raw']
        handler_fails = case['handler_fails']
        raw_calls = []

        def handler(*args):
            log.append(('handler', args[1]))
            c = args[1]
            if isinstance(c, SObj) and c._get('consumed') is False:
                c._set('consumed', True, count=False)      # handlers may consume the tree they are given
            if handler_fails:
                raise PyRaise(NodeError('refused'))
            return SObj('new_child', {})

        def raw_put(*args):
            raw_calls.append(args[1])
            log.append(('raw', args[1]))
            return SObj('raw_result', {})

        class Handlers:
            def get(self, key, default=None):
                if which == '_put_slice':
                    return handler
                return (False, handler, SObj('static', {}))
        opts = {'raw': raw}
        if case.get('to'):
            opts['to'] = SObj('to_node', {})
        it = Interp({'NodeError': NodeError, '_PUT_SLICE_HANDLERS': Handlers(), '_PUT_ONE_HANDLERS': Handlers(),
                     '_put_slice_raw': raw_put, '_put_one_raw': raw_put,
                     'fst': SObj('fst', {}, FST=SObj('FSTcls', {}, get_option=lambda n, o=None: (o or {}).get(n, False)))})
        it.globals['fst']._get('FST')
        it.globals['isinstance'] = lambda o, t: isinstance(o, SObj) and o._get('__isfst') is True
        it.globals['getattr'] = lambda o, n, d=None: (lambda v: d if (v is None or v.__class__.__name__ == 'Absent') else v)(o._get(n))
        f = IFunc(it, loc.node, None, which)
        args = (self, code, 0, 1, 'elts', False, opts) if which == '_put_slice' else (self, code, None, 'value', opts, True)
        guard = code_kind in ('consumed', 'root') or (which == '_put_slice' and case.get('to'))
        try:
            r = it.call(f, args)
        except PyRaise as pr:
            ctx.notes['outcome'] = f'raise {pr.cls.__name__}'
            if guard:
                ctx.prove(f'{pre}.guard.refused_before_anything[{label}]', pr.cls is ValueError and not log)
                return
            ctx.prove(f'{pre}.refusal.only_the_handlers[{label}]', handler_fails and pr.cls is NodeError)
            ctx.prove(f'{pre}.refusal.propagates_only_without_raw[{label}]', raw is False and not raw_calls,
                      info='with raw falsy the handler\'s refusal reaches the caller and nothing else is tried')
            ctx.prove(f'{pre}.refusal.context_closed[{label}]', [x[0] for x in log] == ['enter', 'handler', 'exit'])
            return
        ctx.notes['outcome'] = 'return'
        ctx.prove(f'{pre}.guard.not_bypassed[{label}]', not guard)
        hcalls = [x for x in log if x[0] == 'handler']
        if raw is True:
            ctx.prove(f'{pre}.raw_true.handler_not_consulted[{label}]', not hcalls and raw_calls == [code])
            ctx.prove(f'{pre}.raw_true.raw_context[{label}]', [x[0] for x in log] == ['enter', 'raw', 'exit'] and
                      log[0][1][1:2] == (True,))
        elif not handler_fails:
            ctx.prove(f'{pre}.handler.once_inside_context[{label}]', [x[0] for x in log] == ['enter', 'handler', 'exit'] and
                      hcalls[0][1] is code and not raw_calls)
            if which == '_put_slice':
                ctx.prove(f'{pre}.returns_self[{label}]', r is self)
        else:
            ctx.prove(f'{pre}.fallback.only_with_auto[{label}]', raw == 'auto')
            ctx.prove(f'{pre}.fallback.order[{label}]',
                      [x[0] for x in log] == ['enter', 'handler', 'exit', 'enter', 'raw', 'exit'])
            if code_kind == 'fst':
                ctx.prove(f'{pre}.fallback.gets_code_preserved_before_the_handler[{label}]',
                          len(copies) == 1 and copies[0][1] == 0 and raw_calls == [copies[0][0]] and
                          raw_calls[0]._get('consumed') is False,
                          info='the raw path must not receive the tree the failed handler may already have consumed')
            else:
                ctx.prove(f'{pre}.fallback.gets_same_source[{label}]', raw_calls == [code])

    cases = []
    for fn in ('_put_slice', '_put_one'):
        for code in ('src', 'fst'):
            for raw in (False, True, 'auto'):
                for hf in (False, True):
                    cases.append(dict(fn=fn, code=code, raw=raw, handler_fails=hf))
        cases += [dict(fn=fn, code='consumed', raw=False, handler_fails=False),
                  dict(fn=fn, code='root', raw=False, handler_fails=False)]
    cases.append(dict(fn='_put_slice', code='src', raw=False, handler_fails=False, to=True))
    out = []
    for fn, ident in (('_put_slice', 'fst_put_slice:_put_slice'), ('_put_one', 'fst_put_one:_put_one')):
        out.append(Fragment(ident, prop, f'dispatch.{fn}', [c for c in cases if c['fn'] == fn], run, min_obligations=1,
                            notes='handler / raw path / modification context as recorded stubs; _put_one: non-sliceable field'))
    return out


def replace_specs(prop='C12'):
    """fst:FST.replace - the ROOT branch (the non-root branch only delegates to the parent's dispatcher, see
    dispatcher_specs).  Contract:
      refused       deleting the root, a `to` option, an already consumed tree and a non-root node as code are refused
                    with ValueError, and at that point `_lines` and the AST link of the root are what they were (no call
                    of _set_ast, no store to _lines)
      carried out   `_set_ast` is called exactly once, inside the modification context, with the new tree's AST - which is
                    not None (precondition of _set_ast: it stores `ast.f`) - and unmake=True; `_lines` is the new tree's
                    line list; the result is self
    code_as_all is stubbed by its contract (an FST is returned as itself unless it has a parent -> ValueError; source is
    parsed into a fresh root tree)."""
    from pyvc.contract import Fragment
    from pyvc.interp import Interp, IFunc, SObj, PyRaise

    def run(ctx, case, loc, pre, label):
        log = []
        LINES0 = ['old']
        a0 = SObj('a0', {})
        self = SObj('self', {}, a=a0, parent=None, _lines=LINES0, _parse_params={})

        class Cm:
            def __enter__(self_):
                log.append('enter')
                return self_

            def __exit__(self_, et, ev, tb):
                log.append('exit')
                return False
        self._set('_modifying', lambda *a, **k: Cm(), count=False)

        def set_ast(ast_, unmake=False):
            log.append(('set_ast', ast_, unmake))
            ctx.prove(f'{pre}.root.set_ast_precondition[{label}]', ast_ is not None,
                      info='_set_ast stores ast.f: it may only be handed a live AST')
            self._set('a', ast_, count=False)
        self._set('_set_ast', set_ast, count=False)
        kind = case['code']
        if kind == 'fst':
            code = SObj('code_fst', {}, a=SObj('code_a', {}), parent=None, _lines=['new'], __isfst=True)
        elif kind == 'consumed':
            code = SObj('dead_fst', {}, a=None, parent=None, _lines=['dead'], __isfst=True)
        elif kind == 'nonroot':
            code = SObj('child_fst', {}, a=SObj('child_a', {}), parent=SObj('par', {}), _lines=['other'], __isfst=True)
        elif kind == 'none':
            code = None
        else:
            code = 'SRC'
        parsed = []

        def code_as_all(c, options=None, parse_params=None, **kw):
            log.append('coerce')
            if isinstance(c, SObj):
                if c._get('parent'):
                    raise PyRaise(ValueError('expecting root node'))
                return c
            r = SObj('parsed_fst', {}, a=SObj('parsed_a', {}), parent=None, _lines=['parsed'], __isfst=True)
            parsed.append(r)
            return r
        opts = {'to': SObj('to_node', {})} if case.get('to') else {}
        FSTCLS = SObj('FSTcls', {})
        it = Interp({'check_options': lambda o: None, 'code_as_all': code_as_all, 'FST': FSTCLS})
        it.globals['isinstance'] = lambda o, t: isinstance(o, SObj) and o._get('__isfst') is True
        f = IFunc(it, loc.node, None, 'replace')
        refuse = kind in ('consumed', 'nonroot', 'none') or case.get('to')
        try:
            r = it.call(f, (self, code, True), opts)
        except PyRaise as pr:
            ctx.notes['outcome'] = f'raise {pr.cls.__name__}'
            ctx.prove(f'{pre}.root.refusal.only_documented[{label}]', bool(refuse) and pr.cls is ValueError)
            ctx.prove(f'{pre}.root.refusal.root_untouched[{label}]',
                      self._get('_lines') is LINES0 and self._get('a') is a0 and not [x for x in log if x[:1] == ('set_ast',)],
                      info='a refused root replacement must leave the lines and the AST link of the root alone')
            ctx.prove(f'{pre}.root.refusal.context_closed[{label}]', log.count('enter') == log.count('exit'))
            return
        ctx.notes['outcome'] = 'return'
        ctx.prove(f'{pre}.root.guard.not_bypassed[{label}]', not refuse)
        new = code if kind == 'fst' else (parsed[0] if parsed else None)
        calls = [x for x in log if x[:1] == ('set_ast',)]
        ctx.prove(f'{pre}.root.done.set_ast_once_in_context[{label}]',
                  new is not None and len(calls) == 1 and calls[0][1] is new._get('a') and calls[0][2] is True and
                  log.index('enter') < log.index(calls[0]) < log.index('exit'))
        ctx.prove(f'{pre}.root.done.lines_and_result[{label}]', new is not None and self._get('_lines') is new._get('_lines')
                  and r is self)

    cases = [dict(code=c) for c in ('src', 'fst', 'consumed', 'nonroot', 'none')] + [dict(code='src', to=True),
                                                                                      dict(code='fst', to=True)]
    return [Fragment('fst:FST.replace', prop, 'replace', cases, run, min_obligations=1,
                     notes='root branch; check_options / code_as_all / _modifying / _set_ast as recorded stubs')]
