"""C15/B - walking stays sound while the tree is being modified (bounded).

Scope: a table of small programs x walk settings (on x back) x every step k of the walk x a mutation action applied to
the node just yielded / its parent / a sibling x send(None|True|False).  Postconditions from the property: no exception,
termination within a bound, every yielded node is part of the tree at the time it is yielded, no node entered twice,
after replacing the current node its new children are walked, send() is honoured, final tree satisfies C01."""
import ast
import itertools

from contracts.b_lib import c01_violation

PROGRAMS = [
    ('list', 'x = [a, b, c]'),
    ('call', 'r = f(a, b=c, *d)'),
    ('dict', 'd = {**a, b: c, e: g}'),
    ('kwdef', 'def f(*, p, q=dflt, r=z): pass'),
    ('comp', 'v = [i for i in j if k]'),
    ('ifelse', 'if a:\n    b\nelse:\n    c'),
    ('binop', 'y = a + b * c'),
    ('nested', 'z = f(g(h), [i, j])'),
    ('stmts', 'a = 1\nb = 2\nc = 3'),
    ('defs', 'def f(a, b=1):\n    return a\nclass C(B): x = 1'),
    ('fstr', "s = f'{a}{b!r}'"),
    ('match', 'match a:\n    case [b, c]: pass\n    case {1: d}: pass'),
    ('starargs', 'def f(a, b=1, *v: t, k=2, **kw: u): pass'),
    ('lambda', 'g = lambda a, *v, **kw: a'),
    ('compare', 'r = a < b <= c == d'),
    ('boolop', 'r = a and b and c'),
]

ACTIONS = ['replace_cur', 'replace_cur_big', 'remove_cur', 'replace_parent', 'remove_parent', 'replace_next',
           'remove_next', 'replace_prev', 'remove_prev', 'del_following']


def donor(f, big=False):
    a = f.a
    if isinstance(a, ast.stmt):
        return 'if zz:\n    yy' if big else 'pass'
    if isinstance(a, ast.expr):
        return 'gg(hh, ii)' if big else 'zz'
    if isinstance(a, ast.pattern):
        return '[pp, qq]' if big else 'zz'
    return None


def in_tree(root, f):
    if f.a is None:
        return False
    return any(n is f.a for n in ast.walk(root.a))


def _within(f, top):
    while f is not None:
        if f is top:
            return True
        f = f.parent
    return False


def run_case(FST, src, on, back, k, action, send):
    root = FST(src, 'exec')
    n0 = sum(1 for _ in ast.walk(root.a))
    gen = root.walk(True, on, back=back)
    acted_leaving = False
    entered = []
    step = 0
    acted = None
    acted_node = None
    acted_cur = None
    new_desc = None
    to_send = None
    problems = []
    try:
        while True:
            try:
                if to_send is not None:
                    gen.send(to_send)   # documented protocol: send() answers with the same node again (echo)
                    to_send = None
                item = next(gen)
            except StopIteration:
                break
            if on == 'both':
                f, leaving = item
            else:
                f, leaving = item, on == 'leave'
            if not in_tree(root, f):
                problems.append(f'step {step}: yielded a node that is not part of the tree '
                                f'({"dead" if f.a is None else f.a.__class__.__name__})')
                break
            if not leaving:
                if any(f is e for e in entered) and not (acted_leaving and send is True and _within(f, acted_cur)):
                    problems.append(f'step {step}: node {f.a.__class__.__name__} entered twice')
                    break
                entered.append(f)
            if step == k and acted is None:
                target = f
                if action == 'del_following':
                    # delete, through the slice interface of the container, everything that follows the current node
                    par = f.parent
                    if par is None or f.pfield is None:
                        return None
                    pc = par.a.__class__.__name__
                    try:
                        if pc == 'arguments':
                            i = [a_ for a_ in par._cached_allargs()].index(f.a)
                            par.put_slice(None, i + 1, 'end', '_all')
                        elif pc == 'Compare':
                            i = 0 if f.pfield.name == 'left' else (f.pfield.idx + 1 if f.pfield.name == 'comparators' else None)
                            if i is None:
                                return None
                            par.put_slice(None, i + 1, 'end', '_all')
                        elif f.pfield.idx is not None:
                            if f.pfield.idx + 1 >= len(getattr(par.a, f.pfield.name)):
                                return None
                            par.put_slice(None, f.pfield.idx + 1, 'end', f.pfield.name)
                        else:
                            return None
                    except Exception:
                        return None
                    acted = (action, step)
                    acted_leaving = leaving
                    acted_node = f
                    acted_cur = f
                    step += 1
                    continue
                if action.endswith('parent'):
                    target = f.parent
                elif action.endswith('next'):
                    target = f.next()
                elif action.endswith('prev'):
                    target = f.prev()
                if target is None or target is root or not target.a:
                    return None
                d = donor(target, action == 'replace_cur_big')
                try:
                    if action.startswith('replace'):
                        if d is None:
                            return None
                        target.replace(d)
                    else:
                        target.remove()
                except Exception:
                    return None   # the edit itself was refused: not a walk matter
                acted = (action, step)
                acted_leaving = leaving
                acted_node = target
                acted_cur = f   # send(True) on LEAVING a node walks that node's children again (documented)
                if action == 'replace_cur_big' and target.a is not None:
                    new_desc = [n for n in ast.walk(target.a) if n is not target.a]
                if send is not None:
                    to_send = send
            step += 1
            if step > 6 * n0 + 60:
                problems.append('walk does not terminate (step bound exceeded)')
                break
    except Exception as e:
        problems.append(f'walk raised {e!r} after action {acted}')
    if acted is None:
        return None
    if not problems and new_desc is not None:
        # the replacement's children must be walked next - unless recursion was explicitly suppressed
        want = (send is not False) and not acted_leaving and (on == 'enter' or send is True or on == 'both')
        yielded = {id(f.a) for f in entered}
        if on == 'leave':
            want = send is True
        if want and on != 'leave':
            missing = [n.__class__.__name__ for n in new_desc if id(n) not in yielded and hasattr(n, '_fields')
                       and not isinstance(n, (ast.expr_context,))]
            if missing and in_tree(root, type('X', (), {'a': new_desc[0]})()):
                problems.append(f'after replacing the current node its new children were not walked: {missing[:4]}')
        if send is False and on in ('enter', 'both') and not acted_leaving:
            extra = [n.__class__.__name__ for n in new_desc if id(n) in yielded]
            if extra:
                problems.append(f'send(False) was not honoured: children of the replacement were walked: {extra[:4]}')
    if not problems:
        v = c01_violation(root)
        if v:
            problems.append(f'final tree violates C01: {v}')
    return problems


def leave_send_case(FST, src, k):
    """on='leave': replace the node just yielded and send(True): its new children must be walked (then it is yielded
    again on leaving)"""
    root = FST(src, 'exec')
    gen = root.walk(True, 'leave')
    step = 0
    to_send = None
    got_after = []
    new_desc = None
    try:
        while True:
            try:
                if to_send is not None:
                    gen.send(to_send)
                    to_send = None
                f = next(gen)
            except StopIteration:
                break
            if new_desc is not None:
                got_after.append(f)
            if step == k and new_desc is None:
                d = donor(f, True)
                if d is None or f is root:
                    return None
                try:
                    f.replace(d)
                except Exception:
                    return None
                new_desc = [n for n in ast.walk(f.a) if n is not f.a and not isinstance(n, ast.expr_context)]
                to_send = True
            step += 1
            if step > 500:
                return ['walk does not terminate']
    except Exception as e:
        return [f'walk raised {e!r}']
    if new_desc is None:
        return None
    ids = {id(f.a) for f in got_after}
    missing = [n.__class__.__name__ for n in new_desc if id(n) not in ids]
    if missing:
        return [f"on='leave': after replacing the yielded node and send(True) its new children were not walked: "
                f'{missing[:4]}']
    return []


def search_case(FST, src, on):
    """search(nested=False, on=...): replacing the matched node on its entering yield and send(True) must search the
    new children"""
    from fst.match import MName
    root = FST(src, 'exec')
    try:
        gen = root.search(MName('a'), nested=False, on=on)
    except TypeError:
        return None
    found = []
    to_send = None
    step = 0
    try:
        while True:
            try:
                if to_send is not None:
                    gen.send(to_send)
                    to_send = None
                item = next(gen)
            except StopIteration:
                break
            m = item[0] if isinstance(item, tuple) else item
            leaving = item[1] if isinstance(item, tuple) and len(item) > 1 else False
            node = getattr(m, 'matched', m)
            found.append((getattr(node, 'src', None), leaving))
            if step == 0 and not leaving:
                node.replace('g(a, a)')
                to_send = True
            step += 1
            if step > 200:
                return ['search does not terminate']
    except Exception as e:
        return [f'search raised {e!r}']
    inner = [s for s, lv in found[1:] if s == 'a' and not lv]
    if step and len(inner) < 2:
        return [f'search(nested=False, on={on!r}): after replacing the match with g(a, a) and send(True) the new '
                f'children were not searched (found {found})']
    return []


def main(payload):
    from fst import FST
    FST.set_options(norm=True)
    quick = payload.get('tier', 'quick') == 'quick'
    ev = 0
    distinct = set()
    failures = []
    samples = []
    for name, src in PROGRAMS:
        n = sum(1 for _ in ast.walk(ast.parse(src)))
        for on, back in itertools.product(('enter', 'leave', 'both'), (False, True)):
            for k in range(0, 2 * n + 2 if on == 'both' else n + 1):
                for action in ACTIONS:
                    for send in (None, True, False):
                        if quick and send is not None and action not in ('replace_cur', 'replace_cur_big'):
                            continue
                        r = run_case(FST, src, on, back, k, action, send)
                        if r is None:
                            continue
                        ev += 1
                        distinct.add((name, on, back, k, action, send))
                        if r and len(failures) < 25:
                            failures.append({'key': f'C15.B.walk:{name}:on={on},back={back},step={k},{action},send={send}',
                                             'what': '; '.join(r), 'program': src, 'replayed': True})
                        if len(samples) < 3 and not r:
                            samples.append({'program': src, 'on': on, 'back': back, 'step': k, 'action': action,
                                            'send': send, 'result': 'ok'})
        for k in range(n + 1):
            r = leave_send_case(FST, src, k)
            if r is None:
                continue
            ev += 1
            distinct.add((name, 'leave_send', k))
            if r and len(failures) < 25:
                failures.append({'key': f'C15.B.leave_send:{name}:step={k}', 'what': '; '.join(r), 'program': src,
                                 'replayed': True})
    # walks over a caller-supplied node list (`asts=`): the list may be a live field list of the tree and is only read
    for name, src in PROGRAMS:
        for on, back in itertools.product(('enter', 'leave', 'both'), (False, True)):
            root = FST(src, 'exec')
            cands = [root.a.body] + [v for f in root.walk(True) for v in vars(f.a).values()
                                     if isinstance(v, list) and len(v) > 1 and all(isinstance(e, ast.AST) for e in v)][:2]
            for lst in cands:
                before = list(lst)
                ev += 1
                distinct.add((name, 'asts', on, back, id(lst)))
                what = None
                try:
                    got = list(root.walk(True, on, back=back, asts=lst))
                except Exception as e:
                    what = f'walk(asts=<live field list>) raised {e!r}'
                else:
                    if len(lst) != len(before) or any(a is not b for a, b in zip(lst, before)):
                        what = (f'walk(asts=<live field list of {len(before)} nodes>, back={back}) changed the list it was '
                                f'given ({len(lst)} nodes afterwards)')
                    elif not got and before:
                        what = 'walk(asts=...) yielded nothing'
                    else:
                        v = c01_violation(root)
                        if v:
                            what = f'after walk(asts=<live field list>) the tree violates C01: {v}'
                if what and len(failures) < 25:
                    failures.append({'key': f'C15.B.asts:{name}:on={on},back={back}', 'what': what, 'program': src,
                                     'replayed': True})
    for on in ('enter', 'both'):
        for src in ('x = [a, b]', 'r = f(a)'):
            r = search_case(FST, src, on)
            if r is None:
                continue
            ev += 1
            distinct.add(('search', on, src))
            if r:
                failures.append({'key': f'C15.B.search:{src}:on={on}', 'what': '; '.join(r), 'program': src,
                                 'replayed': True})
    return {'name': 'C15.B.walk_mutation', 'evaluations': ev, 'distinct_nontrivial': len(distinct),
            'rule': 'small programs x on in {enter, leave, both} x back x every step of the walk x 9 mutation actions '
                    '(current / parent / previous / next sibling; replace, replace by a node with children, remove) x '
                    'send in {None, True, False}; distinct = distinct cases in which the mutation was accepted',
            'scope': f'{len(PROGRAMS)} programs of <= 25 nodes', 'samples': samples, 'exhaustive': not quick,
            'failures': failures, 'harness_errors': []}


def replay(payload):
    rep = payload.get('replay') or payload
    r = main({'tier': 'thorough'})
    hit = [f for f in r['failures'] if f['key'] == rep['key']]
    return {'reproduced': bool(hit), 'failure': hit[:1]}
