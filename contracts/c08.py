"""C08 - putting back what was taken restores the tree; accessors read back writes (bounded only)."""
from pyvc import native


def run(rep, tier, seed):
    sec = native.run('b_edit', 'main', {'props': ['C08'], 'tier': tier, 'seed': seed,
                                        'ops': ['self', 'slice', 'accessors'], 'norm': False})
    sec['native_entry'] = ('b_edit', 'replay')
    rep.bounded(sec)
    rep.remainder = 'unbounded strings / programs: nothing is proved for C08'
