"""C08 - putting back what was taken restores the tree; accessors read back writes."""
from contracts import k_docstr, k_cache, k_constant
from pyvc.contract import verify_all
from pyvc import native


def run(rep, tier, seed):
    # the docstring encoder is the inverse of CPython's string-literal decoder (finite over code points + bounded combos)
    k_docstr.run(rep, 'C08', tier)
    # the comment accessor splices text without offsetting: the parents' cached locations must be flushed right after
    k_cache.flush_structural(rep, 'C08')
    # the primitive-constant accessor: the text written denotes the value stored (or the put is refused, atomically)
    verify_all(rep, k_constant.specs('C08'))
    sec = native.run('k_docstr', 'bounded_combinations', {'tier': tier}, timeout=3600)
    sec['native_entry'] = ('k_docstr', 'replay')
    rep.bounded(sec)
    sec = native.run('b_edit', 'main', {'props': ['C08'], 'tier': tier, 'seed': seed,
                                        'ops': ['self', 'slice', 'accessors'], 'norm': False})
    sec['native_entry'] = ('b_edit', 'replay')
    rep.bounded(sec)
    # the round-trip laws under the non-default docstring policies (which string statements are re-indented)
    for ds in ('strict', False):
        sec = native.run('b_edit', 'main', {'props': ['C08'], 'tier': tier, 'seed': seed, 'ops': ['self', 'slice'],
                                            'norm': False, 'defaults': {'docstr': ds}, 'stride': 2})
        sec['name'] += f'[docstr={ds!r}]'
        sec['native_entry'] = ('b_edit', 'replay')
        rep.bounded(sec)
    rep.trusted.append('CPython ast.parse as the decoder of string literals')
    rep.remainder = ('the round-trip law of cut / put back and of own copy / source / AST replacement: bounded stand-in only '
                     '(defined by the parser and by source manipulation outside the verifier\'s reach); line-comment '
                     'accessor: bounded only')
