"""C09/B - the put path: for every (slot, child kind) point of the precedence domain x target layouts x code forms,
the real `replace` is performed and the edited source must parse (CPython) to the parent with exactly that replacement
in that position.  Bounded; labelled so."""
import ast

from contracts import k_prec

TARGET_LAYOUTS = [('bare', 'zz'), ('pars', '(zz)'), ('tight', '(zz)'), ('multiline', '(zz\n)')]
MULTI_CHILDREN = [('CallML', 'f(x,\n  y).z'), ('BinOpML', '(a +\n b)'), ('TupleML', '(a,\n b)'), ('IfExpML', '(a if b\n else c)')]
COMMENT_CHILDREN = [('BinOpCmtBS', '(a + # c:\\tmp\\\n b)'), ('CompareCmt', '(a < # cmt\n b)'), ('CallCmtBS', 'f(x, # c\\\n y)'),
                    ('BoolOpCmtBS', '(a and # \\\n b)'), ('IfExpCmtBS', '(a if b # \\\n else c)'),
                    ('AttrCmtBS', '(a # c \\\n . b)'), ('StrImplicitML', '("a"\n "b")'),
                    ('StrImplicitCmtBS', '("a" # c \\\n"b")')]
# put path only (not precedence-table points): async statement heads, and positions that are leftmost inside an
# f-string replacement field without being FormattedValue.value itself (a child starting with `{` must not abut the `{`)
EXTRA_SLOTS = [
    ('AsyncWith.context_expr', 'async with {}: pass', False), ('AsyncWith.context_expr.as', 'async with {} as v: pass', False),
    ('AsyncWith.context_expr.2', 'async with {}, z: pass', False), ('AsyncFor.iter', 'async for v in {}: pass', False),
    ('With.context_expr.2', 'with z, {}: pass', False),
    ('FStr.BinOp.left', "v = f'{{{} + y}}'", False), ('FStr.Attribute.value', "v = f'{{{}.b}}'", False),
    ('FStr.Compare.left', "v = f'{{{} < y}}'", False), ('FStr.Subscript.value', "v = f'{{{}[0]}}'", False),
    ('FStr.IfExp.body', "v = f'{{{} if t else z}}'", False), ('FStr.Tuple.elts.0', "v = f'{{{}, z}}'", False),
    ('FStr.BoolOp.values.0', "v = f'{{{} and z}}'", False), ('FStr.Call.func', "v = f'{{{}(z)}}'", False),
    ('FStr.deep.left', "v = f'{{{}.a.b + c}}'", False), ('FStr.IfExp.orelse', "v = f'{{a if b else {}}}'", False),
    ('FStr.spec', "v = f'{{{} + y:>{{w}}}}'", False),
]
PAT_MULTI = [('SeqBracketFirst', '[a], [b]'), ('SeqParenFirst', '(a), (b)'), ('OrML', '(a |\n b)'),
             ('ValueStrML', '("a"\n"b")'), ('ValueAttrML', '(a\n.b)')]
# single operations outside the slot x child grid: (name, source, node getter, operation, source the result must be
# structurally equal to)
SPECIALS = [
    ('starred_ml_child.tuple', 'x = *a, c', lambda f: f.body[0].value.elts[0], lambda n: n.replace('*(p +\n q)'),
     'x = *(p +\n q), c'),
    ('starred_ml_child.call', 'f(*a, c)', lambda f: f.body[0].value.args[0], lambda n: n.replace('*(p +\n q)'),
     'f(*(p +\n q), c)'),
    ('slice_one.BoolOp.lambda.0', 'a and b', lambda f: f.body[0].value,
     lambda n: n.put_slice('lambda: x', 0, 1, 'values', one=True), '(lambda: x) and b'),
    ('slice_one.BoolOp.lambda.1', 'a and b', lambda f: f.body[0].value,
     lambda n: n.put_slice('lambda: x', 1, 2, 'values', one=True), 'a and (lambda: x)'),
    ('slice_one.BoolOp.ifexp', 'a or b', lambda f: f.body[0].value,
     lambda n: n.put_slice('p if q else r', 0, 1, 'values', one=True), '(p if q else r) or b'),
    ('slice_one.Compare.lambda.0', 'a < b', lambda f: f.body[0].value,
     lambda n: n.put_slice('lambda: x', 0, 1, '_all', one=True), '(lambda: x) < b'),
    ('slice_one.Compare.lambda.1', 'a < b', lambda f: f.body[0].value,
     lambda n: n.put_slice('lambda: x', 1, 2, '_all', one=True), 'a < (lambda: x)'),
    ('slice_one.Compare.boolop', 'a < b', lambda f: f.body[0].value,
     lambda n: n.put_slice('p or q', 1, 2, '_all', one=True), 'a < (p or q)'),
    ('slice_one.Tuple.walrus', 'x = a, b', lambda f: f.body[0].value,
     lambda n: n.put_slice('p := q', 0, 1, 'elts', one=True), 'x = (p := q), b'),
    ('primitive.int_under_attribute', 'x = 1.0.real', lambda f: f.body[0].value.value, lambda n: n.put(2, 'value'),
     'x = (2).real'),
    ('primitive.int_under_attribute.pars', 'x = (1).real', lambda f: f.body[0].value.value, lambda n: n.put(2, 'value'),
     'x = (2).real'),
    ('node.int_under_attribute', 'x = a.real', lambda f: f.body[0].value.value, lambda n: n.replace('2'), 'x = (2).real'),
    ('node.float_under_attribute', 'x = a.real', lambda f: f.body[0].value.value, lambda n: n.replace('2.5'), 'x = 2.5.real'),
    # an annotated assignment target that has to be parenthesized as a whole when an inner value gets parentheses
    ('annassign_target.attr_of_subscript.ml', 'a[b].c: int', lambda f: f.body[0].target.value.value,
     lambda n: n.replace('x\n.y'), '((x\n.y)[b].c): int'),
    ('annassign_target.attr_chain.ml', 'a[b].c.d: int = 1', lambda f: f.body[0].target.value.value.value,
     lambda n: n.replace('x\n[y]'), '((x\n[y])[b].c.d): int = 1'),
    ('annassign_target.subscript_of_subscript.ml', 'a[b][c]: int', lambda f: f.body[0].target.value.value,
     lambda n: n.replace('x\n.y'), '((x\n.y)[b][c]): int'),
    ('annassign_target.pars_true', 'a[b].c: int', lambda f: f.body[0].target.value.value,
     lambda n: n.replace('(x)', pars=True), '((x)[b].c): int'),
    # one expression coerced to a decorator through the slice interface: precedence AND line structure
    ('decorator_slice.ml_binop', '@d\ndef f(): pass', lambda f: f.body[0],
     lambda n: n.put_slice('x +\n y', 0, 1, 'decorator_list'), '@(x +\n y)\ndef f(): pass'),
    ('decorator_slice.ml_attr', '@d\ndef f(): pass', lambda f: f.body[0],
     lambda n: n.put_slice('x\n.y', 0, 1, 'decorator_list'), '@(x\n.y)\ndef f(): pass'),
    ('decorator_slice.walrus', '@d\ndef f(): pass', lambda f: f.body[0],
     lambda n: n.put_slice('x := y', 0, 1, 'decorator_list'), '@(x := y)\ndef f(): pass'),
    ('decorator_slice.fst_ml', '@d\nclass C: pass', lambda f: f.body[0],
     lambda n: n.put_slice(n.root.__class__('x +\n y'), 0, 1, 'decorator_list'), '@(x +\n y)\nclass C: pass'),
]


def _find(tree, pred):
    for n in ast.walk(tree):
        if pred(n):
            return n
    return None


def _path_to(tree, target):
    def rec(n, path):
        if n is target:
            return path
        for f, v in ast.iter_fields(n):
            if isinstance(v, ast.AST):
                r = rec(v, path + [(f, None)])
                if r is not None:
                    return r
            elif isinstance(v, list):
                for i, e in enumerate(v):
                    if isinstance(e, ast.AST):
                        r = rec(e, path + [(f, i)])
                        if r is not None:
                            return r
        return None
    return rec(tree, [])


def _at(tree, path):
    n = tree
    for f, i in path:
        n = getattr(n, f)
        if i is not None:
            n = n[i]
    return n


def _norm(d):
    return d.replace('Store()', 'Load()').replace('Del()', 'Load()')


def main(payload):
    from fst import FST
    from contracts.b_lib import c01_violation, follow
    quick = payload.get('tier', 'quick') == 'quick'
    ev = 0
    distinct = set()
    failures = []
    samples = []
    refused = 0

    def fail(key, what, **kw):
        from contracts.b_lib import room
        ok, kn = room(failures, f"C09.B.{key}", 40, 8)
        if ok:
            failures.append(dict(key=f'C09.B.{key}', what=what, replayed=True, _known=kn, **kw))

    groups = [(k_prec.SLOTS + EXTRA_SLOTS, k_prec.EXPR_CHILDREN + MULTI_CHILDREN + COMMENT_CHILDREN, False),
              (k_prec.TARGET_SLOTS, k_prec.TARGET_CHILDREN, False),
              (k_prec.PATTERN_SLOTS, k_prec.PATTERN_CHILDREN + PAT_MULTI, True)]
    for slots, children, is_pat in groups:
        for sname, tmpl, arglike in slots:
            layouts = TARGET_LAYOUTS
            for lname, ltext in layouts:
                if lname == 'tight':
                    # parentheses directly abutting a following keyword, where the template allows it
                    t2 = tmpl.replace('{} if', '{}if').replace('{} for', '{}for').replace('{} else', '{}else') \
                        .replace('{} or', '{}or').replace('{} and', '{}and').replace('{} in', '{}in')
                    if t2 == tmpl:
                        continue
                    src = k_prec._wrap(t2.format(ltext))
                else:
                    src = k_prec._wrap(tmpl.format(ltext))
                try:
                    base = ast.parse(src)
                except SyntaxError:
                    continue
                tgt = _find(base, lambda n: (isinstance(n, ast.Name) and n.id == 'zz') or
                            (isinstance(n, ast.MatchAs) and n.name == 'zz' and n.pattern is None))
                if tgt is None or (isinstance(tgt, ast.MatchAs) and not is_pat):
                    continue   # the placeholder is a capture pattern here, not an expression slot
                path = _path_to(base, tgt)
                for cname, csrc in children:
                    # what must be there afterwards: the child as CPython parses it standalone (in parentheses)
                    try:
                        if is_pat:
                            exp = ast.parse('match _:\n case (\n' + csrc + '\n): pass').body[0].cases[0].pattern
                        else:
                            exp = ast.parse('(\n' + csrc + '\n)', mode='eval').body
                    except SyntaxError:
                        continue
                    forms = ('src',) if quick else ('src', 'fst')
                    for form in forms:
                        try:
                            root = FST(src, 'exec')
                            node = follow(root, [tuple(p) for p in path])
                            if not node:
                                continue
                            code = csrc if form == 'src' else FST(csrc, 'pattern' if is_pat else 'expr')
                        except Exception:
                            continue
                        ev += 1
                        key = f'put:{sname}<-{cname}:{lname}:{form}'
                        try:
                            node.replace(code)
                        except Exception:
                            refused += 1
                            distinct.add(('refused', sname, cname, lname, form))
                            continue
                        distinct.add(('ok', sname, cname, lname, form))
                        try:
                            new = ast.parse(root.src)
                        except SyntaxError as e:
                            fail(key + ':syntax', f'replacing the {sname} slot ({lname} layout) by {cname} {csrc!r} gives source '
                                 f'that does not parse: {e.msg}', src_after=root.src[:300])
                            continue
                        try:
                            got = _at(new, path)
                        except Exception:
                            got = None
                        if not isinstance(got, ast.AST):
                            got = None
                        if got is None or _norm(ast.dump(got)) != _norm(ast.dump(exp)):
                            # a Tuple put into a subscript slice / Starred contexts may legitimately restructure
                            fail(key + ':regroup', f'replacing the {sname} slot ({lname} layout) by {cname} {csrc!r}: the edited '
                                 f'source parses to {ast.dump(got)[:80] if got is not None else None} in that position, '
                                 f'expected {ast.dump(exp)[:80]}', src_after=root.src[:300])
                            continue
                        # everything else unchanged
                        if len(samples) < 3:
                            samples.append({'slot': sname, 'child': cname, 'layout': lname, 'form': form,
                                            'result': root.src.strip()[:80]})
    for name, src0, getter, op, want_src in SPECIALS:
        ev += 1
        try:
            root = FST(src0, 'exec')
            node = getter(root)
            want = _norm(ast.dump(ast.parse(want_src)))
        except Exception as e:
            fail(f'special:{name}:setup', f'harness: {e!r}')
            continue
        try:
            op(node)
        except Exception:
            refused += 1
            distinct.add(('refused', 'special', name))
            continue
        distinct.add(('ok', 'special', name))
        try:
            got = _norm(ast.dump(ast.parse(root.src)))
        except SyntaxError as e:
            fail(f'special:{name}:syntax', f'{name}: on {src0!r} the edited source {root.src!r} does not parse: {e.msg}',
                 src_after=root.src[:200])
            continue
        if got != want:
            fail(f'special:{name}:regroup', f'{name}: on {src0!r} the edited source {root.src!r} does not denote {want_src!r}',
                 src_after=root.src[:200])
    return {'name': 'C09.B.put_path', 'evaluations': ev, 'distinct_nontrivial': len(distinct),
            'rule': 'every slot template of the precedence domain x target layout {bare, parenthesised (thorough: tight '
                    'against a keyword, multi-line)} x every child kind (+ multi-line children) x code form {source '
                    '(thorough: FST)}: real replace(), then CPython must find exactly the child in that position; '
                    f'refused puts ({refused}) are not judged; distinct = (slot, child, layout, form, outcome)',
            'scope': 'same slot/child tables as the finite-domain oracle check', 'samples': samples,
            'exhaustive': False, 'failures': failures, 'harness_errors': []}


def replay(payload):
    rep = payload.get('replay') or payload
    r = main({'tier': 'thorough'})
    hit = [f for f in r['failures'] if f['key'] == rep['key']]
    return {'reproduced': bool(hit), 'failure': hit[:1]}
