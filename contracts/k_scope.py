"""Contracts for the stack builders of the scope walk (fst_traverse:_ScopeContext.create / stack_funcdef /
stack_ClassDef / stack_Lambda / stack_arguments / stack_comprehension) - C14: `siblings in the order their text
appears; back=True reverses sibling order only`, for walk(scope=True).

The walk pops its work list from the END.  For each builder:
    forward.source_order   popping the list the forward branch builds yields the children the scope walk may enter in
                           the order of their text (the order is written down below from the grammar:
                           decorators, type parameter bounds/defaults, per parameter annotation then default, *args
                           annotation, keyword-only parameters, **kwargs annotation, return annotation; bases and
                           keywords in merged syntax order; target, iterable, conditions of a generator; ...)
    back.mirror            popping the list the back branch builds yields exactly the reverse sequence
    frame                  the node lists of the AST read from are not modified (same objects, same contents)
The real method bodies are interpreted on node shapes enumerated up to the bounds in `cases` (list lengths <= 2 per
field, every presence pattern of the optional parts): shape-enumerated, not quantified over list length."""
import itertools


class _Cls:
    def __init__(self, n):
        self.n = n

    def __repr__(self):
        return self.n


CLS = {n: _Cls(n) for n in ('FunctionDef', 'AsyncFunctionDef', 'Lambda', 'ClassDef', 'ListComp', 'SetComp', 'GeneratorExp',
                            'DictComp')}


def specs(prop='C14'):
    from pyvc.contract import Fragment
    from pyvc.interp import Interp, IFunc, SObj, PyRaise, ABSENT

    def N(name, **kw):
        return SObj(name, {}, **kw)

    def getattr_(o, n, *d):
        v = o._get(n)
        if v is ABSENT:
            if d:
                return d[0]
            raise PyRaise(AttributeError(n))
        return v

    def interp():
        g = dict(CLS)
        g['ASTS_LEAF_FUNCDEF'] = frozenset([CLS['FunctionDef'], CLS['AsyncFunctionDef']])
        g['getattr'] = getattr_
        g.update(reversed=reversed, list=list, zip=zip, len=len)
        g['_ScopeContext'] = lambda *a: N('scope_ctx', args=a)
        return Interp(g)

    def pops(stack):
        return [x for x in reversed(stack) if x is not None]

    def snapshot(lists):
        return [(l, list(l)) for l in lists]

    def frame_ok(snap):
        return all(len(l) == len(c) and all(a is b for a, b in zip(l, c)) for l, c in snap)

    def tparams(n, bits):
        out = []
        for i in range(n):
            tp = N(f'tp{i}')
            if bits[2 * i]:
                tp._set('bound', N(f'tp{i}.bound'), count=False)
            else:
                tp._set('bound', None, count=False)
            if bits[2 * i + 1]:
                tp._set('default_value', N(f'tp{i}.default'), count=False)
            else:
                tp._set('default_value', None, count=False)
            out.append(tp)
        return out

    def tp_seq(tps):
        out = []
        for tp in tps:
            out += [x for x in (tp._get('bound'), tp._get('default_value')) if x is not None]
        return out

    def run_method(name, loc, self_, ast_, extra=()):
        outs = {}
        for back in (False, True):
            self_._set('back', back, count=False)
            it = interp()
            f = IFunc(it, loc.node, None, name)
            stack = ['BELOW']
            r = it.call(f, (self_, ast_, stack) + tuple(extra))
            outs[back] = (r, stack)
        return outs

    def judge(ctx, pre, label, outs, expected, snap, ret=True):
        (rf, sf), (rb, sb) = outs[False], outs[True]
        ctx.prove(f'{pre}.keeps_what_was_on_the_stack[{label}]', sf[:1] == ['BELOW'] and sb[:1] == ['BELOW'])
        pf, pb = pops(sf[1:]), pops(sb[1:])
        ctx.prove(f'{pre}.forward.source_order[{label}]', len(pf) == len(expected) and all(a is b for a, b in zip(pf, expected)),
                  info=f'popped {[getattr(x, "_name", x) for x in pf]} expected {[x._name for x in expected]}')
        ctx.prove(f'{pre}.back.mirror[{label}]', len(pb) == len(expected) and all(a is b for a, b in zip(pb, expected[::-1])),
                  info=f'popped {[getattr(x, "_name", x) for x in pb]}')
        ctx.prove(f'{pre}.frame[{label}]', frame_ok(snap) and rf is ret and rb is ret)

    # stack_funcdef -----------------------------------------------------------------------------------------------------
    def run_funcdef(ctx, case, loc, pre, label):
        npos, nargs, ndef, nkw = case['npos'], case['nargs'], case['ndef'], case['nkw']
        ann, kwd = case['ann'], case['kwd']
        k = 0

        def arg(name):
            nonlocal k
            a = N(name, annotation=N(name + '.ann') if ann[k % len(ann)] else None)
            k += 1
            return a
        pos = [arg(f'pos{i}') for i in range(npos)]
        args = [arg(f'arg{i}') for i in range(nargs)]
        defaults = [N(f'default{i}') for i in range(ndef)]
        kwonly = [arg(f'kw{i}') for i in range(nkw)]
        kw_defaults = [N(f'kwdefault{i}') if kwd[i % len(kwd)] else None for i in range(nkw)]
        vararg = arg('vararg') if case['vararg'] else None
        kwarg = arg('kwarg') if case['kwarg'] else None
        decos = [N(f'deco{i}') for i in range(case['ndeco'])]
        tps = tparams(case['ntp'] or 0, case['tpbits'])
        returns = N('returns') if case['returns'] else None
        A = N('arguments', posonlyargs=pos, args=args, defaults=defaults, kwonlyargs=kwonly, kw_defaults=kw_defaults,
              vararg=vararg, kwarg=kwarg)
        ast_ = N('def', args=A, decorator_list=decos, returns=returns)
        if case['ntp'] is not None:
            ast_._set('type_params', tps, count=False)
        snap = snapshot([pos, args, defaults, kwonly, kw_defaults, decos, tps])
        exp = list(decos) + tp_seq(tps)
        nonkw = pos + args
        dfl = [None] * (len(nonkw) - len(defaults)) + defaults
        for a, d in zip(nonkw, dfl):
            exp += [x for x in (a._get('annotation'), d) if x is not None]
        if vararg is not None and vararg._get('annotation') is not None:
            exp.append(vararg._get('annotation'))
        for a, d in zip(kwonly, kw_defaults):
            exp += [x for x in (a._get('annotation'), d) if x is not None]
        if kwarg is not None and kwarg._get('annotation') is not None:
            exp.append(kwarg._get('annotation'))
        if returns is not None:
            exp.append(returns)
        judge(ctx, pre, label, run_method('stack_funcdef', loc, N('self'), ast_), exp, snap)

    fd_cases = []
    for npos, nargs, nkw in itertools.product((0, 1), (0, 2), (0, 2)):
        for ndef in sorted({0, min(1, npos + nargs), npos + nargs}):
            for ann in ((1,), (0,), (1, 0), (0, 1)):
                fd_cases.append(dict(npos=npos, nargs=nargs, ndef=ndef, nkw=nkw, ann=ann, kwd=(0, 1), vararg=bool(nargs),
                                     kwarg=bool(nkw), ndeco=2 if npos else 0, ntp=2 if nkw else (None if npos else 0),
                                     tpbits=(1, 1, 0, 1) if npos else (1, 0, 1, 1), returns=bool(ann[0])))
    fd_cases.append(dict(npos=1, nargs=2, ndef=3, nkw=2, ann=(1,), kwd=(1,), vararg=True, kwarg=True, ndeco=2, ntp=2,
                         tpbits=(1, 1, 1, 1), returns=True))

    # stack_ClassDef ----------------------------------------------------------------------------------------------------
    def run_classdef(ctx, case, loc, pre, label):
        bases = [N(f'base{i}') for i in range(case['nb'])]
        kws = [N(f'keyword{i}') for i in range(case['nk'])]
        merged = []   # syntax order as the shared helper reports it: interleaved b0 k0 b1 k1 ...
        for i in range(max(len(bases), len(kws))):
            merged += bases[i:i + 1] + kws[i:i + 1]
        decos = [N(f'deco{i}') for i in range(case['ndeco'])]
        tps = tparams(case['ntp'] or 0, (1, 0, 1, 1))
        f = N('class.f')
        f._set('_cached_arglikes', lambda: merged, count=False)
        ast_ = N('class', bases=bases, keywords=kws, decorator_list=decos, f=f)
        if case['ntp'] is not None:
            ast_._set('type_params', tps, count=False)
        snap = snapshot([bases, kws, merged, decos, tps])
        exp = list(decos) + tp_seq(tps) + merged
        judge(ctx, pre, label, run_method('stack_ClassDef', loc, N('self'), ast_), exp, snap)

    cd_cases = [dict(nb=nb, nk=nk, ndeco=nd, ntp=ntp) for nb in (0, 1, 2) for nk in (0, 1, 2) for nd in (0, 2)
                for ntp in (None, 0, 2)]

    # stack_Lambda ------------------------------------------------------------------------------------------------------
    def run_lambda(ctx, case, loc, pre, label):
        defaults = [N(f'default{i}') for i in range(case['nd'])]
        kw_defaults = [N(f'kwdefault{i}') if b else None for i, b in enumerate(case['kwd'])]
        A = N('arguments', defaults=defaults, kw_defaults=kw_defaults)
        ast_ = N('lambda', args=A)
        snap = snapshot([defaults, kw_defaults])
        exp = defaults + [x for x in kw_defaults if x is not None]
        judge(ctx, pre, label, run_method('stack_Lambda', loc, N('self'), ast_), exp, snap)
        # no_back=True: the caller reverses as needed, the list is built in the `back` layout whatever self.back is
        outs = run_method('stack_Lambda', loc, N('self'), ast_, extra=(True,))
        ctx.prove(f'{pre}.no_back.same_layout_both_ways[{label}]',
                  [id(x) for x in outs[False][1]] == [id(x) for x in outs[True][1]] and
                  [x for x in outs[True][1][1:] if x is not None] == exp)

    la_cases = [dict(nd=nd, kwd=kwd) for nd in (0, 1, 2) for kwd in ((), (1,), (0, 1), (1, 0), (1, 1))]

    # stack_arguments ---------------------------------------------------------------------------------------------------
    def run_arguments(ctx, case, loc, pre, label):
        pos = [N(f'pos{i}') for i in range(case['npos'])]
        args = [N(f'arg{i}') for i in range(case['nargs'])]
        kwonly = [N(f'kw{i}') for i in range(case['nkw'])]
        vararg = N('vararg') if case['vararg'] else None
        kwarg = N('kwarg') if case['kwarg'] else None
        A = N('arguments', posonlyargs=pos, args=args, kwonlyargs=kwonly, vararg=vararg, kwarg=kwarg,
              defaults=[N('default_NOT_walked')], kw_defaults=[N('kwdefault_NOT_walked')])
        self_ = N('self', scope_args=A if case['top'] else N('other_arguments'))
        snap = snapshot([pos, args, kwonly])
        if not case['top']:
            outs = run_method('stack_arguments', loc, self_, A)
            ctx.prove(f'{pre}.not_the_scope_arguments.untouched[{label}]',
                      outs[False] == (False, ['BELOW']) and outs[True] == (False, ['BELOW']) and frame_ok(snap))
            return
        exp = pos + args + ([vararg] if vararg else []) + kwonly + ([kwarg] if kwarg else [])
        judge(ctx, pre, label, run_method('stack_arguments', loc, self_, A), exp, snap)

    ar_cases = [dict(npos=a, nargs=b, nkw=c, vararg=v, kwarg=k, top=True) for a in (0, 2) for b in (0, 2) for c in (0, 2)
                for v in (0, 1) for k in (0, 1)] + [dict(npos=1, nargs=1, nkw=1, vararg=1, kwarg=1, top=False)]

    # stack_comprehension -----------------------------------------------------------------------------------------------
    def run_comprehension(ctx, case, loc, pre, label):
        target, iter_ = N('target'), N('iter')
        ifs = [N(f'if{i}') for i in range(case['nifs'])]
        ast_ = N('comprehension', target=target, iter=iter_, ifs=ifs)
        self_ = N('self', scope_first_iter=iter_ if case['first'] else N('other_iter'))
        snap = snapshot([ifs])
        exp = [target] + ([] if case['first'] else [iter_]) + ifs
        judge(ctx, pre, label, run_method('stack_comprehension', loc, self_, ast_), exp, snap)

    co_cases = [dict(nifs=n, first=f) for n in (0, 1, 2, 3) for f in (False, True)]

    # create ------------------------------------------------------------------------------------------------------------
    def run_create(ctx, case, loc, pre, label):
        kind = case['kind']
        body = [N(f'stmt{i}') for i in range(case['nbody'])]
        tps = [N(f'tp{i}') for i in range(case['ntp'] or 0)]
        gens = [N(f'gen{i}', iter=N(f'gen{i}.iter')) for i in range(case['ngen'])]
        A = N('arguments')
        ast_ = N('root_ast', **{'__class__': CLS[kind]})
        if kind in ('FunctionDef', 'AsyncFunctionDef'):
            ast_._set('args', A, count=False)
            ast_._set('body', body, count=False)
            exp = tps + [A] + body
        elif kind == 'Lambda':
            lb = N('lambda_body')
            ast_._set('args', A, count=False)
            ast_._set('body', lb, count=False)
            exp = [A, lb]
        elif kind == 'ClassDef':
            ast_._set('body', body, count=False)
            exp = tps + body
        elif kind == 'DictComp':
            kx, vx = N('key'), N('value')
            ast_._set('key', kx, count=False)
            ast_._set('value', vx, count=False)
            ast_._set('generators', gens, count=False)
            exp = [kx, vx] + gens
        else:
            ex = N('elt')
            ast_._set('elt', ex, count=False)
            ast_._set('generators', gens, count=False)
            exp = [ex] + gens
        if case['ntp'] is not None and kind != 'Lambda':
            ast_._set('type_params', tps, count=False)
        snap = snapshot([body, tps, gens])
        res = {}
        for back in (False, True):
            it = interp()
            f = IFunc(it, loc.node, None, 'create')
            res[back] = it.call(f, (N('walk_root'), True, back, N('check'), ast_))
        (cf, sf), (cb, sb) = res[False], res[True]
        pf, pb = pops(sf), pops(sb)
        ctx.prove(f'{pre}.forward.source_order[{label}]', len(pf) == len(exp) and all(a is b for a, b in zip(pf, exp)),
                  info=f'popped {[x._name for x in pf]} expected {[x._name for x in exp]}')
        ctx.prove(f'{pre}.back.mirror[{label}]', len(pb) == len(exp) and all(a is b for a, b in zip(pb, exp[::-1])),
                  info=f'popped {[x._name for x in pb]}')
        ctx.prove(f'{pre}.frame.fresh_stack[{label}]', frame_ok(snap) and all(sf is not l and sb is not l for l in (body, tps, gens)),
                  info='the work list is popped by the walk: it must not be one of the node\'s own lists')
        is_fn = kind in ('FunctionDef', 'AsyncFunctionDef', 'Lambda')
        first_iter = gens[0]._get('iter') if gens else None
        for c, back in ((cf, False), (cb, True)):
            a = c._get('args')
            ctx.prove(f'{pre}.context[{label},back={back}]',
                      a[2] is back and a[4] is (kind in ('FunctionDef', 'AsyncFunctionDef', 'ClassDef')) and
                      a[5] is (A if is_fn else None) and a[6] is (first_iter if kind in ('ListComp', 'SetComp', 'GeneratorExp', 'DictComp') else None))

    cr_cases = [dict(kind=k, nbody=nb, ntp=ntp, ngen=0) for k in ('FunctionDef', 'AsyncFunctionDef', 'ClassDef')
                for nb in (1, 3) for ntp in (None, 0, 2)] + \
               [dict(kind='Lambda', nbody=0, ntp=None, ngen=0)] + \
               [dict(kind=k, nbody=0, ntp=None, ngen=n) for k in ('ListComp', 'SetComp', 'GeneratorExp', 'DictComp')
                for n in (0, 1, 3)]

    note = ('real method body interpreted on enumerated node shapes (lists up to length 2-3 per field, every presence pattern '
            'of optional parts); marker objects for nodes; the walk pops from the end of the list')
    P = 'fst_traverse:_ScopeContext.'
    return [Fragment(P + 'stack_funcdef', prop, 'scope.stack_funcdef', fd_cases, run_funcdef, notes=note, min_obligations=4, native=('k_scope', 'replay_scope')),
            Fragment(P + 'stack_ClassDef', prop, 'scope.stack_ClassDef', cd_cases, run_classdef, notes=note, min_obligations=4, native=('k_scope', 'replay_scope')),
            Fragment(P + 'stack_Lambda', prop, 'scope.stack_Lambda', la_cases, run_lambda, notes=note, min_obligations=4, native=('k_scope', 'replay_scope')),
            Fragment(P + 'stack_arguments', prop, 'scope.stack_arguments', ar_cases, run_arguments, notes=note, min_obligations=1, native=('k_scope', 'replay_scope')),
            Fragment(P + 'stack_comprehension', prop, 'scope.stack_comprehension', co_cases, run_comprehension, notes=note,
                     min_obligations=4, native=('k_scope', 'replay_scope')),
            Fragment(P + 'create', prop, 'scope.create', cr_cases, run_create, notes=note, min_obligations=4, native=('k_scope', 'replay_scope'))]


REPLAY_SOURCES = [
    'def f[T: int = str, *U](a: int, /, b: str = 1, *c: list, d: int, e=2, **k: dict) -> None:\n    x = 1\n    return x',
    'async def g[T](a, b=1):\n    await a',
    '@deco(1)\n@other\nclass C[T: (int, str)](a, k0=v0, *s1, k1=v1, **kw):\n    x: int = 1\n    def m(self): pass',
    'def outer():\n    @d1\n    def inner[V: int](p: int = 1, *, q: str = "s") -> int: pass\n'
    '    class K(b0, m=M, *rest): pass\n    f = lambda a=1, *, b=2: a + b\n    return inner',
    'r = [i for i in range(3) for j in range(i) if i if j if i + j]',
    'r = {k: v for k, v in items if k if v}',
    'r = (x for x in y if a if b)',
    'f = lambda a, b=1, *c, d=2, **e: (a, b, c, d, e)',
]


def replay_scope(payload):
    """native: walk(scope=True) from every scope opener of REPLAY_SOURCES (and from the Module): forward = the plain walk
    restricted to the yielded nodes; back=True = the forward scope walk with sibling order reversed at every level"""
    from fst import FST
    n = 0
    for src in REPLAY_SOURCES:
        try:
            root = FST(src, 'exec')
        except Exception:
            continue
        for f in root.walk(True):
            if f.a.__class__.__name__ not in ('Module', 'FunctionDef', 'AsyncFunctionDef', 'Lambda', 'ClassDef', 'ListComp',
                                              'SetComp', 'DictComp', 'GeneratorExp'):
                continue
            for all_ in (True, False):
                n += 1
                try:
                    fw = list(f.walk(all_, scope=True))
                    bw = list(f.walk(all_, scope=True, back=True))
                except Exception as e:
                    return {'reproduced': True, 'source': src, 'call': f'{f.a.__class__.__name__}.walk({all_}, scope=True)',
                            'observed': repr(e)}
                yielded = {id(x) for x in fw}
                plain = [x for x in f.walk(all_) if id(x) in yielded]
                if [id(x) for x in plain] != [id(x) for x in fw]:
                    return {'reproduced': True, 'source': src,
                            'call': f'list({f.a.__class__.__name__}.walk({all_}, scope=True))',
                            'observed': [x.src[:16] for x in fw][:24], 'expected': [x.src[:16] for x in plain][:24]}
                kids = {}
                for x in fw[1:]:
                    p = x.parent
                    while p is not None and id(p) not in yielded:
                        p = p.parent
                    kids.setdefault(id(p), []).append(x)

                def mirror(x):
                    out = [x]
                    for c in reversed(kids.get(id(x), [])):
                        out.extend(mirror(c))
                    return out
                exp = mirror(f)
                if [id(x) for x in bw] != [id(x) for x in exp]:
                    return {'reproduced': True, 'source': src,
                            'call': f'list({f.a.__class__.__name__}.walk({all_}, scope=True, back=True))',
                            'observed': [x.src[:16] for x in bw][:24], 'expected': [x.src[:16] for x in exp][:24]}
    return {'reproduced': False, 'candidates': n}
