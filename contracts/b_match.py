"""C17/B - matching depends only on structure; quantifiers behave like regular expressions (bounded; the property's
own bound).  Oracle for the quantifier part: `re.fullmatch` on the encoding of the element sequence."""
import ast
import itertools
import re


def main(payload):
    from fst import FST
    from fst.match import (M, MList, MDict, MQ, MQSTAR, MQPLUS, MQOPT, MTAG, MOR, MAND, MNOT, MName, MConstant,
                           MCall, MCB, MRE, MTYPES, MAST, MMAYBE, MImportFrom, MReturn, MSubscript, MStore, MLoad)
    quick = payload.get('tier', 'quick') == 'quick'
    ev = 0
    distinct = set()
    failures = []
    samples = []

    caps = {}

    def fail(key, what, **kw):
        from contracts.b_lib import is_known
        cls = key.split(':')[0] + (':known' if is_known(f'C17.B.{key}') else '')
        caps[cls] = caps.get(cls, 0) + 1
        if caps[cls] <= (8 if cls.endswith(':known') else 30):
            failures.append(dict(key=f'C17.B.{key}', what=what, replayed=True, **kw))

    # ---------------------------------------------------------------------------------------------------------------
    # (1) quantifier sequences == regular expressions
    # item: (label, builder(tagname) -> pattern item, regex fragment, tagged?)
    def items():
        out = [('a', lambda t: 'a', 'a', False), ('b', lambda t: 'b', 'b', False), ('.', lambda t: ..., '.', False)]
        for base_label, base_pat, base_re in (('.', ..., '.'), ('a', 'a', 'a')):
            for qname, ctor, rx in (('*', lambda p, t: MQSTAR(**{t: p}), '*'), ('+', lambda p, t: MQPLUS(**{t: p}), '+'),
                                    ('?', lambda p, t: MQOPT(**{t: p}), '?'),
                                    ('{1,2}', lambda p, t: MQ(**{t: p}, min=1, max=2), '{1,2}'),
                                    ('{2,}', lambda p, t: MQ(**{t: p}, min=2, max=None), '{2,}'),
                                    ('*?', lambda p, t: MQSTAR.NG(**{t: p}), '*?'),
                                    ('+?', lambda p, t: MQPLUS.NG(**{t: p}), '+?'),
                                    ('??', lambda p, t: MQOPT.NG(**{t: p}), '??')):
                out.append((base_label + qname, (lambda t, c=ctor, p=base_pat: c(p, t)), f'({base_re}{rx})', True))
        # sublist quantifier
        out.append(('(ab)*', lambda t: MQSTAR(**{t: ['a', 'b']}), '((?:ab)*)', 'sub'))
        out.append(('(ab)+?', lambda t: MQPLUS.NG(**{t: ['a', 'b']}), '((?:ab)+?)', 'sub'))
        return out
    ITEMS = items()
    maxp = 3 if quick else 4
    maxl = 4 if quick else 6
    seqs = [''.join(s) for n in range(0, maxl + 1) for s in itertools.product('ab', repeat=n)]
    targets = {s: FST('[' + ', '.join(s) + ']', 'expr') for s in seqs}
    import random
    rnd = random.Random(payload.get('seed', 0))
    combos = [c for n in range(1, maxp + 1) for c in itertools.product(range(len(ITEMS)), repeat=n)]
    if quick and len(combos) > 2500:
        combos = rnd.sample(combos, 2500)
    for combo in combos:
        pats, rx, tags = [], '', []
        for k, i in enumerate(combo):
            label, build, frag, tagged = ITEMS[i]
            t = f't{k}'
            pats.append(build(t))
            rx += frag
            if tagged:
                tags.append((t, tagged))
        try:
            pat = MList(pats)
        except Exception as e:
            fail(f'quant.build:{[ITEMS[i][0] for i in combo]}', f'building the pattern raised {e!r}')
            continue
        creg = re.compile(rx)
        for s in seqs:
            ev += 1
            try:
                m = pat.match(targets[s])
            except Exception as e:
                fail(f'quant.raises:{[ITEMS[i][0] for i in combo]}:{s}', f'match raised {e!r}')
                continue
            r = creg.fullmatch(s)
            qcls = 'quant.sublist' if any(ITEMS[i][3] == 'sub' for i in combo) else 'quant'
            key = f'{qcls}:{"".join(ITEMS[i][0] + " " for i in combo).strip()}:{s or "-"}'
            if (m is None) != (r is None):
                fail(key, f'pattern [{", ".join(ITEMS[i][0] for i in combo)}] on [{", ".join(s)}]: match is '
                     f'{"accepted" if m else "rejected"} but regex {rx!r} {"accepts" if r else "rejects"} {s!r}')
                continue
            if m is not None:
                for gi, (t, kind) in enumerate(tags):
                    got = m.tags.get(t)
                    n_got = len(got) if got is not None else 0
                    n_exp = len(r.group(gi + 1))
                    if kind == 'sub':
                        n_exp //= 2
                    if n_got != n_exp:
                        fail(key + f':capture{gi}', f'pattern [{", ".join(ITEMS[i][0] for i in combo)}] on '
                             f'[{", ".join(s)}]: quantifier #{gi} captured {n_got} repetitions, regex {rx!r} captures '
                             f'{n_exp}')
                        break
            distinct.add(('quant', combo, s))
    samples.append({'pattern': "MList([MQSTAR.NG(t0=...), MQ(t1='a', min=1, max=2), MQSTAR(t2=...)])",
                    'target': '[a, a, b]', 'oracle': "re.fullmatch('(.*?)(a{1,2})(.*)', 'aab')"})
    # back-references
    for s in seqs:
        for pat, rx in ((MList([M(x=...), MQSTAR, MTAG('x')]), r'(.).*\1'), (MList([M(x=...), MTAG('x'), MQSTAR]), r'(.)\1.*'),
                        (MList([MQSTAR.NG, M(x=...), MTAG('x'), MQSTAR]), r'.*?(.)\1.*')):
            ev += 1
            m = pat.match(targets[s])
            r = re.fullmatch(rx, s)
            if (m is None) != (r is None):
                fail(f'backref:{rx}:{s or "-"}', f'back-reference pattern ~ {rx!r} on {s!r}: match {m is not None}, regex '
                     f'{r is not None}')
            distinct.add(('backref', rx, s))

    # back-references into a quantified, tagged sub-pattern with static tags: a capture made by an iteration that the
    # greedy quantifier later gives back must not survive (regex: the group keeps its LAST kept iteration)
    for s in seqs:
        for label, mk, rx in (
                ('q*static', lambda: MList([MQSTAR(M(x=...), st=1), MTAG('x')]), r'(?:(.))*\1'),
                ('q+static', lambda: MList([MQPLUS(M(x=...), st=1), MTAG('x')]), r'(?:(.))+\1'),
                ('q*plain', lambda: MList([MQSTAR(M(x=...)), MTAG('x')]), r'(?:(.))*\1'),
                ('q{1,2}static', lambda: MList([MQ(M(x=...), min=1, max=2, st=1), MTAG('x'), MQSTAR]), r'(?:(.)){1,2}\1.*')):
            ev += 1
            try:
                m = mk().match(targets[s])
            except Exception as e:
                fail(f'backref.quant:{label}:{s or "-"}', f'match raised {e!r}')
                continue
            try:
                r = re.fullmatch(rx, s)
            except re.error:
                continue
            if (m is None) != (r is None):
                fail(f'backref.quant:{label}:{s or "-"}', f'quantified capture + back-reference ~ {rx!r} on {s!r}: match '
                     f'{m is not None}, regex {r is not None}')
            elif m is not None and 'static' in label and m.tags.get('st') != 1:
                fail(f'backref.quant.static:{label}:{s or "-"}', f'static tag of the quantifier lost: {m.tags.get("st")!r}')
            distinct.add(('backref.quant', label, s))

    # MMAYBE(p) == MOR(p, None) on every kind of field value, falsy ones included (0, '', b'', False, empty list)
    for src_m, get, pats_m in (
            ('from m import y', lambda f: f.body[0], [lambda W: MImportFrom(module='m', level=W(1)), lambda W: MImportFrom(level=W(0))]),
            ('from . import y', lambda f: f.body[0], [lambda W: MImportFrom(level=W(1)), lambda W: MImportFrom(level=W(0))]),
            ('x = 0', lambda f: f.body[0].value, [lambda W: MConstant(value=W(1)), lambda W: MConstant(value=W(0))]),
            ("x = ''", lambda f: f.body[0].value, [lambda W: MConstant(value=W('a')), lambda W: MConstant(value=W(''))]),
            ('x = False', lambda f: f.body[0].value, [lambda W: MConstant(value=W(True)), lambda W: MConstant(value=W(False))]),
            ('f()', lambda f: f.body[0].value, [lambda W: MCall(args=W([MName('a')])), lambda W: MCall(args=W([]))]),
            ('return', lambda f: f.body[0], [lambda W: MReturn(value=W(MName('a'))), lambda W: MReturn(value=W(None))])):
        try:
            node = get(FST(src_m, 'exec'))
        except Exception:
            continue
        for k, mkp in enumerate(pats_m):
            ev += 1
            try:
                a_ = node.match(mkp(lambda p: MMAYBE(p)))
                b_ = node.match(mkp(lambda p: MOR(p, None)))
            except Exception as e:
                fail(f'maybe.raises:{src_m}:{k}', f'MMAYBE / MOR(p, None) raised {e!r}')
                continue
            if (a_ is None) != (b_ is None):
                fail(f'maybe:{src_m}:{k}', f'MMAYBE(p) {"matches" if a_ else "rejects"} but MOR(p, None) '
                     f'{"matches" if b_ else "rejects"} on {src_m!r} (pattern #{k})')
            distinct.add(('maybe', src_m, k))

    # options reach search(): search(pat, ctx=True) == filter(match(pat, ctx=True), walk)
    for src_c in ('i = i + i', 'a[b] = a[c]', 'del x, y\nx = y', 'for t in t: t += t'):
        f0 = FST(src_c, 'exec')
        for pat_c in (MName(ctx=MStore), MName(ctx=MLoad), MSubscript(ctx=MStore), ast.Name('i', ast.Store()),
                      ast.Name('t', ast.Load()), ast.Name('y', ast.Store()), ast.Name('x', ast.Del()),
                      ast.Subscript(ast.Name('a', ast.Load()), ast.Name('b', ast.Load()), ast.Load())):
            for ctx_opt in (True, False):
                ev += 1
                try:
                    found = [id(m.matched.a) for m in f0.search(pat_c, nested=True, ctx=ctx_opt)]
                    exp = [id(x.a) for x in f0.walk(True) if x.match(pat_c, ctx=ctx_opt)]
                except Exception as e:
                    fail(f'search.ctx.raises:{src_c}:{pat_c.__class__.__name__}:{ctx_opt}', f'raised {e!r}')
                    continue
                if found != exp:
                    fail(f'search.ctx:{src_c}:{pat_c.__class__.__name__}:{ctx_opt}', f'search(ctx={ctx_opt}) yields '
                         f'{len(found)} nodes, filtering walk() with match(ctx={ctx_opt}) gives {len(exp)}')
                distinct.add(('search.ctx', src_c, ast.dump(pat_c) if isinstance(pat_c, ast.AST) else repr(pat_c), ctx_opt))

    # ---------------------------------------------------------------------------------------------------------------
    # (2) structure only: formatted tree, re-laid-out tree and pure AST give the same result and tags
    PROGS = ['x = f(a, b=1)\nif y:\n    z = [1, 2, {k: v}]\n', 'def g(p, *q, r=2, **s):\n    return p + q[0] * r\n',
             'for i in range(3):\n    print(i, sep="")\nelse:\n    pass\n', 'd = {**a, 1: b, **c, 2: e}\n',
             'class C(B, m=M):\n    """doc"""\n    v: int = 3\n', 'r = not a and (b or c) < d <= e\n']
    PATS = [('names', MName), ('const1', MConstant(1)), ('call', MCall(func=MName('f'))),
            ('or', MOR(MName('a'), MConstant(2))), ('tagged', M(n=MName)), ('list_q', MList([MQSTAR, MConstant(2), MQSTAR])),
            ('dict_keys', MDict(keys=[MQSTAR, M(k=MConstant(1)), MQSTAR])),
            ('dict_keys_or', MDict(keys=MOR([MQSTAR, MConstant(2)], [MConstant(7)]))),
            ('dict_keys_len', MDict(keys=M(k=[..., ..., ..., ...]))), ('dict_keys_len3', MDict(keys=M(k=[..., ..., ...]))),
            ('not_name', MNOT(MName('x')))]

    def tagsig(m):
        if m is None:
            return None
        out = {}
        for k, v in m.tags.items():
            def one(x):
                if x.__class__.__name__.startswith('FSTView'):
                    return [one(e) for e in x]
                if x.__class__.__name__ == 'FSTMatch':
                    x = x.matched
                    if isinstance(x, list):
                        return [one(e) for e in x]
                a = x if isinstance(x, ast.AST) else getattr(x, 'a', None)
                if isinstance(a, ast.AST):
                    return ast.dump(a)
                if isinstance(x, (list, tuple)):
                    return [one(e) for e in x]
                return repr(x) if isinstance(x, (str, int, float, type(None), bool)) else x.__class__.__name__
            out[k] = [one(x) for x in v] if isinstance(v, list) else one(v)
        return out
    for src in PROGS:
        f1 = FST(src, 'exec')
        f2 = FST(ast.unparse(ast.parse(src)), 'exec')
        pure = ast.parse(src)
        n1 = list(f1.walk(True))
        n2 = list(f2.walk(True))
        n3 = [x.a for x in FST(src, 'exec').walk(True)]
        pure_nodes = list(ast.walk(pure))
        if len(n1) != len(n2):
            continue
        for pname, pat in PATS:
            for i, (a, b) in enumerate(zip(n1, n2)):
                ev += 1
                try:
                    ma, mb = a.match(pat), b.match(pat)
                    pa = pat.match(a.a) if isinstance(pat, type) is False and hasattr(pat, 'match') else None
                except Exception as e:
                    fail(f'layout.raises:{pname}:{src[:20]!r}:{i}', f'match raised {e!r}')
                    continue
                if (ma is None) != (mb is None) or tagsig(ma) != tagsig(mb):
                    fail(f'layout:{pname}:{src[:20]!r}:{i}', f'pattern {pname} gives different results on a tree and on '
                         f'its re-laid-out copy at node #{i} {a.a.__class__.__name__}')
                if hasattr(pat, 'match') and not isinstance(pat, type):
                    if (pa is None) != (ma is None) or (pa is not None and set(tagsig(pa)) != set(tagsig(ma))):
                        fail(f'pureast:{pname}:{src[:20]!r}:{i}', f'pattern {pname} gives different results on the '
                             f'formatted tree and on its pure AST at node #{i} {a.a.__class__.__name__}')
                # repeat-call independence
                ma2 = a.match(pat)
                if tagsig(ma2) != tagsig(ma):
                    fail(f'repeat:{pname}:{src[:20]!r}:{i}', f'pattern {pname}: a second identical match call gives a '
                         'different result')
                distinct.add(('layout', pname, src[:20], i))
            # search == filter(match, walk)
            ev += 1
            try:
                found = [id(m.matched.a) for m in f1.search(pat, nested=True)]
            except Exception as e:
                fail(f'search.raises:{pname}:{src[:20]!r}', f'search raised {e!r}')
                continue
            exp = [id(x.a) for x in n1 if x.match(pat)]
            if found != exp:
                fail(f'search:{pname}:{src[:20]!r}', f'search({pname}) yields {len(found)} nodes, filtering walk() with '
                     f'match() gives {len(exp)}')
        # own AST matches, single-leaf difference does not
        ev += 1
        if f1.match(pure) is None:
            fail(f'self:{src[:20]!r}', 'a tree does not match the pattern built from its own AST')
        for k, leaf in enumerate([x for x in ast.walk(ast.parse(src)) if isinstance(x, (ast.Name, ast.Constant))][:12]):
            mut = ast.parse(src)
            tgt = [x for x in ast.walk(mut) if isinstance(x, (ast.Name, ast.Constant))][k]
            if isinstance(tgt, ast.Name):
                tgt.id = tgt.id + '_'
            else:
                tgt.value = 'other' if tgt.value != 'other' else 'x'
            ev += 1
            if f1.match(mut) is not None:
                fail(f'leafdiff:{src[:20]!r}:{k}', 'a tree matches a pattern that differs from it in a single leaf')
            distinct.add(('leaf', src[:20], k))
    # ---------------------------------------------------------------------------------------------------------------
    # (3) no state carried between matches: shared sub-patterns with static tags, patterns reused on other targets
    shared = M(MName, kind='leaf')
    p1 = MTYPES((ast.Call,), tag='hit', func=shared) if False else None
    try:
        pat = MCall(func=M(fn=MName), args=[MQSTAR(arg=M(MName, kind='leaf'))])
        t1, t2 = FST('f(a, b)', 'expr'), FST('g(c)', 'expr')
        m1 = pat.match(t1)
        s1 = tagsig(m1)
        m2 = pat.match(t2)
        ev += 2
        if tagsig(m1) != s1:
            fail('state:retro', 'a later match call changed the tags of an earlier FSTMatch')
        m1b = pat.match(t1)
        if tagsig(m1b) != s1:
            fail('state:repeat', 'matching the same target again after another match gives different tags')
        distinct.add(('state', 1))
    except Exception as e:
        fail('state:raises', f'state check raised {e!r}')
    try:
        from fst.match import MTYPES as _MT
        leaf = M(..., kind='leaf')
        probe = MName(id=leaf)
        other = _MT(node=(ast.Name,), id=leaf)
        fresh_probe = MName(id=M(..., kind='leaf'))
        expect = tagsig(fresh_probe.match(FST('b', 'expr')))
        m1 = probe.match(FST('b', 'expr'))
        s1 = tagsig(m1)
        mo = other.match(FST('a', 'expr'))
        so = tagsig(mo)
        m2 = probe.match(FST('b', 'expr'))
        mp = probe.match(ast.parse('b', mode='eval').body)
        ev += 4
        if s1 != expect:
            fail('state:mtypes.first', f'shared sub-pattern: first match gives {s1}, a fresh pattern gives {expect}')
        if tagsig(m1) != s1:
            fail('state:mtypes.retro', 'MTYPES: a later match changed the tags of an earlier FSTMatch (aliased tag dict)')
        if tagsig(m2) != expect:
            fail('state:mtypes.leak', f'after an MTYPES match sharing a sub-pattern, MName(id=leaf) gives {tagsig(m2)} '
                 f'instead of {expect}')
        if tagsig(mp) != expect:
            fail('state:mtypes.pure', f'pure-AST match after an MTYPES match gives {tagsig(mp)} instead of {expect}')
        if so is None or set(so) != {'kind', 'node'}:
            fail('state:mtypes.result', f'MTYPES(node=(Name,), id=leaf) tags are {so}')
        distinct.add(('state', 2))
    except Exception as e:
        fail('state:mtypes.raises', f'MTYPES state check raised {e!r}')
    # search pre-filter with indeterminate alternatives
    src = 'x = f(a, 1, b.c)\ny = [2, g(h)]\n'
    f = FST(src, 'exec')
    for pname, pat in (('or_cb', MOR(MName('a'), MCB(lambda t: isinstance(getattr(t, 'a', t), ast.Constant)))),
                       ('or_m_cb', MOR(MConstant(1), M(MCB(lambda t: isinstance(getattr(t, 'a', t), ast.Call))))),
                       ('and_or', MAND(MOR(MName, MCB(lambda t: True)), MNOT(MConstant(1))))):
        ev += 1
        try:
            found = [id(m.matched.a) for m in f.search(pat, nested=True)]
            exp = [id(x.a) for x in f.walk(True) if x.match(pat)]
            if found != exp:
                fail(f'search.prefilter:{pname}', f'search({pname}) yields {len(found)} nodes but match() accepts '
                     f'{len(exp)} nodes of walk()')
            distinct.add(('prefilter', pname))
        except Exception as e:
            fail(f'search.prefilter.raises:{pname}', f'raised {e!r}')
    return {'name': 'C17.B.match', 'evaluations': ev, 'distinct_nontrivial': len(distinct),
            'rule': f'quantifier part: every sequence of <= {maxp} pattern items over 3 atoms and 18 quantified forms '
                    f'(greedy / non-greedy / bounded / sublist; quick: 2500 sampled sequences) x every element sequence of '
                    f'length <= {maxl} over {{a, b}}, accept/reject and per-quantifier capture counts == re.fullmatch; '
                    'back-references; layout independence (tree vs ast.unparse re-layout vs pure AST), repeat calls, '
                    'search == filter(match, walk), own-AST match and single-leaf difference on 6 programs x 11 patterns',
            'scope': 'see rule', 'samples': samples, 'exhaustive': not quick, 'failures': failures, 'harness_errors': []}


def replay(payload):
    rep = payload.get('replay') or payload
    r = main({'tier': 'thorough'})
    hit = [f for f in r['failures'] if f['key'] == rep['key']]
    return {'reproduced': bool(hit), 'failure': hit[:1]}
