"""C02/P - maintenance of the AST <-> FST links ("parent / field / index links ... return the same answer as on a tree
freshly built from the current source").

  FST.__new__ (child-node branch)   after FST(a, parent, pfield):  a.f is the node, node.a is a, node.parent is parent,
                                    node.pfield is pfield, the node's memo is empty; an existing a.f is reused (identity
                                    of FST nodes is kept), a reused former root loses its root attributes
  _set_field                        single field: the field holds the new AST, its FST has parent self and pfield
                                    (field, None), the old sub-tree is unmade first, self is flushed; list field (any
                                    length, loop invariant at a skolem position): element i gets parent self and pfield
                                    (field, i), the list object is replaced, None elements are skipped
  _set_ast                          self.a is the new AST and its .f is self, the node it belonged to before is
                                    disconnected, the parent's slot holds the new AST, self is flushed; valid_fst=True:
                                    every child's FST is re-parented to self
  _make_fst_tree (per parent node)  every child AST gets FST(child, parent, astfield(field[, i])); shared singleton
                                    ctx/op instances are replaced by fresh ones first (unless already owned); exactly the
                                    children that can have children are pushed on the work list

Callees are replaced by their contracts: the FST constructor by the contract proved here, _unmake_fst_tree /
_make_fst_tree / _touch by recorded calls."""
import ast

from pyvc.logic import and_, eq, implies, truth, not_


def specs(prop='C02'):
    import z3
    from pyvc import frontend, sym, values
    from pyvc.contract import Fragment
    from pyvc.interp import Interp, IFunc, SObj, Env, ABSENT, _Return
    from pyvc.loops import LoopSpec
    from pyvc.sym import cur, _wrap_bool, _wrap_int

    I, B = z3.IntSort(), z3.BoolSort()

    class PF:
        def __init__(self, name, idx=None):
            self.name, self.idx = name, idx

        def set(self, parent_a, child):
            parent_a._set(f'slot:{self.name}', (child, self.idx), count=False)

        def _sym_truth(self):
            return True

    # ---------------------------------------------------------------------------------------------------------------
    def run_new(ctx, case, loc, pre, label):
        body = [s for s in loc.node.body if not (isinstance(s, ast.Expr) and isinstance(s.value, ast.Constant))]
        k = None
        for i, s in enumerate(body):       # the child / root creation part starts after `if pfield is False: ...`
            if isinstance(s, ast.If) and ast.unparse(s.test) == 'pfield is False':
                k = i + 1
        if k is None:
            raise LookupError('cannot locate the node-creation part of FST.__new__')
        created = []

        class ObjectStub:
            @staticmethod
            def __new__(cls):
                o = SObj('fresh_fst', {})
                created.append(o)
                return o
        a = SObj('a', {})
        old = None
        if case['existing'] != 'none':
            old = SObj('old_fst', {}, a=SObj('stale_a', {}), pfield=PF('x'), _cache={'loc': 1},
                       parent=(SObj('old_parent', {}) if case['existing'] == 'child' else None))
            if case['existing'] == 'root':
                for r in ('_parse_params', 'indent', '_lines'):
                    old._set(r, 'ROOTATTR', count=False)
            a._set('f', old, count=False)
        parent = SObj('parent', {})
        pf = PF('field', 3)
        it = Interp({'object': ObjectStub, 'bistr': lambda s: s})
        it.globals['getattr'] = lambda o, n, d=None: (lambda v: d if v is ABSENT else v)(o._get(n))
        env = Env()
        env.vars.update(cls=SObj('FSTcls', {}), src_or_ast_or_fst=a, mode=parent, pfield=pf, kwargs={})
        try:
            it.exec_block(body[k:], env)
            ctx.prove(f'{pre}.returns_at_child_branch[{label}]', False)
            return
        except _Return as r:
            node = r.value
        ctx.notes['outcome'] = 'return'
        ctx.prove(f'{pre}.reuses_existing_node[{label}]', (node is old) if old is not None else (created == [node]))
        ctx.prove(f'{pre}.link.ast_to_node[{label}]', a._get('f') is node)
        ctx.prove(f'{pre}.link.node_to_ast[{label}]', node._get('a') is a)
        ctx.prove(f'{pre}.link.parent_and_pfield[{label}]', node._get('parent') is parent and node._get('pfield') is pf)
        ctx.prove(f'{pre}.memo_flushed[{label}]', node._get('_cache') == {})
        if case['existing'] == 'root':
            ctx.prove(f'{pre}.former_root_attributes_dropped[{label}]',
                      all(node._get(r) is ABSENT for r in ('_parse_params', 'indent', '_lines')))

    # ---------------------------------------------------------------------------------------------------------------
    def ctor_contract(log):
        """FST(a, parent, pfield) by its contract (proved above)"""
        def ctor(a, parent, pfield):
            f = a._get('f')
            if f is ABSENT or f is None:
                f = SObj('fst_of_' + a._name, {})
                a._set('f', f, count=False)
            f._set('a', a, count=False)
            f._set('parent', parent, count=False)
            f._set('pfield', pfield, count=False)
            log.append(('FST', a, parent, pfield))
            return f
        return ctor

    def run_set_field_single(ctx, case, loc, pre, label):
        log = []
        old = SObj('old_ast', {}) if case['old'] else None
        new = SObj('new_ast', {}) if case['new'] else None
        a = SObj('a', {}, value=old)
        self = SObj('self', {}, a=a)
        self._set('_unmake_fst_tree', lambda st=None: log.append(('unmake', st)), count=False)
        self._set('_touch', lambda: log.append(('touch',)), count=False)
        made = []
        it = Interp({'fst': SObj('fst', {}, FST=None), 'astfield': lambda n, i=None: PF(n, i)})
        ctor = ctor_contract(log)

        def FST(a_, p, pf):
            f = ctor(a_, p, pf)
            f._set('_make_fst_tree', lambda st=None: made.append(f), count=False)
            return f
        it.globals['fst'] = SObj('fst', {}, FST=FST)
        it.globals['setattr'] = lambda o, n, v: o._set(n, v, count=False)
        it.globals['getattr'] = lambda o, n, *d: o._get(n)
        it.globals['isinstance'] = lambda o, t: False
        f = IFunc(it, loc.node, None, '_set_field')
        r = it.call(f, (self, new, 'value', case['valid_fst'], case['unmake']))
        ctx.notes['outcome'] = 'return'
        ctx.prove(f'{pre}.single.field_holds_new[{label}]', a._get('value') is new)
        ctx.prove(f'{pre}.single.returns_self[{label}]', r is self)
        ctx.prove(f'{pre}.single.flushes_self_last[{label}]', log and log[-1] == ('touch',))
        unm = [x for x in log if x[0] == 'unmake']
        ctx.prove(f'{pre}.single.old_unmade_iff_asked[{label}]',
                  (len(unm) == 1 and unm[0][1] == [old] and log[0][0] == 'unmake') if case['unmake'] else not unm)
        if new is not None:
            nf = new._get('f')
            ctx.prove(f'{pre}.single.link[{label}]', nf is not ABSENT and nf._get('parent') is self and
                      nf._get('pfield').name == 'value' and nf._get('pfield').idx is None and nf._get('a') is new)
            ctx.prove(f'{pre}.single.subtree_made_unless_valid[{label}]', (made == [nf]) == (not case['valid_fst']))
        else:
            ctx.prove(f'{pre}.single.delete_creates_nothing[{label}]', not [x for x in log if x[0] == 'FST'])

    def run_set_field_list(ctx, case, loc, pre, label):
        """list field of any length: element j* (arbitrary) ends up with parent self and pfield (field, j*)"""
        n = ctx.int('n')
        jstar = ctx.int('jstar')
        ctx.assume(and_(0 <= jstar, jstar < n))
        LINKED = [z3.K(I, z3.BoolVal(False))]
        PFI = [z3.K(I, z3.IntVal(-1))]
        ISNONE = z3.Function('elem_is_none', I, B)
        log = []

        class Elem(SObj):
            pass

        def elem(i):
            if case['nones'] and truth(_wrap_bool(ISNONE(sym._z(i)))):
                return None
            e = Elem('elem', {})
            object.__setattr__(e, '_idx', i)
            return e
        new_list = values.SList.of_base(values.ListBase('new', elem, n))
        old_list = ['OLD']
        a = SObj('a', {}, elts=old_list)
        self = SObj('self', {}, a=a)
        self._set('_unmake_fst_tree', lambda st=None: log.append(('unmake', st)), count=False)
        self._set('_touch', lambda: log.append(('touch',)), count=False)
        stacks = []
        self._set('_make_fst_tree', lambda st=None: stacks.append(st), count=False)

        def FST(a_, p, pf):
            i = a_._idx
            LINKED[0] = z3.Store(LINKED[0], sym._z(i), z3.BoolVal(p is self and pf.name == 'elts'))
            PFI[0] = z3.Store(PFI[0], sym._z(i), sym._z(pf.idx))
            return ('fst_of', i)
        it = Interp({'astfield': lambda nm, i=None: PF(nm, i)})
        it.globals['fst'] = SObj('fst', {}, FST=FST)
        it.globals['setattr'] = lambda o, nm, v: o._set(nm, v, count=False)
        it.globals['getattr'] = lambda o, nm, *d: o._get(nm)
        it.globals['isinstance'] = lambda o, t: isinstance(o, (list, values.SList))

        class H:
            def havoc(self, tag):
                c = cur()
                LINKED[0] = z3.Const(c.fresh_name(f'{tag}.linked'), z3.ArraySort(I, B))
                PFI[0] = z3.Const(c.fresh_name(f'{tag}.pfi'), z3.ArraySort(I, I))

        def linked(j):
            return and_(_wrap_bool(z3.Select(LINKED[0], sym._z(j))), eq(_wrap_int(z3.Select(PFI[0], sym._z(j))), j))

        def inv(k, env):
            isnone = _wrap_bool(ISNONE(sym._z(jstar))) if case['nones'] else False
            return {'prefix_linked': implies(and_(jstar < k, not_(isnone)), linked(jstar))}
        # a symbolic-length work list is modelled by the recorded FST() effects; `stack.append(...)` goes to a counter
        kinds = {'stack': lambda: _CountList(), 'i': 'int', 'a': lambda: None}
        for ordinal in (0, 1):
            it.loop_specs[('_set_field', ordinal)] = LoopSpec(f'{prop}.set_field.loop{ordinal}', inv,
                                                               havoc_objs=lambda env: [H()], kinds=kinds)
        f = IFunc(it, loc.node, None, '_set_field')
        r = it.call(f, (self, new_list, 'elts', case['valid_fst'], True))
        ctx.notes['outcome'] = 'return'
        isnone = _wrap_bool(ISNONE(sym._z(jstar))) if case['nones'] else False
        ctx.prove(f'{pre}.list.element_linked[{label}]', implies(not_(isnone), linked(jstar)),
                  info='element j gets parent self and pfield (field, j), for every j')
        ctx.prove(f'{pre}.list.list_object_replaced[{label}]', a._get('elts') is new_list)
        ctx.prove(f'{pre}.list.old_unmade_first[{label}]', log and log[0] == ('unmake', old_list))
        ctx.prove(f'{pre}.list.flushes_self_last[{label}]', log[-1] == ('touch',) and r is self)
        ctx.prove(f'{pre}.list.subtrees_made_unless_valid[{label}]', (len(stacks) == 1) == (not case['valid_fst']))

    class _CountList:
        def append(self, x):
            pass

    # ---------------------------------------------------------------------------------------------------------------
    def run_set_ast(ctx, case, loc, pre, label):
        log = []
        new = SObj('new_ast', {})
        prev_owner = None
        if case['new_has_f']:
            prev_owner = SObj('prev_owner', {}, a=new)
            new._set('f', prev_owner, count=False)
        old = SObj('old_ast', {})
        parent_a = SObj('parent_a', {})
        parent = SObj('parent', {}, a=parent_a) if case['has_parent'] else None
        self = SObj('self', {}, a=old, parent=parent, pfield=PF('slot', 2))
        old._set('f', self, count=False)
        self._set('_unmake_fst_tree', lambda st=None: log.append(('unmake',)), count=False)
        self._set('_make_fst_tree', lambda st=None: log.append(('make',)), count=False)
        self._set('_touch', lambda: log.append(('touch',)), count=False)
        kids = [SObj(f'kid{i}', {}, f=SObj(f'kidf{i}', {}, parent=SObj('elsewhere', {}))) for i in range(2)]
        it = Interp({'iter_child_nodes': lambda a: kids})
        it.globals['getattr'] = lambda o, n, d=None: (lambda v: d if v is ABSENT else v)(o._get(n))
        f = IFunc(it, loc.node, None, '_set_ast')
        r = it.call(f, (self, new, case['valid_fst'], case['unmake']))
        ctx.notes['outcome'] = 'return'
        ctx.prove(f'{pre}.links_both_ways[{label}]', self._get('a') is new and new._get('f') is self and r is self)
        if case['unmake']:
            ctx.prove(f'{pre}.old_tree_unmade_first[{label}]', log and log[0] == ('unmake',))
            if prev_owner is not None:
                ctx.prove(f'{pre}.previous_owner_disconnected[{label}]', prev_owner._get('a') is None)
        else:
            ctx.prove(f'{pre}.no_unmake_when_not_asked[{label}]', ('unmake',) not in log)
        if case['valid_fst']:
            ctx.prove(f'{pre}.valid.children_reparented[{label}]', all(k._get('f')._get('parent') is self for k in kids)
                      and ('make',) not in log)
        else:
            ctx.prove(f'{pre}.subtree_made[{label}]', log.count(('make',)) == 1)
        if parent is not None:
            ctx.prove(f'{pre}.parent_slot_holds_new[{label}]', parent_a._get('slot:slot') == (new, 2))
        ctx.prove(f'{pre}.flushes_self_last[{label}]', log[-1] == ('touch',))

    # ---------------------------------------------------------------------------------------------------------------
    def run_make_tree_node(ctx, case, loc, pre, label):
        """the body of `while stack:` for one popped parent with one field of the given kind"""
        loop = None
        for n in ast.walk(loc.node):
            if isinstance(n, ast.While) and ast.unparse(n.test) == 'stack':
                loop = n
        if loop is None:
            raise LookupError('cannot locate the work-list loop of _make_fst_tree')
        log = []
        AST_CLS = SObj('ASTbase', {})
        kind = case['kind']
        field = {'single': 'value', 'ctx': 'ctx', 'op': 'op', 'list': 'elts', 'ops': 'ops', 'strs': 'names',
                 'absent': 'value'}[kind]
        shared = SObj('singleton', {})
        fresh = []

        def new_unique():
            o = SObj('fresh_singleton', {})
            fresh.append(o)
            return o
        shared._set('__class__', new_unique, count=False)
        owned = SObj('owned', {}, f=SObj('owner', {}))
        owned._set('__class__', new_unique, count=False)
        kids = [SObj('k0', {}), None, SObj('k2', {})]
        val = {'single': SObj('child', {}), 'ctx': shared if not case.get('owned') else owned,
               'op': shared if not case.get('owned') else owned, 'list': kids,
               'ops': [shared, owned], 'strs': ['a', 'b'], 'absent': None}[kind]
        parenta = SObj('parenta', {}, _fields=(field,))
        parenta._set(field, val, count=False)
        parent = SObj('parent', {}, a=parenta)
        pushed = []

        class Stack:
            def pop(self):
                return parent

            def append(self, x):
                pushed.append(x)

            def extend(self, xs):
                pushed.extend(list(xs))

            def _sym_truth(self):
                return True
        ctor = ctor_contract(log)
        it = Interp({'astfield': lambda nm, i=None: PF(nm, i), 'AST': AST_CLS})
        it.globals['getattr'] = lambda o, n, d=None: (lambda v: d if v is ABSENT else v)(o._get(n))
        it.globals['hasattr'] = lambda o, n: o._get(n) is not ABSENT
        it.globals['setattr'] = lambda o, n, v: o._set(n, v, count=False)
        g_list, g_str = it.globals.get('list'), it.globals.get('str')
        it.globals['isinstance'] = lambda o, t: (isinstance(o, SObj) if t is AST_CLS else isinstance(o, list) if t is g_list
                                                 else isinstance(o, str) if t is g_str else False)
        env = Env()
        env.vars.update(stack=Stack(), FST=ctor, self=SObj('root', {}))
        it.exec_block(loop.body, env)
        ctx.notes['outcome'] = 'fallthrough'
        made = [(x[1], x[3].name, x[3].idx) for x in log if x[0] == 'FST']
        if kind == 'single':
            ctx.prove(f'{pre}.single.linked_and_pushed[{label}]', made == [(val, field, None)] and
                      pushed == [val._get('f')] and val._get('f')._get('parent') is parent)
        elif kind in ('ctx', 'op'):
            cur_v = parenta._get(field)
            if case.get('owned'):
                ctx.prove(f'{pre}.singleton.owned_instance_kept[{label}]', cur_v is owned and not fresh)
            else:
                ctx.prove(f'{pre}.singleton.replaced_by_unique_instance[{label}]', cur_v is not shared and fresh == [cur_v])
            ctx.prove(f'{pre}.singleton.linked_not_pushed[{label}]', made == [(cur_v, field, None)] and not pushed)
        elif kind == 'list':
            ctx.prove(f'{pre}.list.every_element_linked_with_its_index[{label}]',
                      made == [(kids[0], field, 0), (kids[2], field, 2)], info='None elements are skipped, indices kept')
            ctx.prove(f'{pre}.list.elements_pushed[{label}]', pushed == [kids[0]._get('f'), kids[2]._get('f')])
        elif kind == 'ops':
            now = parenta._get(field)
            ctx.prove(f'{pre}.ops.shared_replaced_owned_kept[{label}]', now[0] is not shared and now[1] is owned and
                      len(fresh) == 1)
            ctx.prove(f'{pre}.ops.linked_with_index_not_pushed[{label}]',
                      made == [(now[0], field, 0), (now[1], field, 1)] and not pushed)
        else:
            ctx.prove(f'{pre}.non_ast_field.untouched[{label}]', not made and not pushed)

    # ---------------------------------------------------------------------------------------------------------------
    def run_unmake(ctx, case, loc, pre, label):
        """_unmake_fst_tree on a small tree: every node that HAS an FST loses the link in both directions (that is what
        marks it dead); a node WITHOUT an `f` attribute - CPython's shared singleton Load() / Add() ... instances, which
        every tree parsed in the process references - is not written at all (tagging it would be state shared between all
        trees and threads, and would keep _make_fst_tree from ever giving a tree its own instance again); children of
        every kind are reached; strings are not"""
        AST_CLS = SObj('ASTbase', {})
        writes = []

        class Node(SObj):
            pass

        def node(name, **kw):
            return SObj(name, {}, **kw)
        shared = node('shared_Load', _fields=())                      # no `f` attribute at all
        leaf_f = node('leaf.f')
        leaf = node('leaf', _fields=('ctx',), ctx=shared, f=leaf_f)
        leaf_f._set('a', leaf, count=False)
        orphan = node('orphan', _fields=(), f=None)                  # `.f = None` link tolerated
        el_f = node('el.f')
        el = node('el', _fields=(), f=el_f)
        el_f._set('a', el, count=False)
        top_f = node('top.f')
        top = node('top', _fields=('value', 'elts', 'names', 'none', 'empty'), value=leaf, elts=[el, None, orphan],
                   names=['x', 'y'], none=None, empty=[], f=top_f)
        top_f._set('a', top, count=False)
        self = SObj('self', {}, a=top)
        it = Interp({'AST': AST_CLS})
        g_list, g_str = it.globals.get('list'), it.globals.get('str')

        def getattr_(o, n, *d):
            v = o._get(n)
            return (d[0] if d else None) if v is ABSENT else v
        it.globals['getattr'] = getattr_
        it.globals['isinstance'] = lambda o, t: (isinstance(o, SObj) if t is AST_CLS else isinstance(o, list) if t is g_list
                                                 else isinstance(o, str) if t is g_str else False)
        f = IFunc(it, loc.node, None, '_unmake_fst_tree')
        stack = [top] if case['stack'] else None
        r = it.call(f, (self,) + ((stack,) if case['stack'] else ()))
        ctx.notes['outcome'] = 'return'
        ctx.prove(f'{pre}.linked_nodes_are_unlinked_both_ways[{label}]',
                  all(n._get('f') is None for n in (top, leaf, el)) and all(x._get('a') is None for x in (top_f, leaf_f, el_f)))
        ctx.prove(f'{pre}.shared_singletons_are_not_written[{label}]', shared._get('f') is ABSENT and 'f' not in shared._written,
                  info='a node without an `f` attribute is one of CPython\'s per-process singleton instances')
        ctx.prove(f'{pre}.unlinked_node_tolerated[{label}]', orphan._get('f') is None)
        ctx.prove(f'{pre}.returns_self[{label}]', r is self)

    bools = (False, True)
    return [
        Fragment('fst:FST.__new__', prop, 'links.new_child', [dict(existing=e) for e in ('none', 'child', 'root')], run_new,
                 min_obligations=4, notes='statements after the `pfield is False` shortcut, child-node case'),
        Fragment('fst_core:_set_field', prop, 'links.set_field',
                 [dict(old=o, new=n, valid_fst=v, unmake=u) for o in bools for n in bools for v in bools for u in bools],
                 run_set_field_single, min_obligations=3, notes='single (non-list) field'),
        Fragment('fst_core:_set_field', prop, 'links.set_field_list',
                 [dict(valid_fst=v, nones=nn) for v in bools for nn in bools if not (v and nn)], run_set_field_list,
                 min_obligations=3, notes='list field of symbolic length, loop invariant at a skolem position'),
        Fragment('fst_core:_set_ast', prop, 'links.set_ast',
                 [dict(valid_fst=v, unmake=u, has_parent=p, new_has_f=h) for v in bools for u in bools for p in bools
                  for h in bools], run_set_ast, min_obligations=3),
        Fragment('fst_core:_unmake_fst_tree', prop, 'links.unmake', [dict(stack=False), dict(stack=True)], run_unmake,
                 min_obligations=3, notes='a five-node tree with every child kind (node, list with None, list of str, None, empty '
                                          'list, shared context singleton)'),
        Fragment('fst_core:_make_fst_tree', prop, 'links.make_tree_node',
                 [dict(kind=k) for k in ('single', 'list', 'ops', 'strs', 'absent')] +
                 [dict(kind=k, owned=o) for k in ('ctx', 'op') for o in bools], run_make_tree_node, min_obligations=1,
                 notes='per-parent body of the work-list loop; one field of each kind'),
    ]
