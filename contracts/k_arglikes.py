"""Contract for fst_put_slice:_put_slice_Call_ClassDef_keywords (C03): the translation of a slice of the `keywords`
field into a slice of the merged argument list (`_args` / `_bases`), which the arglikes handler then edits.

    requires  the node's arguments form a valid call: non-starred positionals first, then keywords and starred
              positionals in any mixture (`f(a, k=1, *b, m=2, **c)`)
    ensures   accepted: the (start', stop') handed to the arglikes handler delimit exactly keywords[start:stop] in the
                        merged list - same elements, and exactly `start` keywords lie before start' (so an insertion
                        lands in front of keyword number `start`), with kw_only=True and the code passed through
              refused:  only with NodeError, only for a non-empty slice whose first keyword precedes the last positional
                        (documented: such a slice must be addressed through the combined field)
The real body is interpreted for every argument sequence up to length 5 over {positional, starred, keyword} and every
(start, stop), for Call and ClassDef: shape-enumerated, not quantified over the length."""
import itertools


def specs(prop='C03'):
    from pyvc.contract import Fragment
    from pyvc.interp import Interp, IFunc, SObj, PyRaise

    class NodeError(Exception):
        pass
    CALL, CLASSDEF = SObj('Call', {}, __name__='Call'), SObj('ClassDef', {}, __name__='ClassDef')

    def run(ctx, case, loc, pre, label):
        seq, start, stop, is_call = case['seq'], case['start'], case['stop'], case['call']
        nodes = []
        for i, k in enumerate(seq):
            n = SObj(f'{k}{i}', {}, kind=k)
            n._set('f', SObj(f'{k}{i}.f', {}, loc=(0, 2 * i, 0, 2 * i + 1)), count=False)
            nodes.append(n)
        exprs = [n for n in nodes if n._get('kind') in 'ES']
        kws = [n for n in nodes if n._get('kind') == 'K']
        a = SObj('a', {}, keywords=kws, **{'__class__': CALL if is_call else CLASSDEF,
                                          ('args' if is_call else 'bases'): exprs})
        self = SObj('self', {}, a=a)
        self._set('_cached_arglikes', lambda: list(nodes), count=False)
        calls = []

        def arglikes_handler(s, code, st, sp, field, one, options, **kw):
            calls.append((s, code, st, sp, field, one, options, kw))
            return None

        it = Interp({'NodeError': NodeError, 'Call': CALL, '_put_slice_Call_ClassDef_arglikes': arglikes_handler,
                     'getattr': lambda o, n: o._get(n), 'len': len})
        from pyvc import frontend
        it.globals['fixup_slice_indices'] = IFunc(it, frontend.locate('fst_misc:fixup_slice_indices').node, None,
                                                  'fixup_slice_indices')
        f = IFunc(it, loc.node, None, '_put_slice_Call_ClassDef_keywords')
        code, opts = SObj('code', {}), {}
        must_refuse = start != stop and exprs and kws[start]._get('f')._get('loc') < exprs[-1]._get('f')._get('loc')
        try:
            it.call(f, (self, code, start, stop, 'keywords', None, opts))
        except PyRaise as pr:
            ctx.notes['outcome'] = f'raise {pr.cls.__name__}'
            ctx.prove(f'{pre}.refusal.only_documented[{label}]', bool(must_refuse) and pr.cls is NodeError and not calls)
            return
        ctx.notes['outcome'] = 'return'
        ctx.prove(f'{pre}.refusal.not_bypassed[{label}]', not must_refuse)
        ok = len(calls) == 1
        if ok:
            s, c, st, sp, field, one, options, kw = calls[0]
            ok = (s is self and c is code and field == ('_args' if is_call else '_bases') and one is None and options is opts
                  and kw == {'kw_only': True})
            sl = nodes[st:sp] if isinstance(st, int) and isinstance(sp, int) and 0 <= st <= sp <= len(nodes) else None
            ctx.prove(f'{pre}.delegates_once_unchanged_arguments[{label}]', ok)
            ctx.prove(f'{pre}.slice_is_the_keywords_slice[{label}]',
                      sl is not None and len(sl) == stop - start and all(x is y for x, y in zip(sl, kws[start:stop])),
                      info=f'handed [{st}:{sp}] of {"".join(seq)}')
            ctx.prove(f'{pre}.position_is_keyword_index[{label}]',
                      sl is not None and sum(1 for n in nodes[:st] if n._get('kind') == 'K') == start,
                      info=f'{start} keywords must lie before merged index {st} of {"".join(seq)}')
        else:
            ctx.prove(f'{pre}.delegates_once_unchanged_arguments[{label}]', False)

    def valid(seq):
        seen_nonE = False
        for k in seq:
            if k == 'E' and seen_nonE:
                return False
            if k != 'E':
                seen_nonE = True
        return True
    cases = []
    for n in range(0, 6):
        for seq in itertools.product('ESK', repeat=n):
            if not valid(seq):
                continue
            nk = seq.count('K')
            for st in range(nk + 1):
                for sp in range(st, nk + 1):
                    for call in ((True, False) if n <= 3 else (True,)):
                        cases.append(dict(seq=seq, start=st, stop=sp, call=call))
    return [Fragment('fst_put_slice:_put_slice_Call_ClassDef_keywords', prop, 'keywords_slice', cases, run, min_obligations=1,
                     native=('k_arglikes', 'replay_keywords'),
                     notes='arglikes handler as a recorded stub; fixup_slice_indices: the real function (own contract in '
                           'k_index); node positions = order in the merged list; sequences up to length 5')]


def replay_keywords(payload):
    """native: every valid argument sequence up to length 5, every keyword insertion index / replaced slice, on real
    trees: afterwards keywords == old[:start] + new + old[stop:] (by structure)"""
    import ast
    from fst import FST
    names = 'abcde'
    n = 0
    for ln in range(0, 6):
        for seq in itertools.product('ESK', repeat=ln):
            if 'K' not in seq and ln:
                pass
            ok = True
            seen = False
            for k in seq:
                if k == 'E' and seen:
                    ok = False
                if k != 'E':
                    seen = True
            if not ok:
                continue
            parts = [{'E': names[i], 'S': '*' + names[i], 'K': f'{names[i]}={i}'}[k] for i, k in enumerate(seq)]
            for tmpl in ('r = call({})', 'class C({}): pass'):
                src = tmpl.format(', '.join(parts))
                nk = seq.count('K')
                for st in range(nk + 1):
                    for sp in range(st, nk + 1):
                        try:
                            f = FST(src, 'exec')
                        except Exception:
                            continue
                        c = f.body[0].value if tmpl.startswith('r') else f.body[0]
                        old = [ast.dump(k) for k in c.a.keywords]
                        n += 1
                        try:
                            c.put_slice('zz=9', st, sp, 'keywords')
                        except Exception:
                            continue
                        new = [ast.dump(k) for k in c.a.keywords]
                        z = ast.dump(ast.parse('f(zz=9)').body[0].value.keywords[0])
                        if new != old[:st] + [z] + old[sp:]:
                            return {'reproduced': True, 'source': src, 'call': f"put_slice('zz=9', {st}, {sp}, 'keywords')",
                                    'observed': f.src, 'expected': 'keywords == old[:start] + [zz=9] + old[stop:]'}
    return {'reproduced': False, 'candidates': n}


def merge_specs(prop='C03'):
    """astutil:merge_arglikes - the index space of the combined fields `_args` / `_bases`:
        ensures  the result holds exactly the given positionals and keywords, each once, in the order of their source
                 positions (lineno, col_offset); with no keywords (no positionals) it is the other list's content;
                 neither input list is modified
    Interpreted for every valid argument sequence up to length 4 in three layouts (one line; every argument on its own
    line with falling columns; keywords on the first line and everything else on later lines at smaller columns) -
    shape-enumerated."""
    from pyvc.contract import Fragment
    from pyvc.interp import Interp, IFunc, SObj

    def run(ctx, case, loc, pre, label):
        seq, layout = case['seq'], case['layout']
        nodes = []
        for i, k in enumerate(seq):
            if layout == 'line':
                pos = (1, 4 * i)
            elif layout == 'falling':
                pos = (1 + i, 40 - 4 * i)
            else:
                first_k = seq.index('K') if 'K' in seq else len(seq)
                pos = (1, 10 + 4 * i) if i <= first_k else (1 + i, 2 + i)
            nodes.append(SObj(f'{k}{i}', {}, kind=k, lineno=pos[0], col_offset=pos[1]))
        exprs = [n for n in nodes if n._get('kind') != 'K']
        kws = [n for n in nodes if n._get('kind') == 'K']
        e0, k0 = list(exprs), list(kws)
        it = Interp({})
        f = IFunc(it, loc.node, None, 'merge_arglikes')
        r = it.call(f, (exprs, kws))
        ctx.notes['outcome'] = 'return'
        ctx.prove(f'{pre}.source_order[{label}]', isinstance(r, list) and len(r) == len(nodes) and
                  all(a is b for a, b in zip(r, nodes)), info=f'got {[x._name for x in r]} for {"".join(seq)} ({layout})')
        ctx.prove(f'{pre}.inputs_unchanged[{label}]', len(exprs) == len(e0) and len(kws) == len(k0) and
                  all(a is b for a, b in zip(exprs + kws, e0 + k0)))

    def valid(seq):
        seen = False
        for k in seq:
            if k == 'E' and seen:
                return False
            if k != 'E':
                seen = True
        return True
    cases = [dict(seq=seq, layout=l) for n in range(0, 5) for seq in itertools.product('ESK', repeat=n) if valid(seq)
             for l in ('line', 'falling', 'late')]
    return [Fragment('astutil:merge_arglikes', prop, 'merge_arglikes', cases, run, min_obligations=2,
                     native=('k_arglikes', 'replay_merge_arglikes'),
                     notes='nodes are markers with (lineno, col_offset); sequences up to length 4 x 3 layouts')]


def replay_merge_arglikes(payload):
    """native: Call / ClassDef argument lists in several layouts: the merged list must be in source order"""
    import ast
    from fst.astutil import merge_arglikes
    n = 0
    names = 'abcd'
    for ln in range(1, 5):
        for seq in itertools.product('ESK', repeat=ln):
            seen, ok = False, True
            for k in seq:
                if k == 'E' and seen:
                    ok = False
                if k != 'E':
                    seen = True
            if not ok:
                continue
            parts = [{'E': names[i], 'S': '*' + names[i], 'K': f'{names[i]}={i}'}[k] for i, k in enumerate(seq)]
            for sep in (', ', ',\n   ', None):
                if sep is None:
                    src = 'call(' + ''.join(p + (',\n' + ' ' * (1 + (len(parts) - i)) if i < len(parts) - 1 else '')
                                            for i, p in enumerate(parts)) + ')'
                else:
                    src = 'call(' + sep.join(parts) + ')'
                try:
                    c = ast.parse(src).body[0].value
                except SyntaxError:
                    continue
                n += 1
                got = merge_arglikes(c.args, c.keywords)
                want = sorted(c.args + c.keywords, key=lambda a: (a.lineno, a.col_offset))
                if [id(x) for x in got] != [id(x) for x in want]:
                    return {'reproduced': True, 'source': src, 'call': 'merge_arglikes(call.args, call.keywords)',
                            'observed': [ast.unparse(x) for x in got], 'expected': [ast.unparse(x) for x in want]}
    return {'reproduced': False, 'candidates': n}
