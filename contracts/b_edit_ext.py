"""Extensions of the bounded edit sweep: C07 (copy / get / cut) and C08 (docstring and line-comment accessors)."""
import ast

from contracts.b_lib import tree_diff, c01_violation, dump, node_paths, follow
from contracts.b_edit_slots import slot_desc, under_fstring


def _norm(x):
    return x.replace('Store()', 'Load()').replace('Del()', 'Load()')


def standalone_problem(piece, cat):
    """the extracted piece parses on its own (CPython) to its own tree; returns description of problem or None"""
    src = piece.src
    try:
        if cat == 'stmt' or piece.a.__class__.__name__ == 'Module':
            fresh = ast.parse(src)
            mine = piece.a if isinstance(piece.a, ast.Module) else ast.Module(body=[piece.a], type_ignores=[])
            return tree_diff(fresh, mine)
        if cat == 'expr':
            if isinstance(piece.a, (ast.Starred, ast.Slice)):
                return None  # only valid inside a container: judged through the container sweeps
            try:
                fresh = ast.parse(src, mode='eval').body
                return tree_diff(fresh, piece.a)
            except SyntaxError:
                pass
            # natural embeddings for fragments Python cannot parse alone (yield / walrus / slice tuples)
            for pre, post, get in (('(\n', '\n)', lambda t: t.body), ('_[\n', '\n]', lambda t: t.body.slice)):
                try:
                    fresh = get(ast.parse(pre + src + post, mode='eval'))
                    return tree_diff(fresh, piece.a, pos=False)
                except SyntaxError:
                    continue
            return f'extracted piece does not parse on its own nor in parentheses / brackets: {src[:80]!r}'
        if cat == 'pattern':
            if isinstance(piece.a, ast.MatchStar):
                return None
            fresh = ast.parse('match _:\n case (\n' + src + '\n): pass').body[0].cases[0].pattern
            return tree_diff(fresh, piece.a, pos=False)
        return None
    except SyntaxError as e:
        return f'extracted piece does not parse on its own: {e.msg}: {src[:80]!r}'


# operators / keywords that are counted: the ones that are never a separator, a delimiter or the introducer of a field
# (`=`, `@`, `->`, `as`, `*`, `**`, `:`, `in`, `for`, `import` ... go with the slot, not with the element that is moved)
_REAL_OPS = {'+', '-', '/', '//', '%', '<<', '>>', '&', '^', '~', '<', '>', '<=', '>=', '==', '!=', 'not', 'lambda', 'yield',
             'await', 'is', 'None', 'True', 'False', '...'}
_CMP_TOKENS = {'<', '>', '<=', '>=', '==', '!=', 'in', 'not', 'is'}
# documented dependent deletions: removing the type of a handler removes its name, removing Raise.exc removes the cause
DEPENDENT_SLOTS = ('ExceptHandler.type', 'Raise.exc')


def conservation_problem(orig_src, rem_src, piece_src, container_cls=''):
    """C07 last clause: the tokens and comments of the original are exactly those of the remainder plus those of the
    extracted piece, apart from separators, parentheses / brackets and elif/else keywords the move itself requires.
    Multiset comparison of identifiers, literals, comments, and of the operators / keywords that are not separators;
    multi-line strings up to re-indentation of their continuation lines (docstrings).  None when conserved or when one
    of the three texts does not tokenize."""
    import collections
    import keyword
    import tokenize
    from contracts.b_frame import toks

    def count(src):
        t = toks(src)
        if t is None:
            return None
        c = collections.Counter()
        for x in t:
            if x.type == tokenize.COMMENT:
                c[('#', x.string.rstrip())] += 1
            elif x.type == tokenize.OP or (x.type == tokenize.NAME and keyword.iskeyword(x.string)):
                if x.string not in _REAL_OPS or (container_cls == 'Compare' and x.string in _CMP_TOKENS):
                    continue
                c[('op', x.string)] += 1
            elif x.type == tokenize.STRING and '\n' in x.string:
                c[('s', '\n'.join(y.strip() for y in x.string.split('\n')))] += 1
            elif x.type in (tokenize.NAME, tokenize.NUMBER, tokenize.STRING) or x.string.strip():
                c[('t', x.string)] += 1
        return c
    o, r, p = count(orig_src), count(rem_src), count(piece_src)
    if o is None or r is None or p is None:
        return None
    if o == r + p:
        return None
    lost = o - (r + p)
    extra = (r + p) - o
    return f'lost {sorted(lost.elements())[:6]} gained {sorted(extra.elements())[:6]}'


def _loss_kind(q, src0, node):
    """classify a conservation failure for the finding key: '.trivia_comment' when the only difference is that comments
    of the element's own trivia - the own-line comment block directly above it, the line comment after its last line -
    are in neither result"""
    import re
    m = re.match(r"lost \[(.*)\] gained \[\]$", q)
    if not m:
        return ''
    lost = re.findall(r"\('(.)', '((?:[^'\\\\]|\\\\.)*)'\)", m.group(1))
    if not lost or any(k != '#' for k, _ in lost):
        return ''
    try:
        loc = node.pars() if node.loc is not None else None
    except Exception:
        loc = None
    if loc is None:
        return ''
    lines = src0.split('\n')
    mine = []
    i = loc.ln - 1
    while i >= 0 and lines[i].strip().startswith('#'):
        mine.append(lines[i].strip())
        i -= 1
    tail = lines[loc.end_ln][loc.end_col:]
    if '#' in tail and not tail[:tail.index('#')].strip(' \t,)]}'):
        mine.append(tail[tail.index('#'):].rstrip())
    if all(t in mine for _, t in lost):
        return '.trivia_comment'
    # comments between the element and its own grouping parentheses (nothing but parentheses, blanks and comments there)
    own = []
    try:
        il = tuple(node.loc)[:4]
        pl = tuple(loc)[:4]
        for ln_ in range(pl[0], pl[2] + 1):
            text = lines[ln_]
            a_ = pl[1] if ln_ == pl[0] else 0
            b_ = pl[3] if ln_ == pl[2] else len(text)
            for c0, c1 in ((a_, il[1] if ln_ == il[0] else (b_ if ln_ < il[0] else a_)),
                           ((il[3] if ln_ == il[2] else (a_ if ln_ > il[2] else b_)), b_)):
                seg = text[c0:c1] if c1 > c0 else ''
                if '#' in seg:
                    own.append(seg[seg.index('#'):].rstrip())
            if ln_ == pl[2]:
                tail = text[pl[3]:]
                if '#' in tail and not tail[:tail.index('#')].strip(' \t,)]}'):
                    own.append(tail[tail.index('#'):].rstrip())
    except Exception:
        own = []
    if all(t in mine or t in own for _, t in lost):
        return '.own_pars_comment'
    return ''


def copy_step(sw, path, cat):
    root = sw.fresh()
    node = follow(root, path)
    if not node:
        return
    sw.ev += 1
    src0, d0 = root.src, dump(root.a)
    sub0 = ast.dump(node.a)
    slot = slot_desc(root.a, path)
    key = f'copy@{slot}:{sw.name}:{path}'
    in_fstr = under_fstring(root.a, path[:-1]) if path else False
    copts = sw.payload.get('copy_opts', {})
    try:
        piece = node.copy(**copts)
    except Exception as e:
        sw.distinct.add(('copy-refused', path))
        if root.src != src0 or dump(root.a) != d0:
            sw.fail('C07', key + ':refused_changed', f'copy() raised {e!r} and disturbed the tree')
        return
    sw.distinct.add(('copy', path))
    if root.src != src0 or dump(root.a) != d0:
        sw.fail('C07', key + ':disturbed', 'copy() changed the source or the tree (structure/positions) it read from')
        return
    # structural faithfulness (docstring-bearing pieces are compared up to the documented re-indentation: skipped
    # when the sub-tree contains a multi-line string constant)
    def reindentable(n, parent, idx):
        """may the documented docstring re-indentation change this multi-line string under the docstr option used?"""
        ds = copts.get('docstr', True)
        if ds is False:
            return False
        is_expr_stmt = isinstance(parent, ast.Expr)
        if ds is True:
            return is_expr_stmt
        return False   # 'strict': only real docstring positions; handled by the caller's position test below

    def has_reindentable(tree):
        ds = copts.get('docstr', True)
        if ds is False:
            return False
        for p in ast.walk(tree):
            body = getattr(p, 'body', None)
            if not isinstance(body, list):
                continue
            for i, st in enumerate(body):
                if isinstance(st, ast.Expr) and isinstance(st.value, ast.Constant) and isinstance(st.value.value, str) \
                        and '\n' in st.value.value:
                    if ds is True:
                        return True
                    if i == 0 and isinstance(p, (ast.FunctionDef, ast.AsyncFunctionDef, ast.ClassDef, ast.Module)):
                        return True
        if isinstance(tree, ast.Expr) and isinstance(tree.value, ast.Constant) and isinstance(tree.value.value, str) \
                and '\n' in tree.value.value:
            return copts.get('docstr', True) is True or (path and path[-1] == ('body', 0) and isinstance(
                follow(root, path[:-1]).a if path[:-1] else root.a,
                (ast.FunctionDef, ast.AsyncFunctionDef, ast.ClassDef, ast.Module)))
        return False
    multiline_str = has_reindentable(node.a)
    if (not multiline_str and not in_fstr and _norm(ast.dump(piece.a)) != _norm(sub0)
            and not isinstance(piece.a, ast.Module)):
        sw.fail('C07', key + ':unfaithful', 'copy() is not structurally equal to the original sub-tree',
                piece_src=piece.src[:200])
    v = None if in_fstr else standalone_problem(piece, cat)
    if v:
        sw.fail('C07', key + ':standalone', f'copy() result is not a self-contained tree: {v}',
                piece_src=piece.src[:200])
    # cut == (copy, delete) on two more fresh trees
    r1, r2 = sw.fresh(), sw.fresh()
    n1, n2 = follow(r1, path), follow(r2, path)
    try:
        cutp = n1.cut(**copts)
        cut_ok = True
    except Exception:
        cut_ok = False
    try:
        n2.remove(**copts)
        del_ok = True
    except Exception:
        del_ok = False
    sw.ev += 1
    if cut_ok != del_ok:
        sw.fail('C07', key + ':cut_vs_delete', f'cut() {"succeeds" if cut_ok else "is refused"} but remove() '
                f'{"succeeds" if del_ok else "is refused"}')
    elif cut_ok:
        if r1.src != r2.src or dump(r1.a) != dump(r2.a):
            sw.fail('C07', key + ':cut_remainder', 'cut() leaves something different from what remove() leaves',
                    after_cut=r1.src[:300], after_remove=r2.src[:300])
        if cutp.src != piece.src or ast.dump(cutp.a) != ast.dump(piece.a):
            sw.fail('C07', key + ':cut_piece', 'cut() returns something different from what copy() returns',
                    cut=cutp.src[:200], copy=piece.src[:200])
        if not in_fstr and not slot.startswith(DEPENDENT_SLOTS):
            q = conservation_problem(src0, r1.src, cutp.src)
            if q:
                kind = _loss_kind(q, src0, node)
                sw.fail('C07', key + ':cut_conservation' + kind, f'cut(): tokens/comments of the original are not those of the '
                        f'remainder plus those of the piece: {q}', after_cut=r1.src[:300], piece_src=cutp.src[:200])


def copy_slices(sw, root, quick, rnd):
    for path, fld, n in sw.list_fields(root):
        idxs = [(i, j) for i in range(n + 1) for j in range(i, n + 1)]
        if len(idxs) > (5 if quick else 15):
            idxs = rnd.sample(idxs, 5 if quick else 15)
        for i, j in idxs:
            r0 = sw.fresh()
            node = follow(r0, path) if path else r0
            sw.ev += 1
            src0, d0 = r0.src, dump(r0.a)
            key = f'get_slice@{node.a.__class__.__name__}.{fld}:{sw.name}:{path}:[{i}:{j}]'
            try:
                piece = node.get_slice(i, j, fld)
            except Exception as e:
                sw.distinct.add(('slice-copy-refused', path, fld, i, j))
                if r0.src != src0 or dump(r0.a) != d0:
                    sw.fail('C07', key + ':refused_changed', f'get_slice raised {e!r} and disturbed the tree')
                continue
            sw.distinct.add(('slice-copy', path, fld, i, j))
            if r0.src != src0 or dump(r0.a) != d0:
                sw.fail('C07', key + ':disturbed', 'get_slice() changed the source or the tree it read from')
                continue
            r1, r2 = sw.fresh(), sw.fresh()
            n1 = follow(r1, path) if path else r1
            n2 = follow(r2, path) if path else r2
            try:
                cutp = n1.get_slice(i, j, fld, cut=True)
                c_ok = True
            except Exception:
                c_ok = False
            try:
                n2.put_slice(None, i, j, fld)
                d_ok = True
            except Exception:
                d_ok = False
            sw.ev += 1
            if c_ok and d_ok:
                if r1.src != r2.src or dump(r1.a) != dump(r2.a):
                    sw.fail('C07', key + ':cut_remainder', 'slice cut leaves something different from slice delete',
                            after_cut=r1.src[:300], after_delete=r2.src[:300])
                if cutp.src != piece.src:
                    sw.fail('C07', key + ':cut_piece', 'slice cut returns something different from slice copy',
                            cut=cutp.src[:200], copy=piece.src[:200])
                q = conservation_problem(src0, r1.src, cutp.src, node.a.__class__.__name__)
                if q:
                    sw.fail('C07', key + ':cut_conservation', 'slice cut: tokens/comments of the original are not those '
                            f'of the remainder plus those of the piece: {q}', after_cut=r1.src[:300], piece_src=cutp.src[:200])
                nested_slices(sw, cutp, key, rnd)
            elif c_ok != d_ok:
                sw.fail('C07', key + ':cut_vs_delete', f'slice cut ok={c_ok} but slice delete ok={d_ok}')


def nested_slices(sw, piece, key, rnd):
    """the extracted slice is a tree of its own (a root-level slice container): copying from it must not disturb it and
    cutting from it must conserve tokens and comments too"""
    fields = [(fld, v) for fld in piece.a._fields if isinstance(v := getattr(piece.a, fld, None), list) and v
              and all(isinstance(e, ast.AST) for e in v)]
    if not fields or piece.a.__class__.__name__ == 'Module' and len(fields[0][1]) > 3:
        return
    fld, v = fields[0]
    n = len(v)
    idxs = [(i, j) for i in range(n + 1) for j in range(i + 1, n + 1)]
    if len(idxs) > 3:
        idxs = [(n - 1, n), (0, n)] + rnd.sample(idxs, 1)
    for i, j in idxs:
        try:
            p2 = piece.copy()
        except Exception:
            return
        src0, d0 = p2.src, dump(p2.a)
        sw.ev += 1
        try:
            sub = p2.get_slice(i, j, fld)
        except Exception:
            continue
        if p2.src != src0 or dump(p2.a) != d0:
            sw.fail('C07', key + f':nested[{i}:{j}]:disturbed', f'get_slice({i}, {j}, {fld!r}) on the extracted slice '
                    f'{src0[:60]!r} changed the tree it read from')
            continue
        try:
            sub = p2.get_slice(i, j, fld, cut=True)
        except Exception:
            continue
        q = conservation_problem(src0, p2.src, sub.src, p2.a.__class__.__name__)
        if q:
            sw.fail('C07', key + f':nested[{i}:{j}]:cut_conservation', f'cut [{i}:{j}] from the extracted slice {src0[:80]!r}: '
                    f'tokens/comments not conserved: {q}', after_cut=p2.src[:200], piece_src=sub.src[:200])


DOC_TEXTS = ['x', 'two words', "it's", 'say "hi"', 'back\\slash', 'tab\there', 'é ü', "'''", '"""', 'end\\',
             'a\nb', 'multi\n  indented\nlines', 'trailing space ', "mixed ''' and \"\"\"", 'q"', "q'",
             "Use '''x''' for raw text, not \"x\"", 'ends with two ""', "ends with two ''", '\x00nul', '\\n literal']


CONSTANT_VALUES = [0, 7, 10 ** 30, 1.5, 1e22, 2.5e-320, float('inf'), float('nan'), -0.0, 2j, complex(1, 2), complex(0, float('inf')),
                   complex(0.0, -0.0), 'text', "it's \"q\"", 'a\nb', '', b'by\x00tes', True, False, None, ...]


def accessor_steps(sw, root, quick, rnd):
    for path, f in node_paths(root):
        a = f.a
        if isinstance(a, (ast.FunctionDef, ast.AsyncFunctionDef, ast.ClassDef, ast.Module)):
            for t in DOC_TEXTS:
                r = sw.fresh()
                n = follow(r, path) if path else r
                sw.ev += 1
                key = f'put_docstr@{a.__class__.__name__}:{sw.name}:{path}:{t!r}'
                sw.pre_edit(r)
                try:
                    n.put_docstr(t)
                except Exception as e:
                    sw.fail('C08', key + ':refused', f'put_docstr({t!r}) raised {e!r}')
                    continue
                sw.distinct.add(('docstr', path, t))
                got = n.get_docstr()
                if got != t:
                    sw.fail('C08', key + ':readback', f'put_docstr({t!r}) reads back as {got!r}')
                v = c01_violation(r)
                if v:
                    sw.fail('C08', key + ':c01', f'after put_docstr({t!r}): {v}')
                    sw.fail('C01', key + ':c01', f'after put_docstr({t!r}): {v}')
                sw.post_edit(r, key, f'put_docstr({t!r})', v)
        in_pattern = False
        if isinstance(a, ast.Constant):
            q_ = f.parent
            while q_ is not None:
                if isinstance(q_.a, ast.pattern):
                    in_pattern = True
                    break
                q_ = q_.parent
        if isinstance(a, ast.Constant) and not under_fstring(root.a, path) and (not quick or rnd.random() < 0.2 or in_pattern):
            # primitive values written through the accessor: "AST values always equal what the new source text denotes"
            for val in CONSTANT_VALUES:
                r = sw.fresh()
                n = follow(r, path)
                if not n:
                    continue
                sw.ev += 1
                key = f'constant_value{"[pattern]" if in_pattern else ""}@{slot_desc(root.a, path)}:{sw.name}:{path}:{val!r}'
                src0, d0 = r.src, dump(r.a)
                sw.pre_edit(r)
                try:
                    n.value = val
                except Exception as e:
                    sw.distinct.add(('const-refused', path, repr(val)))
                    if r.src != src0 or dump(r.a) != d0:
                        sw.fail('C08', key + ':refused_changed', f'Constant.value = {val!r} raised {e!r} and changed the tree')
                    continue
                sw.distinct.add(('const', path, repr(val)))
                v = c01_violation(r)
                if v:
                    sw.fail('C08', key + ':denotes', f'after Constant.value = {val!r} the source {r.src[:60]!r}... does not denote '
                            f'the tree: {v}')
                    continue
                n2 = follow(r, path)
                got = getattr(n2.a, 'value', None) if n2 else None
                if not (type(got) is type(val) and (got == val or repr(got) == repr(val).replace('-0', '0'))):
                    sw.fail('C08', key + ':readback', f'Constant.value = {val!r} reads back as {got!r}')
        if isinstance(a, ast.stmt) and not isinstance(a, (ast.FunctionDef, ast.AsyncFunctionDef, ast.ClassDef)):
            for t in ['c', 'two words', 'é # x', 'longer than the one before it was', 'trailing blanks  ']:
                r = sw.fresh()
                n = follow(r, path)
                if not n:
                    continue
                sw.ev += 1
                key = f'put_line_comment@{a.__class__.__name__}:{sw.name}:{path}:{t!r}'
                sw.pre_edit(r)
                if 'C08' in sw.props or 'C01' in sw.props:
                    from contracts import b_query
                    b_query.prepass(r)   # read-only queries before the write are part of "repeated arbitrarily"
                try:
                    n.put_line_comment(t)
                except Exception:
                    sw.distinct.add(('lc-refused', path, t))
                    continue
                sw.distinct.add(('lc', path, t))
                try:
                    got = n.get_line_comment()
                except Exception as e:
                    sw.fail('C08', key + ':readback', f'get_line_comment after put_line_comment({t!r}) raised {e!r}')
                    continue
                if got != t:
                    kind = ':trailing_blanks' if (got or '') == t.rstrip() else ''
                    sw.fail('C08', key + ':readback' + kind, f'put_line_comment({t!r}) reads back as {got!r}')
                v = c01_violation(r)
                if v:
                    sw.fail('C08', key + ':c01', f'after put_line_comment({t!r}): {v}')
                    sw.fail('C01', key + ':c01', f'after put_line_comment({t!r}): {v}')
                sw.post_edit(r, key, f'put_line_comment({t!r})', v)
                # ... and then the enclosing block is cut and put back: must restore the tree (C08 round trip after a write)
                par = n.parent
                if not v and par is not None and par.parent is not None and isinstance(par.a, ast.stmt) \
                        and par.pfield.idx is not None and ('C08' in sw.props or 'C01' in sw.props):
                    gp, fld, idx = par.parent, par.pfield.name, par.pfield.idx
                    from contracts.b_lib import sdump
                    s0 = sdump(r.a)   # multi-line string statements compared up to their documented re-indentation
                    sw.ev += 1
                    try:
                        piece = gp.get_slice(idx, idx + 1, fld, cut=True)
                        gp.put_slice(piece, idx, idx, fld)
                    except Exception as e:
                        sw.fail('C08', key + ':block_roundtrip', f'after put_line_comment({t!r}): cutting the enclosing block '
                                f'and putting it back raised {e!r}', src_after=r.src[:300])
                        continue
                    v2 = c01_violation(r)
                    if v2:
                        sw.fail('C08', key + ':block_roundtrip', f'after put_line_comment({t!r}) + cut/put back of the '
                                f'enclosing block: {v2}', src_after=r.src[:300])
                        sw.fail('C01', key + ':block_roundtrip', f'after put_line_comment({t!r}) + cut/put back of the '
                                f'enclosing block: {v2}', src_after=r.src[:300])
                    elif sdump(r.a) != s0:
                        sw.fail('C08', key + ':block_roundtrip', f'after put_line_comment({t!r}): cut + put back of the '
                                'enclosing block does not restore the structure', src_after=r.src[:300])


def badopt_steps(sw, paths, quick, rnd):
    """C12: an option value out of range must leave the tree untouched when the edit raises - every (option, invalid
    value) of the C20 table x sampled statement / expression targets x {replace, insert before, delete}.  Statement
    targets whose block sits on its header line (`if x: a`) are always included: they are the ones a put prepares
    (normalises) before the element is placed."""
    from contracts.b_options import _vals
    from contracts.b_lib import follow
    _, bad = _vals()
    pairs = [(o, v) for o, vs in sorted(bad.items()) for v in vs if v is not object]
    root = sw.fresh()
    stmts, exprs, tight = [], [], []
    for path, cat, cls in paths:
        if cat == 'stmt' and path[-1][1] is not None:
            n = follow(root, path)
            par = n.parent if n else None
            if par is not None and getattr(par.a, 'lineno', None) is not None and par.a.__class__.__name__ != 'Module' \
                    and n.ln == par.ln:
                tight.append(path)
            else:
                stmts.append(path)
        elif cat == 'expr':
            exprs.append(path)
    k = 3 if quick else 12
    sel = tight[:k * 2] + (rnd.sample(stmts, k) if len(stmts) > k else stmts)
    sel_e = rnd.sample(exprs, k) if len(exprs) > k else exprs
    for path in sel:
        for o, v in pairs:
            kw = {o: v}
            sw.step(path, f'replace("pass", {o}={v!r})', lambda r, n, kw=kw: n.replace('pass', **kw))
            sw.step(path, f'insert_before("zz = 1", {o}={v!r})',
                    lambda r, n, kw=kw: n.parent.put_slice('zz = 1', n.pfield.idx, n.pfield.idx, n.pfield.name, **kw))
            sw.step(path, f'remove({o}={v!r})', lambda r, n, kw=kw: n.remove(**kw))
    for path in sel_e:
        for o, v in pairs:
            kw = {o: v}
            sw.step(path, f'replace("zz", {o}={v!r})', lambda r, n, kw=kw: n.replace('zz', **kw))


def _redundant_pars(src, ploc):
    """are the parentheses at the ends of `ploc` redundant: does the program without them parse to the same structure?"""
    if not ploc:
        return False
    lines = src.split('\n')
    ln, col, eln, ecol = ploc[:4]
    try:
        if lines[ln][col] != '(' or lines[eln][ecol - 1] != ')':
            return False
        lines[eln] = lines[eln][:ecol - 1] + ' ' + lines[eln][ecol:]
        lines[ln] = lines[ln][:col] + ' ' + lines[ln][col + 1:]
        return ast.dump(ast.parse('\n'.join(lines))) == ast.dump(ast.parse(src))
    except (SyntaxError, IndexError):
        return False


def _pars_allowed(src, loc):
    """does the program with parentheses put around `loc` parse to the same structure?"""
    if not loc:
        return False
    lines = src.split('\n')
    ln, col, eln, ecol = loc[:4]
    try:
        lines[eln] = lines[eln][:ecol] + ')' + lines[eln][ecol:]
        lines[ln] = lines[ln][:col] + '(' + lines[ln][col:]
        return ast.dump(ast.parse('\n'.join(lines))) == ast.dump(ast.parse(src))
    except (SyntaxError, IndexError):
        return False


def pars_steps(sw, paths, quick, rnd):
    """C02: par() / unpar() are edits too - afterwards every query must answer as on a fresh parse of the new source
    (which must exist: the source has to parse).  Every parenthesised expression is unparenthesised, sampled bare
    expressions are parenthesised."""
    from contracts import b_query
    root = sw.fresh()
    cands = []
    for path, cat, cls in paths:
        if cat != 'expr':
            continue
        n = follow(root, path)
        try:
            npars = n.pars().n if n and n.loc is not None else 0
        except Exception:
            continue
        cands.append((path, npars))
    un = [p for p, k in cands if k]
    bare = [p for p, k in cands if not k]
    kk = 6 if quick else 40
    if len(bare) > kk:
        bare = rnd.sample(bare, kk)
    for path, opname, fn in ([(p, 'unpar()', lambda n: n.unpar()) for p in un] +
                             [(p, 'par(force=True)', lambda n: n.par(force=True)) for p in bare]):
        r = sw.fresh()
        n = follow(r, path)
        if not n:
            continue
        sw.ev += 1
        sw.pre_edit(r)
        key = f'{opname.split(chr(40))[0]}:{sw.name}:{path}'
        s0 = ast.dump(r.a)
        try:
            n0loc = tuple(n.pars())
        except Exception:
            n0loc = None
        try:
            fn(n)
        except Exception:
            sw.counts['refused'] += 1
            sw.distinct.add(('pars-refused', path, opname))
            continue
        sw.counts['ok'] += 1
        sw.distinct.add(('pars', path, opname))
        try:
            t = ast.parse(r.src)
            if opname == 'unpar()' and ast.dump(t) != s0:
                # the parentheses were needed (unpar() removes them regardless, the meaning changes): not judged
                sw.distinct.add(('pars-needed', path, opname))
                continue
        except SyntaxError as e:
            if opname == 'unpar()' and not _redundant_pars(sw.src, n0loc):
                continue
            if opname != 'unpar()' and not _pars_allowed(sw.src, n0loc):
                continue   # par(force=True) where the grammar allows no parentheses (type alias name, a[b:c, d], a[*b])
            sw.fail('C02', key + ':unparsable', f'after {opname} at {path} the source no longer parses ({e.msg}): no fresh '
                    'tree exists to agree with', src_after=r.src[:300])
            continue
        q = b_query.compare(r)
        if q:
            sw.fail('C02', key, f'after {opname} at {path}: {q}', src_after=r.src[:300])


def move_steps(sw, paths, quick, rnd):
    """C01: a statement cut (or copied) out of one block and appended to another block of a different depth - the
    re-indentation of multi-line statements (strings, bytes, continuation lines) must keep tree == parse(source)"""
    root = sw.fresh()
    stmts = [p for p, cat, cls in paths if cat == 'stmt' and p[-1][1] is not None]
    blocks = []
    for p, f in node_paths(root):
        for fld in ('body', 'orelse', 'finalbody'):
            v = getattr(f.a, fld, None)
            if isinstance(v, list) and v and isinstance(v[0], ast.stmt):
                blocks.append((p, fld))
    multi = [p for p in stmts if (lambda n: n is not None and n.end_ln > n.ln)(follow(root, p))]
    k = 3 if quick else 20
    sel = (multi[:k * 2] if quick else multi) + (rnd.sample(stmts, k) if len(stmts) > k else stmts)
    for sp in sel:
        cands = [b for b in blocks if b[0][:len(sp)] != sp and len(b[0]) + 1 != len(sp)]
        same = [b for b in blocks if b[0][:len(sp)] != sp and len(b[0]) + 1 == len(sp)]
        for bp, fld in (rnd.sample(cands, 2) if len(cands) > 2 else cands) + same[:1]:
            for how in ('cut', 'copy'):
                def fn(r, n, bp=bp, fld=fld, how=how):
                    b = follow(r, bp) if bp else r
                    piece = n.cut() if how == 'cut' else n.copy()
                    getattr(b, fld).append(piece)
                sw.step(sp, f'{how}()->append to {bp}.{fld}', fn)


ARGS_AS = ['pos', 'arg', 'kw', 'arg_only', 'kw_only', 'pos_maybe', 'arg_maybe', 'kw_maybe']


def refusal_steps(sw, paths, quick, rnd):
    """C12: requests that are refused by an ordering / category rule AFTER the handler has started, and code objects that
    may not be used as code at all.
      * every cut of a slice of an `arguments` node with every `args_as` conversion (a conversion that is impossible for
        the pieces cut out - `*a` as positional-only ... - is refused);
      * a consumed tree, a non-root node and the target's own root passed as code to replace() / put_slice(), for sampled
        nodes AND for the root node itself (root replacement is a separate code path)."""
    FST = sw.FST
    root = sw.fresh()
    for path, cat, cls in paths:
        if cls != 'arguments':
            continue
        n = follow(root, path)
        try:
            ln = len(n._cached_allargs())
        except Exception:
            continue
        rng = [(i, j) for i in range(ln + 1) for j in range(i + 1, ln + 1)]
        if quick and len(rng) > 4:
            rng = [(0, ln)] + rnd.sample(rng, 3)
        for (i, j) in rng:
            for aa in ARGS_AS:
                sw.step(path, f'get_slice({i}, {j}, cut=True, args_as={aa!r})',
                        lambda r, n, i=i, j=j, aa=aa: n.get_slice(i, j, cut=True, args_as=aa))

    def consumed():
        d = FST('zz', 'exec')
        FST('k = 5', 'exec').body[0].replace(d)
        return d

    def nonroot():
        return FST('yy = 1\nxx = 2', 'exec').body[1]
    kinds = [('consumed tree', lambda r: consumed()), ('non-root node', lambda r: nonroot()), ('own root', lambda r: r)]
    k = 3 if quick else 12
    sel = [p for p, cat, cls in paths if cat in ('stmt', 'expr')]
    sel = rnd.sample(sel, k) if len(sel) > k else sel
    for path in sel:
        for kn, mk in kinds:
            sw.step(path, f'replace(<{kn}>)', lambda r, n, mk=mk: n.replace(mk(r)))
            sw.step(path, f'replace(<{kn}>, one=False)', lambda r, n, mk=mk: n.replace(mk(r), one=False))
    # the root node as target
    from contracts.b_lib import dump as _dump
    for kn, mk in kinds[:2]:
        r = sw.fresh()
        sw.ev += 1
        src0, d0 = r.src, _dump(r.a)
        desc = {'program': sw.name, 'path': [], 'op': f'root.replace(<{kn}>)', 'seq': None, 'slot': 'root'}
        try:
            r.replace(mk(r))
        except Exception as e:
            sw.counts['refused'] += 1
            sw.distinct.add(('refused', (), desc['op']))
            if r.a is None:
                sw.fail('C12', f'root.replace@root:{sw.name}:{kn}.tree', f'root.replace(<{kn}>) raised {e!r} and left the '
                        'root without a tree (root.a is None)', **desc)
            else:
                sw.check_c12(r, src0, d0, e, desc)
            continue
        sw.counts['ok'] += 1
        v = c01_violation(r)
        if v:
            sw.fail('C12', f'root.replace@root:{sw.name}:{kn}.c01', f'root.replace(<{kn}>) was accepted and broke C01: {v}',
                    **desc)
