"""C14 - traversal visits every node once, in source order, consistently across APIs."""
from contracts import k_traverse, k_scope
from pyvc.contract import verify_all
from pyvc import native


def run(rep, tier, seed):
    # spec check first: ORDER must be CPython position order (a disagreement is a checker error, not a violation)
    v = native.run('k_traverse', 'validate_order', {})
    if v['n_bad'] or v['nodes'] < 1000:
        rep.checker_error(f'ORDER table disagrees with CPython positions (or too few nodes {v["nodes"]}): {v["bad"][:3]}')
    rep.extra['order_validation'] = {'nodes': v['nodes'], 'classes_seen': len(v['classes_seen'])}
    specs, notes = k_traverse.specs('C14')
    v2 = native.run('k_traverse', 'validate_ranks', {})
    if v2['n_bad'] or v2['nodes'] < 20:
        rep.checker_error(f'rank tables disagree with CPython positions: {v2}')
    verify_all(rep, specs + k_traverse.special_specs('C14') + k_traverse.soc_specs('C14') +
               k_traverse.merge_specs('C14') + k_scope.specs('C14'))
    rep.extra['not_proved'] = notes
    k_traverse.all_param_finite(rep, 'C14')
    rep.trusted.append('ORDER table (syntactic field order per AST class) written from the grammar; validated against '
                       'CPython (lineno, col_offset) order on every node of the corpus on every run')
    sec = native.run('b_read', 'main', {'props': ['C14'], 'tier': tier, 'seed': seed,
                                        'interleave': 4 if tier == 'quick' else 5}, timeout=7200)
    sec['native_entry'] = ('b_read', 'replay')
    rep.bounded(sec)
    rep.assumptions.append('Call / ClassDef merge functions: both merged lists sorted by position, positions pairwise '
                           'distinct, a non-starred positional precedes every keyword (Python call syntax) - '
                           'well-formedness of a tree parsed from valid source, instantiated at every index the execution '
                           'and the contract name')
    rep.remainder = ('the walk generator itself (walk modes, step_*, paths): bounded stand-in; the generated programs of every '
                     'argument-like sequence up to length 4 / 5 remain as a cross-check of the merge-function proof')
