"""C03 - edits follow Python container semantics."""
from contracts import k_index
from pyvc.contract import verify_all


def run(rep, tier, seed):
    verify_all(rep, k_index.specs('C03') + k_index.refusal_specs('C03'))
