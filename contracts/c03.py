"""C03 - edits follow Python container semantics."""
from contracts import k_index, k_view, k_arglikes
from pyvc.contract import verify_all
from pyvc import native


def run(rep, tier, seed):
    verify_all(rep, k_index.specs('C03') + k_index.refusal_specs('C03') + k_view.specs('C03')
               + k_view.entry_specs('C03') + k_view.put_one_specs('C03') + k_view.dispatcher_specs('C03') + k_arglikes.specs('C03') + k_arglikes.merge_specs('C03'))
    k_index.callsite_structural(rep, 'C03')
    rep.trusted.append('assumed contract of FST._put_slice/_put_one (length law n\' = n - (b - a) + k, k == 1 for '
                       'one=True, k == 0 for delete) in the FSTView window-update obligations')
    sec = native.run('b_edit', 'main', {'props': ['C03'], 'tier': tier, 'seed': seed,
                                        'ops': ['self', 'donor', 'slice', 'views', 'optional'], 'norm': False})
    sec['native_entry'] = ('b_edit', 'replay')
    rep.bounded(sec)
    sec = native.run('b_raw', 'main', {'props': ['C03'], 'tier': tier, 'seed': seed, 'ops': ['rawput']})
    sec['native_entry'] = ('b_raw', 'replay')
    rep.bounded(sec)
    rep.remainder = ('the handlers\' implementation of the container law and the virtual-field merge logic of the '
                     'FSTView_* subclasses: bounded sweep only')
