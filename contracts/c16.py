"""C16 - scope analysis agrees with Python's own symbol table."""
from pyvc import native, frontend
from pyvc.contract import verify_all
from contracts import k_scope


def run(rep, tier, seed):
    # which children of a nested def / class / lambda / comprehension the scope walk enters (decorators, defaults,
    # annotations, bases, first iterable - not the body, not the parameters) and in what order: the stack builders
    verify_all(rep, k_scope.specs('C16'))
    # finite obligation: the complete list of name-binding constructs of the language reference, one minimal function
    # each; the bound name must be classified as CPython's compiler classifies it (symtable is the specification)
    class _S:
        name = 'finite-domain evaluation over the binding constructs of the language reference'
        notes = 'symtable (CPython compiler) is the specification; one minimal program per construct'
    for ident in ('fst:FST.scope_symbols',):
        try:
            rep.function(frontend.locate(ident), _S)
        except Exception:
            pass
    r = native.run('b_scope', 'finite_binding_constructs', {})
    failing = {f['key']: f for f in r['failures']}
    for key in r['checked']:
        f = failing.get(key)
        rep.other('finite', key, f is None, detail=(f['what'] if f else None), key=key,
                  replay=dict(f or {}, native_entry=('b_scope', 'replay_binding')))
    if len(r['checked']) < 28:
        rep.checker_error(f'binding construct table shrank: {len(r["checked"])}')
    rep.trusted.append('symtable (CPython 3.12 compiler) is the specification of scope membership and classification; '
                       'PEP 709 comprehension inlining adjustment stated in contracts/b_scope.py')
    sec = native.run('b_scope', 'main', {'tier': tier, 'seed': seed})
    sec['native_entry'] = ('b_scope', 'replay')
    rep.bounded(sec)
    rep.remainder = ('scope membership and classification on arbitrary programs: bounded stand-in (25 scope programs); the '
                     'specification is CPython\'s compiler, an external oracle no contract can restate')
