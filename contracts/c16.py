"""C16 - scope analysis agrees with Python's own symbol table (bounded)."""
from pyvc import native


def run(rep, tier, seed):
    sec = native.run('b_scope', 'main', {'tier': tier, 'seed': seed})
    sec['native_entry'] = ('b_scope', 'replay')
    rep.bounded(sec)
