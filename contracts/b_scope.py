"""C16/B - scope analysis agrees with Python's own symbol table (bounded).

Oracles: `symtable` (CPython's compiler) for the names of each scope and their classification, and an independent
reference (the language reference's scoping rules, below) for which Name/arg nodes belong to a scope.
On 3.12 comprehensions are inlined (PEP 709): symtable reports their iteration variables in the enclosing function, so
names bound only as comprehension targets are removed from the comparison (stated here, part of the oracle)."""
import ast
import symtable

PROGRAMS = [
    ('simple', 'import os\nx = 1\ndef f(a, b=x):\n    y = a + b\n    return y + z\n'),
    ('globals', 'g = 0\ndef f():\n    global g, h\n    g = 1\n    h = 2\n    return k\n'),
    ('nonlocal', 'def outer():\n    n = 0\n    m = 1\n    def inner():\n        nonlocal n\n        n += 1\n        return n + m\n    return inner\n'),
    ('class', 'class C(Base, metaclass=M):\n    a = 1\n    def m(self, q: T = d) -> R:\n        return self.a + a\n    b = a + c\n'),
    ('deco', '@dec(arg)\ndef f(p: ann = dflt, *va: va_ann, k: kann = kd, **kw: kw_ann) -> ret:\n    return p\n'),
    ('lambda', 'f = lambda a, b=c: a + b + d\n'),
    ('comp', 'def f(n):\n    return [i * k for i in range(n) if i > m]\n'),
    ('comp2', 'def f(xs):\n    return {a: b for a, b in xs for c in a if c}\n'),
    ('comp_call_iter', 'def f(n):\n    return [i for i in range(n)]\n'),
    ('genexp', 'def f(it):\n    return sum(x for x in it)\n'),
    ('walrus', 'def f(data):\n    if (n := len(data)) > 1:\n        return [y := v for v in data], n, y\n'),
    ('imports', 'def f():\n    import a.b\n    import c as d\n    from e import g, h as i\n    return a, d, g, i\n'),
    ('augassign', 'def f():\n    t = 0\n    t += u\n    v.w += 1\n    x[y] -= 1\n    return t\n'),
    ('delete', 'def f():\n    a = 1\n    del a\n    print(b); del b\n    del c.d, e[g]\n'),
    ('except', 'def f():\n    try:\n        pass\n    except E as err:\n        return err\n    except (A, B):\n        pass\n'),
    ('with_for', 'def f(p):\n    with open(p) as fh, q as (r, s):\n        for i, (j, k) in fh:\n            pass\n    return i, j, k, r, s\n'),
    ('match', 'def f(c):\n    match c:\n        case [a, *rest]:\n            return a, rest\n        case {"k": v, **others}:\n            return v, others\n        case P(x=px) as whole:\n            return px, whole\n        case str() | int():\n            pass\n'),
    ('nested_cls', 'def f():\n    v = 1\n    class K:\n        w = v\n        def m(self):\n            return v, w\n    return K\n'),
    ('annassign', 'def f():\n    a: int = 1\n    b: str\n    c.d: T = 2\n    return a\n'),
    ('starred', 'def f(*a, **k):\n    h, *t = a\n    return g(*t, **k), h\n'),
    ('async', 'async def f(s):\n    async with s as c:\n        async for x in c:\n            yield await x\n    return [y async for y in s]\n'),
    ('default_lambda', 'def f(a, cb=lambda q: q + outer):\n    return cb(a)\n'),
    ('dictcomp_iter', 'def f(pairs):\n    return [k for k in {n: v for n, v in pairs}]\n'),
    ('posonly', 'class X:\n    def m(self, /, request: Request, flags: Flags = 0):\n        return request\n'),
    ('read_del', 'def f():\n    print(x); del x\n'),
    ('walrus_lambda_comp', 'def f(z):\n    return list((lambda: (y := x))() for x in z)\n'),
    ('import_dotted3', 'def f():\n    import xml.etree.ElementTree\n    import a.b.c as d\n    return xml, d\n'),
    ('lambda_kwdefault', 'def f(scale):\n    return lambda v, *, s=scale, t=other, **k: v * s\n'),
    ('nested_lambda_defaults', 'def f(p, q):\n    g = lambda a=p, *b, c=q, d=r: (\n        lambda e=a: e + s)\n    return g\n'),
]


def scopes_of(tree):
    out = []
    for n in ast.walk(tree):
        if isinstance(n, (ast.FunctionDef, ast.AsyncFunctionDef, ast.ClassDef, ast.Lambda)):
            out.append(n)
    return out


def find_table(table, node):
    """symtable child for an ast scope node (matched by kind, name and line number)"""
    want = getattr(node, 'name', 'lambda')
    stack = [table]
    while stack:
        t = stack.pop()
        for c in t.get_children():
            if c.get_lineno() == node.lineno and c.get_name() == want:
                return c
            stack.append(c)
    return None


def comp_inner_only_names(node):
    """names that occur in this scope ONLY inside comprehension bodies (everything but the first iterable): they
    belong to the comprehension's scope; symtable on 3.12 reports them in the enclosing function (PEP 709)"""
    inner, outer = set(), set()

    def visit(n, in_comp, top):
        for c in ast.iter_child_nodes(n):
            if isinstance(c, (ast.FunctionDef, ast.AsyncFunctionDef, ast.ClassDef, ast.Lambda)) and not top:
                continue
            if isinstance(c, (ast.ListComp, ast.SetComp, ast.DictComp, ast.GeneratorExp)):
                first = c.generators[0].iter
                visit_expr(first, in_comp)
                for part in ast.iter_child_nodes(c):
                    if part is c.generators[0]:
                        for sub in ast.iter_child_nodes(part):
                            if sub is not first:
                                visit_expr(sub, True)
                    else:
                        visit_expr(part, True)
                continue
            if isinstance(c, ast.Name):
                (inner if in_comp else outer).add(c.id)
            visit(c, in_comp, False)

    def visit_expr(e, in_comp):
        if isinstance(e, ast.Name):
            (inner if in_comp else outer).add(e.id)
        holder = ast.Expr(value=e)
        visit(holder, in_comp, False) if not isinstance(e, ast.Name) else None
    visit(node, False, True)
    return inner - outer


def global_decls_below(node):
    out = set()
    for n in ast.walk(node):
        if isinstance(n, ast.Global):
            out.update(n.names)
    return out


def comp_target_names(node):
    """names bound only as comprehension iteration targets directly inside `node`'s scope (PEP 709 adjustment)"""
    out = set()

    def visit(n, top):
        for c in ast.iter_child_nodes(n):
            if isinstance(c, (ast.FunctionDef, ast.AsyncFunctionDef, ast.ClassDef, ast.Lambda)) and not top:
                continue
            if isinstance(c, (ast.ListComp, ast.SetComp, ast.DictComp, ast.GeneratorExp)):
                for g in c.generators:
                    for t in ast.walk(g.target):
                        if isinstance(t, ast.Name):
                            out.add(t.id)
            visit(c, False)
    visit(node, True)
    return out


# ---------------------------------------------------------------------------------------------------------------------
# reference: which Name / arg nodes belong to the scope of `node` (language reference, section 4.2 / 6.2.4 / 8.7)

SCOPES = (ast.FunctionDef, ast.AsyncFunctionDef, ast.ClassDef, ast.Lambda, ast.ListComp, ast.SetComp, ast.DictComp,
          ast.GeneratorExp)


def ref_scope_names(node):
    own = []

    def enclosing_parts(n):
        """parts of a nested scope node that are evaluated in the ENCLOSING scope"""
        parts = []
        if isinstance(n, (ast.FunctionDef, ast.AsyncFunctionDef)):
            parts += n.decorator_list
            a = n.args
            parts += a.defaults + [d for d in a.kw_defaults if d is not None]
            for x in a.posonlyargs + a.args + a.kwonlyargs + ([a.vararg] if a.vararg else []) + \
                    ([a.kwarg] if a.kwarg else []):
                if x.annotation is not None:
                    parts.append(x.annotation)
            if n.returns is not None:
                parts.append(n.returns)
        elif isinstance(n, ast.Lambda):
            a = n.args
            parts += a.defaults + [d for d in a.kw_defaults if d is not None]
        elif isinstance(n, ast.ClassDef):
            parts += n.decorator_list + n.bases + [k.value for k in n.keywords]
        else:
            parts.append(n.generators[0].iter)
        return parts

    def visit(n):
        if isinstance(n, SCOPES):
            for p in enclosing_parts(n):
                visit(p)
            if not isinstance(n, (ast.ListComp, ast.SetComp, ast.DictComp, ast.GeneratorExp)):
                return
            # walrus targets inside a comprehension bind in the enclosing scope
            for w in ast.walk(n):
                if isinstance(w, ast.NamedExpr) and isinstance(w.target, ast.Name):
                    own.append(w.target)
            return
        if isinstance(n, (ast.Name, ast.arg)):
            own.append(n)
        for c in ast.iter_child_nodes(n):
            visit(c)
    # the scope's own contents
    if isinstance(node, (ast.FunctionDef, ast.AsyncFunctionDef, ast.Lambda)):
        a = node.args
        for x in a.posonlyargs + a.args + a.kwonlyargs + ([a.vararg] if a.vararg else []) + \
                ([a.kwarg] if a.kwarg else []):
            own.append(x)
        body = node.body if isinstance(node.body, list) else [node.body]
        for s in body:
            visit(s)
    elif isinstance(node, ast.ClassDef):
        for s in node.body:
            visit(s)
    elif isinstance(node, ast.Module):
        for s in node.body:
            visit(s)
    return {(n.lineno, n.col_offset, n.__class__.__name__) for n in own}


def main(payload):
    from fst import FST
    ev = 0
    distinct = set()
    failures = []
    samples = []

    def fail(key, what, **kw):
        from contracts.b_lib import room
        ok, kn = room(failures, f'C16.B.{key}', 40, 40)
        if ok:
            failures.append(dict(key=f'C16.B.{key}', what=what, replayed=True, _known=kn, **kw))

    for name, src in PROGRAMS:
        root = FST(src, 'exec')
        tree = root.a
        top = symtable.symtable(src, '<c16>', 'exec')
        for node in [tree] + scopes_of(tree):
            f = node.f
            kind = node.__class__.__name__
            sname = getattr(node, 'name', kind)
            tag = f'{name}:{kind}:{sname}@{getattr(node, "lineno", 0)}'
            # (1) scope walk yields exactly the Name/arg nodes of the scope
            ev += 1
            try:
                got = {(x.a.lineno, x.a.col_offset, x.a.__class__.__name__) for x in f.walk(True, scope=True, self_=False)
                       if isinstance(x.a, (ast.Name, ast.arg))}
            except Exception as e:
                fail(f'walk.raises:{tag}', f'walk(scope=True) raised {e!r}', program=src)
                continue
            exp = ref_scope_names(node)
            if got != exp:
                fail(f'walk:{tag}', f'walk(scope=True) Name/arg nodes differ from the scope reference: missing '
                     f'{sorted(exp - got)[:4]} extra {sorted(got - exp)[:4]}', program=src)
            distinct.add(('walk', name, tag))
            # (2) names and classification against symtable
            table = top if node is tree else find_table(top, node)
            if table is None:
                continue
            ev += 1
            try:
                syms = f.scope_symbols(full=True)
            except Exception as e:
                fail(f'symbols.raises:{tag}', f'scope_symbols(full=True) raised {e!r}', program=src)
                continue
            comp_only = comp_target_names(node) | comp_inner_only_names(node)
            if node is tree:
                comp_only |= {g for g in global_decls_below(node)
                              if not any(isinstance(x, ast.Name) and x.id == g and (x.lineno, x.col_offset, 'Name')
                                         in ref_scope_names(node) for x in ast.walk(node))}
            st = {}
            for s in table.get_symbols():
                st[s.get_name()] = s
            bound_elsewhere = set()
            def names(cat):
                return set(syms.get(cat, {}))
            all_pfst = names('load') | names('store') | names('del')
            all_st = {n for n, s in st.items() if s.is_referenced() or s.is_assigned() or s.is_parameter()
                      or s.is_imported() or s.is_declared_global() or s.is_nonlocal() or s.is_annotated()}
            # implicit names: symtable lists names that are only used by nested scopes (free in a child): not "accessed"
            all_st = {n for n in all_st if not (n.startswith('.'))}
            adj = lambda xs: {n for n in xs if n not in comp_only and n != '__class__'}
            miss = adj(all_st) - adj(all_pfst)
            extra = adj(all_pfst) - adj(all_st)
            # names referenced only inside nested scopes are reported by symtable for the parent when they are free
            # there; they are not accessed in this scope
            miss = {n for n in miss if not (st[n].is_local() and not st[n].is_assigned() and not st[n].is_referenced())}
            if miss or extra:
                fail(f'symbols.names:{tag}', f'scope_symbols names differ from symtable: missing {sorted(miss)[:5]} '
                     f'extra {sorted(extra)[:5]}', program=src)
            else:
                for n in adj(all_st) & adj(all_pfst):
                    s = st[n]
                    probs = []
                    if node is not tree and s.is_declared_global() != (n in names('global')):
                        probs.append('global')
                    if s.is_nonlocal() != (n in names('nonlocal')):
                        probs.append('nonlocal')
                    if table.get_type() == 'function':
                        is_local = s.is_local() and (s.is_assigned() or s.is_parameter() or s.is_imported())
                        if is_local != (n in names('local')):
                            probs.append(f'local (symtable {is_local})')
                        implicit = (s.is_free() and not s.is_nonlocal()) or (s.is_global() and not s.is_declared_global())
                        if implicit != (n in names('free')):
                            probs.append(f'free (symtable implicit nonlocal/global {implicit})')
                    if s.is_referenced() and n not in names('load') and not s.is_assigned():
                        probs.append('load')
                    if probs:
                        cats = '+'.join(p.split()[0] for p in probs)
                        fail(f'symbols.class:{tag}:{n}:{cats}', f'name {n!r} classified differently from symtable: {probs}',
                             program=src)
            distinct.add(('symbols', name, tag))
            if len(samples) < 2:
                samples.append({'program': src, 'scope': tag, 'names': sorted(all_pfst)})
    # (4) scope walk while the node just yielded is replaced by a node that opens a scope of its own: what is yielded
    #     afterwards must be what a fresh scope walk of the final tree yields (only the parts of the new node that live in
    #     the walked scope: lambda defaults, the first iterable of a generator)
    SRC_R = 'def build(items, base):\n    total = PLACEHOLDER\n    rows = other\n    return total, rows\n'
    for rname, repl in (('lambda_default', 'lambda inc=base: hidden + inc'), ('genexp', '(hidden * cell for cell in items if cell)'),
                        ('listcomp_nested', '[h for h in [i for i in items]]'), ('plain_call', 'f(base, items)'),
                        ('lambda_in_call', 'g(lambda q=base: hidden)')):
        for back in (False, True):
            ev += 1
            mod = FST(SRC_R, 'exec')
            func = mod.body[0]
            yielded = []
            try:
                for g in func.walk(True, scope=True, back=back):
                    if g.a.__class__.__name__ == 'Name' and g.a.id == 'PLACEHOLDER':
                        g = g.replace(repl)
                    yielded.append(g)
            except Exception as e:
                fail(f'walk.scope_replace:{rname}:back={back}', f'scope walk with the yielded name replaced by {repl!r} raised {e!r}')
                continue
            alive = {id(g) for g in yielded if g.a is not None}
            fresh = list(func.walk(True, scope=True, back=back))
            extra = [g for g in yielded if g.a is not None and id(g) not in {id(x) for x in fresh}]
            missing = [x for x in fresh if id(x) not in alive]
            distinct.add(('scope_replace', rname, back))
            if extra or missing:
                fail(f'walk.scope_replace:{rname}:back={back}', f'scope walk of build() with the yielded placeholder replaced by '
                     f'{repl!r}: yielded outside the scope {[x.src[:20] for x in extra][:4]}, missed '
                     f'{[x.src[:20] for x in missing][:4]} (compared with a fresh scope walk of the final tree)')
    return {'name': 'C16.B.scope', 'evaluations': ev, 'distinct_nontrivial': len(distinct),
            'rule': 'every module / function / lambda / class scope of a table of scope programs: (1) Name/arg nodes of '
                    'walk(scope=True) == language-reference scope membership, (2) scope_symbols(full=True) names and '
                    'global/nonlocal/local/free classification == symtable (comprehension targets removed: PEP 709)',
            'scope': f'{len(PROGRAMS)} programs', 'samples': samples, 'exhaustive': False, 'failures': failures,
            'harness_errors': []}


def replay(payload):
    rep = payload.get('replay') or payload
    r = main({})
    hit = [f for f in r['failures'] if f['key'] == rep['key']]
    return {'reproduced': bool(hit), 'failure': hit[:1]}


# ---------------------------------------------------------------------------------------------------------------------
# C16 finite obligation: every name-binding construct of the language reference ("Naming and binding", 4.2.1), one
# minimal function per construct; the classification of the bound name `v` must be what CPython's compiler says

BINDING_CONSTRUCTS = [
    ('assignment', 'v = 1'), ('augmented_assignment', 'v = 0\n    v += 1'), ('annotated_assignment', 'v: int = 1'),
    ('for_target', 'for v in x: pass'), ('for_tuple_target', 'for (a, v) in x: pass'),
    ('with_as', 'with x as v: pass'), ('except_as', 'try: pass\n    except E as v: pass'),
    ('import', 'import v'), ('import_as', 'import m as v'), ('import_dotted', 'import v.w'),
    ('from_import', 'from m import v'), ('from_import_as', 'from m import w as v'),
    ('def_name', 'def v(): pass'), ('async_def_name', 'async def v(): pass'), ('class_name', 'class v: pass'),
    ('walrus', '(v := 1)'), ('del_only', 'print(v); del v'), ('starred_target', 'a, *v = x'),
    ('match_capture', 'match x:\n        case v: pass'), ('match_as', 'match x:\n        case 1 as v: pass'),
    ('match_star', 'match x:\n        case [a, *v]: pass'), ('match_mapping_rest', 'match x:\n        case {1: a, **v}: pass'),
    ('match_class_kw', 'match x:\n        case C(k=v): pass'),
    ('global_decl', 'global v\n    v = 1'), ('nonlocal_decl', None),
    ('param', None), ('param_posonly', None), ('param_kwonly', None), ('param_vararg', None), ('param_kwarg', None),
    ('type_param', None), ('type_alias', 'type v = int'),
]


def _construct_src(name, body):
    if name == 'nonlocal_decl':
        return 'def o():\n  v = 0\n  def f():\n    nonlocal v\n    v = 1\n    return v\n', 'f'
    hdr = {'param': 'def f(v):', 'param_posonly': 'def f(v, /):', 'param_kwonly': 'def f(*, v):',
           'param_vararg': 'def f(*v):', 'param_kwarg': 'def f(**v):', 'type_param': 'def f[v]():'}.get(name)
    if hdr:
        return f'{hdr}\n    return v\n', 'f'
    return f'def f():\n    {body}\n    return v\n', 'f'


def finite_binding_constructs(payload):
    import ast as _ast
    from fst import FST
    out = {'checked': [], 'failures': []}
    for name, body in BINDING_CONSTRUCTS:
        src, fname = _construct_src(name, body)
        try:
            top = symtable.symtable(src, '<c16>', 'exec')
            tree = _ast.parse(src)
        except SyntaxError:
            continue
        node = next(n for n in _ast.walk(tree) if isinstance(n, (_ast.FunctionDef,)) and n.name == fname)
        table = find_table(top, node)
        try:
            s = table.lookup('v')
        except KeyError:
            continue
        root = FST(src, 'exec')
        fnode = next(n for n in root.walk(True) if n.a.__class__.__name__ == 'FunctionDef' and n.a.name == fname)
        key = f'C16.binding_constructs[{name}]'
        out['checked'].append(key)
        try:
            syms = fnode.scope_symbols(full=True)
        except Exception as e:
            out['failures'].append({'key': key, 'what': f'scope_symbols raised {e!r} on {src!r}', 'program': src,
                                    'replayed': True})
            continue
        want = {'local': s.is_local() and (s.is_assigned() or s.is_parameter() or s.is_imported()) or
                (s.is_local() and name == 'del_only'),
                'global': s.is_declared_global(), 'nonlocal': s.is_nonlocal(),
                'bound_here': s.is_assigned() or s.is_parameter() or s.is_imported()}
        got = {'local': 'v' in syms.get('local', {}), 'global': 'v' in syms.get('global', {}),
               'nonlocal': 'v' in syms.get('nonlocal', {}),
               'bound_here': 'v' in syms.get('store', {}) or 'v' in syms.get('local', {}) and name.startswith('param')
               or ('v' in syms.get('store', {}))}
        if name.startswith(('param', 'type_param')):
            got['bound_here'] = got['local']
        diff = {k: (want[k], got[k]) for k in want if bool(want[k]) != bool(got[k])}
        if diff:
            out['failures'].append({'key': key, 'what': f'the name bound by {name} ({src!r}): CPython says '
                                    f'{ {k: v[0] for k, v in diff.items()} }, scope_symbols says '
                                    f'{ {k: v[1] for k, v in diff.items()} }', 'program': src, 'replayed': True})
    return out


def replay_binding(payload):
    rep = payload.get('replay') or payload
    r = finite_binding_constructs({})
    hit = [f for f in r['failures'] if f['key'] == rep.get('key')]
    return {'reproduced': bool(hit), 'failure': hit[:1]}
