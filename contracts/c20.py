"""C20 - options and edits are isolated per call, per block and per thread."""
from contracts import k_options, k_modifying, k_bistr, k_cache, k_links
from pyvc.contract import verify_all
from pyvc import native


def run(rep, tier, seed):
    # the process-global modification registry is the only cross-thread mutable state besides the thread-local store:
    # its frame obligations (only the entry of the root being edited is touched) are part of the isolation argument
    # a per-node memo keyed before the thread default is resolved would carry one options() block's default into another
    memo = [s for s in k_cache.specs('C20') if s.name == 'memo.own_lines']
    # CPython's shared singleton context / operator instances are reachable from every tree of every thread: the link
    # kernel must never tag them (unmake) and must replace them by own instances (make)
    shared = [s for s in k_links.specs('C20') if s.name in ('links.unmake', 'links.make_tree_node')]
    verify_all(rep, k_options.specs('C20') + k_modifying.specs('C20') + memo + shared)
    k_options.footprint_structural(rep, 'C20')
    k_options.validators_finite(rep, 'C20')
    k_bistr.publication_structural(rep, 'C20')
    rep.bounded(native.run('b_options', 'main', {'tier': tier, 'seed': seed}))
    rep.remainder = ('"obtain exactly the results they would obtain alone" over thread SCHEDULES: the family has '
                     'nothing for interleavings; proved: store algebra, restore-on-exit, per-call lookup; bounded: '
                     'sequential thread creation only, no concurrent execution is performed or claimed')
