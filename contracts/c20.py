"""C20 - options and edits are isolated per call, per block and per thread."""
from contracts import k_options
from pyvc.contract import verify_all
from pyvc import native


def run(rep, tier, seed):
    verify_all(rep, k_options.specs('C20'))
    rep.bounded(native.run('b_options', 'main', {'tier': tier, 'seed': seed}))
    rep.remainder = ('"obtain exactly the results they would obtain alone" over thread SCHEDULES: the family has '
                     'nothing for interleavings; proved: store algebra, restore-on-exit, per-call lookup; bounded: '
                     'sequential thread creation only, no concurrent execution is performed or claimed')
