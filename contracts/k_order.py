"""Structural all-paths obligations: "everything that may raise by contract happens before the first mutation of the
target tree" (the atomicity fragments of C10 and C12).

An abstract interpretation of the function's AST with a two-point state {clean, mutated} per path:
  * a MUTATOR is a call `<target>.<m>(...)` with <target> in the function's target names and <m> in MUTATING_METHODS, an
    attribute/subscript store or augmented assignment whose base is a target name, or a call listed as an atomic
    delegate (it raises before mutating or completes) - after it the path is `mutated`;
  * a MAY-RAISE operation is an explicit `raise`, or a call of a function listed in MAY_RAISE (parsers, coercions,
    index fix-ups, validators) - everything else called after the first mutation is in the assumed no-raise list;
  * branches, loops (two iterations), try/except/else/finally are followed path-sensitively; objects created inside
    the function (copies) are fresh, operations on them never count.
Obligation per function: no may-raise operation is reachable in state `mutated`.  Decided on the program text of the
current source, for all inputs."""
import ast

MUTATING_METHODS = {'_put_src', '_set_ast', '_set_field', '_offset', '_offset_lns', '_indent_lns', '_dedent_lns',
                    '_redent_lns', '_put_slice', '_put_one', '_unmake_fst_tree', '_make_fst_tree', '_touchall',
                    '_set_start_pos', '_set_end_pos', '_set_ctx', 'set', '_parenthesize_grouping', '_delimit_node',
                    '_unparenthesize_grouping', '_undelimit_node', '_maybe_add_line_continuations', '_sanitize'}


# callee contract "raises only when keyword <kw> is not <safe>" (the callee side is obligation conditional_raise_callee)
CONDITIONAL_RAISE = {'_maybe_add_line_continuations': ('del_comments', True)}


def conditional_raise_callee(rep, prop):
    """the callee half of CONDITIONAL_RAISE: every explicit raise of the function is inside `if not <kw>:` and the keyword's
    default is the safe value; so a call that leaves the keyword at its default (or passes the safe constant) cannot reach
    an explicit raise of this function"""
    from pyvc import frontend
    for fname, (kw, safe) in sorted(CONDITIONAL_RAISE.items()):
        ident = f'fst_misc:{fname}'
        loc = frontend.locate(ident)

        class _S:
            name = f'raises only when {kw} is not {safe} (structural)'
            notes = ''
        rep.function(loc, _S)
        fn = loc.node
        probs = []
        defaults = dict(zip([a.arg for a in fn.args.kwonlyargs], fn.args.kw_defaults))
        d = defaults.get(kw)
        if not (isinstance(d, ast.Constant) and d.value is safe):
            probs.append(f'default of {kw} is not {safe}')
        parents = {}
        for n in ast.walk(fn):
            for c in ast.iter_child_nodes(n):
                parents[c] = n
        nraise = 0
        for n in ast.walk(fn):
            if isinstance(n, ast.Raise):
                nraise += 1
                p, child, ok = parents.get(n), n, False
                while p is not None and p is not fn:
                    if (isinstance(p, ast.If) and child in p.body and isinstance(p.test, ast.UnaryOp)
                            and isinstance(p.test.op, ast.Not) and isinstance(p.test.operand, ast.Name)
                            and p.test.operand.id == kw):
                        ok = True
                        break
                    child, p = p, parents.get(p)
                if not ok:
                    probs.append(f'line {n.lineno}: raise not guarded by `if not {kw}`')
            elif isinstance(n, (ast.Assign, ast.AugAssign, ast.NamedExpr)):
                for t in ast.walk(n.targets[0] if isinstance(n, ast.Assign) else n.target):
                    if isinstance(t, ast.Name) and t.id == kw:
                        probs.append(f'line {n.lineno}: {kw} is reassigned')
        if not nraise:
            rep.checker_error(f'{ident}: no raise statement found (anchor changed?)')
        name = f'{prop}.order.callee.{fname}.raises_only_without_{kw}'
        rep.other('structural', name, not probs, detail='; '.join(probs[:3]) or f'{nraise} explicit raise(s), all under `if not {kw}`',
                  key=name, replay={'function': ident, 'problems': probs, 'verifier_output': 'syntactic guard analysis'})


class Analysis:
    def __init__(self, fnode, targets, may_raise, atomic=(), fresh_ctor=(), derive=False):
        self.fn = fnode
        self.targets = set(targets)
        if derive:   # locals bound to a part of the target tree (`f0 := body[0].f`) are target receivers too
            changed = True
            while changed:
                changed = False
                for n in ast.walk(fnode):
                    if isinstance(n, ast.NamedExpr):
                        pairs = [(n.target, n.value)]
                    elif isinstance(n, ast.Assign) and len(n.targets) == 1:
                        pairs = [(n.targets[0], n.value)]
                    else:
                        continue
                    for t, v in pairs:
                        if not isinstance(t, ast.Name) or t.id in self.targets:
                            continue
                        b = v
                        while isinstance(b, (ast.Attribute, ast.Subscript)):
                            b = b.value
                        if isinstance(b, ast.Name) and b.id in self.targets and b is not v:
                            self.targets.add(t.id)
                            changed = True
        self.may_raise = set(may_raise)
        self.atomic = set(atomic)
        self.problems = []
        self.n_mut = 0
        self.n_raise = 0

    # expression effects, in evaluation order (approximation: left-to-right walk of calls)
    def effects(self, node):
        """effects of evaluating `node`, in evaluation order (arguments before the call that takes them)"""
        out = []

        def visit(n):
            if isinstance(n, (ast.FunctionDef, ast.Lambda, ast.ClassDef)):
                return
            for c in ast.iter_child_nodes(n):
                visit(c)
            if not isinstance(n, ast.Call):
                return
            name = recv = None
            if isinstance(n.func, ast.IfExp):   # (f if c else g)(...): either callee
                for br in (n.func.body, n.func.orelse):
                    if isinstance(br, ast.Name) and br.id in self.may_raise:
                        out.append(('raise', br.id, n.lineno))
                return
            if isinstance(n.func, ast.Name):
                name = n.func.id
            elif isinstance(n.func, ast.Attribute):
                name = n.func.attr
                b = n.func.value
                while isinstance(b, (ast.Attribute, ast.Subscript)):
                    b = b.value
                recv = b.id if isinstance(b, ast.Name) else None
            if name in CONDITIONAL_RAISE and recv in self.targets:
                kw, safe = CONDITIONAL_RAISE[name]
                for k in n.keywords:
                    if k.arg is None or (k.arg == kw and not (isinstance(k.value, ast.Constant) and k.value.value is safe)):
                        out.append(('raise', f'{name}({kw}=...)', n.lineno))
            if name in self.atomic and (recv is None or recv in self.targets):
                out.append(('atomic', name, n.lineno))
            elif name in self.may_raise:
                out.append(('raise', name, n.lineno))
            elif name in MUTATING_METHODS and recv in self.targets:
                out.append(('mut', f'{recv}.{name}', n.lineno))
        visit(node)
        return out

    def store_mut(self, tgt):
        for t in (tgt.elts if isinstance(tgt, (ast.Tuple, ast.List)) else [tgt]):
            if isinstance(t, (ast.Attribute, ast.Subscript)):
                b = t
                while isinstance(b, (ast.Attribute, ast.Subscript)):
                    b = b.value
                if isinstance(b, ast.Name) and b.id in self.targets:
                    return f'store {ast.unparse(t)[:40]}'
        return None

    def apply(self, effs, states, lineno):
        """states: set of 'clean'/'mutated' reaching this point; returns states after"""
        out = set()
        for st in states:
            s = st
            for kind, name, ln in effs:
                if kind == 'raise':
                    self.n_raise += 1
                    if s == 'mutated':
                        self.problems.append(f'line {ln}: {name}() may raise after the target tree was already mutated')
                elif kind == 'atomic':
                    if s == 'mutated':
                        self.problems.append(f'line {ln}: {name}() (raises-or-completes delegate) called after a mutation')
                    s = 'mutated'
                    self.n_mut += 1
                elif kind == 'mut':
                    s = 'mutated'
                    self.n_mut += 1
            out.add(s)
        return out

    def block(self, stmts, states):
        """-> (states falling through, states at returns, states at raises)"""
        cur = set(states)
        for s in stmts:
            if not cur:
                break
            cur = self.stmt(s, cur)
        return cur

    def stmt(self, s, states):
        if isinstance(s, ast.Raise):
            self.n_raise += 1
            effs = self.effects(s)
            st = self.apply(effs, states, s.lineno)
            for x in st:
                if x == 'mutated' and not self.in_handler_reraise(s):
                    self.problems.append(f'line {s.lineno}: explicit raise after the target tree was already mutated')
            return set()
        if isinstance(s, ast.Return):
            self.apply(self.effects(s), states, s.lineno)
            return set()
        if isinstance(s, ast.If):
            t = s.test
            if (isinstance(t, ast.UnaryOp) and isinstance(t.op, ast.Not) and isinstance(t.operand, ast.Call)
                    and isinstance(t.operand.func, ast.Name) and t.operand.func.id in self.atomic):
                # `if not delegate(...)`: the delegate's contract - a falsy result means it did nothing
                self.apply(self.effects(t), states, s.lineno)
                return self.block(s.body, set(states)) | self.block(s.orelse, {'mutated'})
            st = self.apply(self.effects(s.test), states, s.lineno)
            return self.block(s.body, st) | self.block(s.orelse, st)
        if isinstance(s, (ast.For, ast.While)):
            head = s.iter if isinstance(s, ast.For) else s.test
            st = self.apply(self.effects(head), states, s.lineno)
            once = self.block(s.body, st)
            twice = self.block(s.body, st | once)
            return st | once | twice | self.block(s.orelse, st | once | twice)
        if isinstance(s, ast.Try):
            body = self.block(s.body, states)
            # an exception may leave the body in any state reached inside it: approximate by entry states + body states
            hstates = set(states) | body
            outs = self.block(s.orelse, body)
            for h in s.handlers:
                outs |= self.block(h.body, hstates)
            if s.finalbody:
                outs = self.block(s.finalbody, outs or hstates)
            return outs
        if isinstance(s, ast.With):
            st = states
            for it in s.items:
                st = self.apply(self.effects(it.context_expr), st, s.lineno)
            return self.block(s.body, st)
        if isinstance(s, (ast.FunctionDef, ast.ClassDef)):
            return states
        st = self.apply(self.effects(s), states, s.lineno)
        if isinstance(s, (ast.Assign, ast.AugAssign, ast.AnnAssign)):
            tgts = s.targets if isinstance(s, ast.Assign) else [s.target]
            for t in tgts:
                m = self.store_mut(t)
                if m:
                    self.n_mut += 1
                    st = {'mutated'}
        return st

    def in_handler_reraise(self, s):
        return s.exc is None   # bare `raise` inside a handler re-raises what a may-raise op already produced

    def run(self):
        self.block(self.fn.body, {'clean'})
        return self.problems


def check(rep, prop, ident, targets, may_raise, atomic=(), min_mut=1, min_raise=1):
    from pyvc import frontend
    loc = frontend.locate(ident)

    class _S:
        name = 'raise-before-mutate order (structural)'
        notes = f'targets={sorted(targets)} may_raise={sorted(may_raise)} atomic={sorted(atomic)}'
    rep.function(loc, _S)
    a = Analysis(loc.node, targets, may_raise, atomic)
    probs = a.run()
    name = f'{prop}.atomic.order.{ident.split(":")[1]}'
    if a.n_mut < min_mut or a.n_raise < min_raise:
        rep.checker_error(f'{name}: analysis saw {a.n_mut} mutators / {a.n_raise} may-raise operations (anchor changed?)')
    rep.other('structural', name, not probs,
              detail='; '.join(probs[:4]) or f'{a.n_raise} may-raise operations all precede the first of {a.n_mut} mutations '
              'on every path', key=name,
              replay={'function': ident, 'problems': probs[:10], 'verifier_output': 'all-paths order analysis'})
    return a


RAW_MAY_RAISE = {'fromsrc', 'parse_match_case', 'parse_ExceptHandler', '_code_as_lines', 'clip_src_loc'}


def c10_order(rep, prop='C10'):
    check(rep, prop, 'fst_raw:_reparse_raw_base', {'self', 'root'}, RAW_MAY_RAISE, set(), 2, 2)
    check(rep, prop, 'fst_raw:_reparse_raw_stmtlike', {'self', 'root', 'stmtlike'}, RAW_MAY_RAISE, {'_reparse_raw_base'}, 2, 2)
    check(rep, prop, 'fst_raw:_reparse_raw', {'self', 'root'}, RAW_MAY_RAISE, {'_reparse_raw_base', '_reparse_raw_stmtlike'},
          1, 1)
    check(rep, prop, 'fst:FST.put_src', {'self', 'root', 'parent'}, RAW_MAY_RAISE, {'_reparse_raw'}, 2, 2)
    check(rep, prop, 'fst:FST.reparse', {'self', 'root'}, RAW_MAY_RAISE | {'_get_src'}, {'put_src'}, 1, 1)
    rep.trusted.append('assumed no-raise after the first mutation: _put_src, _offset, _set_ast, _touchall, '
                       '_unmake_fst_tree, child_from_path, child_path, astfield.set, walk; delegates listed as atomic raise '
                       'before mutating or complete (their own order obligation is checked too)')


# ---------------------------------------------------------------------------------------------------------------------
# C12: handler-level order obligations with a computed (transitive, by-name) mutator set

SEED_MUTATORS = {'_put_src', '_offset', '_offset_lns', '_set_ast', '_set_field', '_indent_lns', '_dedent_lns',
                 '_redent_lns', '_set_start_pos', '_set_end_pos', '_set_ctx', '_unmake_fst_tree'}
MAY_RAISE_RE = r'^(fixup_one_index|fixup_slice_indices|fixup_field_body|code_as_\w+|code_as|_code_to_slice\w*|validate_\w+|_validate\w*|_coerce\w*|parse_\w+|fromsrc|clip_src_loc|_code_as_lines)$'


NON_MUTATING_PREFIXES = ('code_as', 'parse', '_coerce', 'copy', 'get', '_get', '_loc', '_is', 'is_', '_next', '_prev', 'walk',
                         'pars', 'dump', 'verify')


def transitive_mutators():
    """function / method NAMES of src/fst that (transitively, by name) reach a seed mutator or store into an AST field"""
    import glob
    import os
    import re
    from pyvc import frontend
    bodies = {}
    for path in sorted(glob.glob(os.path.join(frontend.SRC, '*.py'))):
        tree = frontend.module(os.path.basename(path)[:-3]).tree
        for n in ast.walk(tree):
            if isinstance(n, ast.FunctionDef):
                bodies.setdefault(n.name, []).append(n)
    calls = {}
    for name, fns in bodies.items():
        cs = set()
        for fn in fns:
            for n in ast.walk(fn):
                if isinstance(n, ast.Call):
                    if isinstance(n.func, ast.Name):
                        cs.add(n.func.id)
                    elif isinstance(n.func, ast.Attribute):
                        cs.add(n.func.attr)
        calls[name] = cs
    mut = set(SEED_MUTATORS)
    changed = True
    while changed:
        changed = False
        for name, cs in calls.items():
            if name in mut or not (cs & mut) or re.match(MAY_RAISE_RE, name) or name.startswith(NON_MUTATING_PREFIXES):
                continue
            mut.add(name)
            changed = True
    return mut


def c12_handlers(rep, prop='C12'):
    """For every function reachable from _PUT_SLICE_HANDLERS / _PUT_ONE_HANDLERS (and the two dispatchers): argument
    validation, code coercion and index fix-up (everything that raises by contract) precede the first call that may
    mutate the target tree.  A handler for which the obligation does not hold on the unchanged tree, or in which the
    analysis sees no mutator or no may-raise operation, is NOT registered (listed as undecided in evidence)."""
    import re
    from pyvc import frontend
    mut = transitive_mutators()
    global MUTATING_METHODS
    saved = set(MUTATING_METHODS)
    MUTATING_METHODS |= mut
    registered, skipped = [], []
    conditional_raise_callee(rep, prop)
    try:
        for modname, tables in (('fst_put_slice', ['_PUT_SLICE_HANDLERS']), ('fst_put_one', ['_PUT_ONE_HANDLERS'])):
            mod = frontend.module(modname)
            names = set()
            for t in tables:
                d = frontend.module_assign(modname, t)
                for v in d.values:
                    for n in ast.walk(v):
                        if isinstance(n, ast.Name) and n.id.startswith('_put_'):
                            names.add(n.id)
            names |= {'_put_slice' if modname == 'fst_put_slice' else '_put_one'}
            funcs = {n.name: n for n in mod.tree.body if isinstance(n, ast.FunctionDef)}
            for nm in sorted(names):
                fn = funcs.get(nm)
                if fn is None:
                    continue
                may = set()
                for n in ast.walk(fn):
                    if isinstance(n, ast.Call):
                        cn = n.func.id if isinstance(n.func, ast.Name) else getattr(n.func, 'attr', '')
                        if re.match(MAY_RAISE_RE, cn):
                            may.add(cn)
                a = Analysis(fn, {'self', 'root', 'ast', 'body', 'parent'}, may, set(), derive=True)
                probs = a.run()
                ident = f'{modname}:{nm}'
                if a.n_mut and a.n_raise and (not probs or nm in BASELINE_HANDLERS):
                    try:
                        loc = frontend.locate(ident)
                    except frontend.ExtractionError:
                        skipped.append((nm, 'not a live definition for this Python version'))
                        continue

                    class _S:
                        name = 'raise-before-mutate order (structural, handler)'
                        notes = f'may_raise={sorted(may)}'
                    rep.function(loc, _S)
                    name = f'{prop}.order.handlers.{nm}'
                    rep.other('structural', name, not probs,
                              detail='; '.join(probs[:3]) or f'{a.n_raise} may-raise operations precede the first of '
                              f'{a.n_mut} possibly-mutating calls on every path', key=name,
                              replay={'function': ident, 'problems': probs[:10],
                                      'verifier_output': 'all-paths order analysis with the transitive mutator set'})
                    registered.append(nm)
                else:
                    skipped.append((nm, 'no mutator/raise seen' if not probs else probs[0][:80]))
    finally:
        MUTATING_METHODS.clear()
        MUTATING_METHODS.update(saved)
    for nm in sorted(BASELINE_HANDLERS - set(registered)):
        rep.undecided(f'{prop}.order.handlers.{nm}', 'the order obligation held for this handler on the pinned tree but can no '
                      'longer be generated (handler removed/renamed, or no mutator / may-raise operation recognised)')
    rep.extra['order_handlers_registered'] = len(registered)
    rep.extra['order_handlers_not_registered'] = skipped[:80]
    if len(registered) < len(BASELINE_HANDLERS) // 2:
        rep.checker_error(f'only {len(registered)} handler order obligations could be generated')
    return registered, skipped


# handlers for which the obligation was generated and discharged on the pinned tree: a later failure is a violation,
# not a silent de-registration
BASELINE_HANDLERS = {
    '_put_one_AnnAssign_simple', '_put_one_BoolOp_op', '_put_one_Constant_kind',
    '_put_one_ExceptHandler_type', '_put_one_ImportFrom_level', '_put_one_ImportFrom_names',
    '_put_one_Import_names', '_put_one_MatchAs_name', '_put_one_Tuple_elts',
    '_put_one_comprehension_is_async', '_put_one_constant', '_put_one_exprlike_optional',
    '_put_one_identifier_optional', '_put_one_identifier_required', '_put_one_op',
    '_put_slice_Assign_targets', '_put_slice_Call_ClassDef_arglikes', '_put_slice_Call_args',
    '_put_slice_ClassDef_bases', '_put_slice_Compare__all', '_put_slice_Delete_targets',
    '_put_slice_Global_Nonlocal_names', '_put_slice_ImportFrom_names', '_put_slice_Import_names',
    '_put_slice_MatchMapping__all', '_put_slice_Set_elts', '_put_slice_Tuple_elts',
    '_put_slice_With_AsyncWith_items', '_put_slice_arguments', '_put_slice_comprehension_ifs',
    '_put_slice_decorator_list', '_put_slice_pattern_attrlikes_patterns', '_put_slice_type_params'}


# ---------------------------------------------------------------------------------------------------------------------
# C07: "copying never disturbs the tree" as an all-paths frame obligation on the get handlers: with cut false, nothing
# reachable from the SOURCE tree is written.  Structural: every statement that may mutate the source (store / delete
# through a source name, a call of a (transitive, by-name) mutator on a source receiver or with the source as first
# argument) is guarded by `cut` being true on every path, or is a call of a cut-aware helper that is handed the very
# same `cut` value (the helper is then subject to the same obligation).

SOURCE_NAMES = {'self', 'ast', 'body', 'body2', 'root', 'lines', 'parent', 'parenta'}
CUT_AWARE = {'get_slice_sep', 'get_slice_nosep', 'get_slice_stmtlike', '_cut_or_copy_asts', '_cut_or_copy_asts2',
             '_get_slice', '_get_one', 'get_slice', 'get'}


# methods that write the objects handed to them (argument index), not their receiver
MUTATES_ARGUMENT = {'_set_ctx': 1}


class GuardAnalysis:
    def __init__(self, fn, mutators, flag='cut'):
        self.fn, self.mut, self.flag = fn, mutators, flag
        self.problems = []
        self.n_guarded = 0
        self.n_aware = 0
        self.sources = set(SOURCE_NAMES)
        # locals bound to parts of the source tree:  x = self.a / ast.elts / getattr(ast, field) ...
        for n in ast.walk(fn):
            if isinstance(n, ast.Assign) and len(n.targets) == 1 and isinstance(n.targets[0], ast.Name):
                b = self._base(n.value)
                if b in self.sources and not isinstance(n.value, ast.Call):
                    self.sources.add(n.targets[0].id)

    @staticmethod
    def _base(e):
        while isinstance(e, (ast.Attribute, ast.Subscript)):
            e = e.value
        return e.id if isinstance(e, ast.Name) else None

    def _is_flag_true(self, test):
        """does `test` being true imply the flag is true?"""
        if isinstance(test, ast.Name) and test.id == self.flag:
            return True
        if isinstance(test, ast.BoolOp) and isinstance(test.op, ast.And):
            return any(self._is_flag_true(v) for v in test.values)
        return False

    def _is_flag_false(self, test):
        """does `test` being true imply the flag is false?"""
        if isinstance(test, ast.UnaryOp) and isinstance(test.op, ast.Not):
            return isinstance(test.operand, ast.Name) and test.operand.id == self.flag
        if isinstance(test, ast.BoolOp) and isinstance(test.op, ast.And):
            return any(self._is_flag_false(v) for v in test.values)
        return False

    @staticmethod
    def _exits(stmts):
        return bool(stmts) and isinstance(stmts[-1], (ast.Return, ast.Raise, ast.Continue, ast.Break))

    def _mutations(self, st):
        """(description, node) for every possibly source-mutating thing directly in statement st (not in nested blocks)"""
        out = []
        nodes = []
        if isinstance(st, (ast.If, ast.While)):
            nodes = [st.test]
        elif isinstance(st, ast.For):
            nodes = [st.iter]
        elif isinstance(st, ast.With):
            nodes = [i.context_expr for i in st.items]
        elif isinstance(st, ast.Try):
            nodes = []
        else:
            nodes = [st]
        for root in nodes:
            for n in ast.walk(root):
                if isinstance(n, (ast.Attribute, ast.Subscript)) and isinstance(n.ctx, (ast.Store, ast.Del)):
                    if self._base(n) in self.sources:
                        out.append((f'store through {self._base(n)}', n))
                if isinstance(n, ast.Call):
                    name = n.func.id if isinstance(n.func, ast.Name) else getattr(n.func, 'attr', '')
                    recv = self._base(n.func.value) if isinstance(n.func, ast.Attribute) else None
                    first = self._base(n.args[0]) if n.args else None
                    on_source = (recv in self.sources) or (recv is None and first in self.sources)
                    if name in MUTATES_ARGUMENT:     # the receiver is incidental: what is written is the given argument
                        k = MUTATES_ARGUMENT[name]
                        tgt = self._base(n.args[k]) if len(n.args) > k else None
                        on_source = tgt in self.sources
                    if not on_source:
                        continue
                    passes_flag = any(isinstance(a, ast.Name) and a.id == self.flag for a in n.args) or \
                        any(isinstance(k.value, ast.Name) and k.value.id == self.flag for k in n.keywords)
                    if name in CUT_AWARE and passes_flag:
                        self.n_aware += 1
                        continue
                    if name in self.mut or name in ('append', 'extend', 'insert', 'pop', 'remove', 'clear', 'sort'):
                        out.append((f'call {name}() on {recv or first}', n))
        return out

    def _block(self, stmts, guarded):
        for i, st in enumerate(stmts):
            for what, n in self._mutations(st):
                if guarded:
                    self.n_guarded += 1
                else:
                    self.problems.append(f'line {n.lineno}: {what} is reachable with {self.flag} false')
            if isinstance(st, ast.If):
                self._block(st.body, guarded or self._is_flag_true(st.test))
                self._block(st.orelse, guarded or self._is_flag_false(st.test))
                # `if not cut: return ...`  ->  the rest of the block runs only with cut true
                if self._is_flag_false(st.test) and self._exits(st.body) and not st.orelse:
                    guarded = True
                if self._is_flag_true(st.test) and st.orelse and self._exits(st.orelse):
                    guarded = True
            elif isinstance(st, (ast.For, ast.While)):
                self._block(st.body, guarded)
                self._block(st.orelse, guarded)
            elif isinstance(st, ast.With):
                self._block(st.body, guarded)
            elif isinstance(st, ast.Try):
                self._block(st.body, guarded)
                for h in st.handlers:
                    self._block(h.body, guarded)
                self._block(st.orelse, guarded)
                self._block(st.finalbody, guarded)

    def run(self):
        self._block(self.fn.body, False)
        return self.problems


def c07_copy_frame(rep, prop='C07'):
    import re
    from pyvc import frontend
    mut = transitive_mutators()
    registered, skipped = [], []
    targets = []
    for modname, tables in (('fst_get_slice', ['_GET_SLICE_HANDLERS']), ('fst_get_one', ['_GET_ONE_HANDLERS'])):
        mod = frontend.module(modname)
        names = set()
        for t in tables:
            d = frontend.module_assign(modname, t)
            for v in d.values:
                for n in ast.walk(v):
                    if isinstance(n, ast.Name) and n.id.startswith(('_get_', 'get_')):
                        names.add(n.id)
        names |= {'_cut_or_copy_asts', '_cut_or_copy_asts2', '_get_slice', '_get_one'}
        funcs = {n.name: n for n in mod.tree.body if isinstance(n, ast.FunctionDef)}
        for nm in sorted(names):
            if nm in funcs:
                targets.append((modname, nm, funcs[nm]))
    for modname, nm in (('slice_exprlike', 'get_slice_sep'), ('slice_exprlike', 'get_slice_nosep'),
                        ('slice_stmtlike', 'get_slice_stmtlike')):
        mod = frontend.module(modname)
        f = {n.name: n for n in mod.tree.body if isinstance(n, ast.FunctionDef)}.get(nm)
        if f is not None:
            targets.append((modname, nm, f))
    for modname, nm, fn in targets:
        argnames = [a.arg for a in fn.args.posonlyargs + fn.args.args + fn.args.kwonlyargs]
        if 'cut' not in argnames:
            skipped.append((nm, 'no cut parameter'))
            continue
        g = GuardAnalysis(fn, mut)
        probs = g.run()
        ident = f'{modname}:{nm}'
        if probs and nm not in BASELINE_COPY_FRAME:
            skipped.append((nm, probs[0][:90]))
            continue
        try:
            loc = frontend.locate(ident)
        except frontend.ExtractionError:
            skipped.append((nm, 'not a live definition for this Python version'))
            continue

        class _S:
            name = 'copy frame (structural): source mutations only under cut'
            notes = f'{g.n_guarded} guarded mutation sites, {g.n_aware} cut-aware delegations'
        rep.function(loc, _S)
        name = f'{prop}.copy_frame.{nm}'
        rep.other('structural', name, not probs,
                  detail='; '.join(probs[:3]) or f'{g.n_guarded} possibly source-mutating statements, all guarded by cut; '
                  f'{g.n_aware} delegations that hand cut on', key=name,
                  replay={'function': ident, 'problems': probs[:10],
                          'verifier_output': 'all-paths guardedness analysis (transitive by-name mutator set)'})
        registered.append(nm)
    for nm in sorted(BASELINE_COPY_FRAME - set(registered)):
        rep.undecided(f'{prop}.copy_frame.{nm}', 'held on the pinned tree but can no longer be generated')
    rep.extra['copy_frame_registered'] = len(registered)
    rep.extra['copy_frame_not_registered'] = skipped[:60]
    return registered, skipped


# get handlers / helpers for which the obligation was generated and held on the pinned tree
BASELINE_COPY_FRAME = {
    '_cut_or_copy_asts', '_cut_or_copy_asts2', '_get_one', '_get_one_BoolOp_op', '_get_one_Compare',
    '_get_one_Dict__all', '_get_one_JoinedStr_TemplateStr_values', '_get_one_MatchMapping__all',
    '_get_one_arglike', '_get_one_arguments', '_get_one_arguments__all', '_get_one_constant',
    '_get_one_constant_promote_true', '_get_one_conversion', '_get_one_ctx', '_get_one_default',
    '_get_one_format_spec', '_get_one_identifier', '_get_one_identifier_promote_true',
    '_get_one_pattern_attrlikes__attrs', '_get_one_stmtlike', '_get_slice', '_get_slice_Assign_targets',
    '_get_slice_Boolop_values', '_get_slice_Call_ClassDef_keywords', '_get_slice_Delete_targets', '_get_slice_Dict__all',
    '_get_slice_List_elts', '_get_slice_Tuple_elts',
    '_get_slice_Global_Nonlocal_names', '_get_slice_ImportFrom_names', '_get_slice_Import_names',
    '_get_slice_MatchOr_patterns', '_get_slice_MatchSequence_patterns', '_get_slice_NOT_IMPLEMENTED_YET',
    '_get_slice_Set_elts', '_get_slice_With_AsyncWith_items', '_get_slice__slice',
    '_get_slice_comprehension_ifs', '_get_slice_decorator_list', '_get_slice_generators',
    '_get_slice_pattern_attrlikes__attrs', '_get_slice_pattern_attrlikes_patterns',
    '_get_slice_stmtlike__body', '_get_slice_type_params', 'get_slice_nosep'}


# ---------------------------------------------------------------------------------------------------------------------
# C15: "a node taken out of the tree by an edit is unmade" - the walk (and every holder of a node reference) tells a
# removed node from a live one only by the cleared AST<->FST link, so every deletion of AST nodes from a field list
# must be covered by an _unmake_fst_tree() of exactly those nodes.

BASELINE_UNMAKE_SITES = {
    'fst_put_slice._put_slice_Compare__all#0', 'fst_put_slice._put_slice_Compare__all#1', 'fst_put_slice._put_slice_asts#0',
    'fst_put_slice._put_slice_asts#1', 'fst_put_slice._put_slice_asts2#0', 'fst_put_slice._put_slice_asts2#1',
    'fst_put_slice._put_slice_asts2#2', 'fst_put_slice._put_slice_asts2#3', 'slice_stmtlike._put_slice_stmtlike_old#0',
    'slice_stmtlike._put_slice_stmtlike_old#1'}


def _norm_dump(n):
    import copy
    n = copy.deepcopy(n)
    for x in ast.walk(n):
        if hasattr(x, 'ctx'):
            x.ctx = ast.Load()
    return ast.dump(n)


def unmake_sites():
    """-> {site: (ok, lineno, text)} for every `del NAME[...]` / `NAME[a:b] = ...` statement of the put modules"""
    from pyvc import frontend
    out = {}
    for modname in ('fst_put_slice', 'slice_stmtlike', 'fst_put_one'):
        mod = frontend.module(modname)
        for fn in ast.walk(mod.tree):
            if not isinstance(fn, ast.FunctionDef):
                continue
            unmakes = []
            for n in ast.walk(fn):
                if isinstance(n, ast.Call) and isinstance(n.func, ast.Attribute) and n.func.attr == '_unmake_fst_tree':
                    subs = {_norm_dump(x) for a in n.args for x in ast.walk(a) if isinstance(x, ast.Subscript)}
                    unmakes.append((n.lineno, subs))
            k = 0
            for n in ast.walk(fn):
                if isinstance(n, ast.Delete):
                    tg = n.targets
                elif isinstance(n, ast.Assign):   # `xs[a:b] = new` drops xs[a:b] from the list just like `del`
                    tg = [t for t in n.targets if isinstance(t, ast.Subscript) and isinstance(t.slice, ast.Slice)]
                else:
                    continue
                for t in tg:
                    if isinstance(t, ast.Subscript) and isinstance(t.value, ast.Name):
                        d = _norm_dump(t)
                        ok = any(ln <= n.lineno and d in subs for ln, subs in unmakes)
                        out[f'{modname}.{fn.name}#{k}'] = (ok, n.lineno, ast.unparse(t))
                        k += 1
    return out


def unmake_covers_deletion(rep, prop='C15'):
    from pyvc import frontend
    sites = unmake_sites()
    seen_fn = set()
    for site in sorted(BASELINE_UNMAKE_SITES):
        name = f'{prop}.unmake_covers_deletion.{site}'
        if site not in sites:
            rep.undecided(name, 'the deletion site registered on the pinned tree is no longer found (function renamed or '
                          'the deletion rewritten): the obligation can no longer be generated')
            continue
        ok, ln, text = sites[site]
        ident = site.split('#')[0].replace('.', ':', 1)
        if ident not in seen_fn:
            seen_fn.add(ident)
            try:
                loc = frontend.locate(ident)

                class _S:
                    name = 'removed nodes are unmade (structural)'
                    notes = ''
                rep.function(loc, _S)
            except Exception:
                pass
        rep.other('structural', name, ok,
                  detail=(f'line {ln}: `del {text}` is covered by an earlier _unmake_fst_tree(... {text} ...)' if ok else
                          f'line {ln}: `del {text}` takes nodes out of the tree that no earlier _unmake_fst_tree() call of the '
                          'function names: they stay linked (alive) and a running walk yields them'),
                  key=name, replay={'function': ident, 'site': site, 'line': ln, 'verifier_output': 'syntactic cover analysis'})
    rep.extra['unmake_sites_not_registered'] = sorted((s, v[2]) for s, v in sites.items()
                                                      if s not in BASELINE_UNMAKE_SITES)[:40]
